/-
  Qfx.Model.Store — the message stores of quickfix (store.go, memory_store.go, store/file/file_store.go,
  store/file/util.go, store/sql/sql_store.go) and the abstract store they are meant to implement.

  * `AStore`     the abstract store of C16: two counters, a creation-time generation, a sorted map seq ↦ bytes.
  * `MemStore`   memory_store.go: counters stored minus one, Go map as association list, creation time = a clock value.
  * file store   byte-exact: five files per session, every operation is a list of primitives
                 `write f off bytes | sync f | create f | remove f` applied to the files; `IterateMessages`
                 is the `fmt.Fscanf(headerFile, "%d,%d,%d\n")` loop with its break/continue conditions.
  * SQL store    two tables + cache, every statement auto-commits except save-and-increment (one transaction).
  * crash semantics (C17): `DFS` = (volatile files, synced files); process crash keeps completed primitives and cuts
    the in-flight write at any byte; power loss reverts every file to its last synced contents.

  Times are never values: `time.Now()` is a strictly increasing clock (`Nat`), the text of a time in the session
  file is the opaque fixed-width token `timeText`.
-/
import Qfx.Model.Bytes
namespace Qfx.Store
open Qfx

abbrev MsgMap := List (Nat × Bytes)

/-! ## operations and observations shared by all stores -/

inductive Op where
  | setS (n : Nat) | setT (n : Nat) | incS | incT
  | save (n : Nat) (m : Bytes) | saveIncr (n : Nat) (m : Bytes)
  | get (b e : Int) | iter (b e : Int) (k : Nat)
  | refresh | reset | reopen
  deriving Repr, DecidableEq, Inhabited

/-- what a caller sees of one operation: error or not, both counters afterwards, whether the creation time was
    renewed by the operation, the messages handed to the callback -/
structure Obs where
  ok : Bool
  sender : Int
  target : Int
  renewed : Bool
  msgs : List Bytes
  deriving Repr, DecidableEq, Inhabited

/-- callback that fails on its `k`-th call (`k = 0`: never): messages delivered, and whether iteration completed -/
def cbRun (k : Nat) (msgs : List Bytes) : List Bytes × Bool :=
  if k = 0 ∨ msgs.length < k then (msgs, true) else (msgs.take k, false)

def inRange (b e : Int) (n : Nat) : Bool := decide (b ≤ (n : Int) ∧ (n : Int) ≤ e)

/-! ## the abstract store -/

structure AStore where
  sender : Nat := 1
  target : Nat := 1
  epoch : Nat := 0
  msgs : MsgMap := []
  deriving Repr, DecidableEq, Inhabited

/-- insert into a map kept sorted by key, replacing an existing binding -/
def ainsert (n : Nat) (m : Bytes) : MsgMap → MsgMap
  | [] => [(n, m)]
  | (k, v) :: t => if n < k then (n, m) :: (k, v) :: t else if n = k then (n, m) :: t else (k, v) :: ainsert n m t

def selectRange (b e : Int) (l : MsgMap) : List Bytes := (l.filter fun p => inRange b e p.1).map (·.2)

def AStore.step (s : AStore) : Op → AStore × Obs
  | .setS n => let s' := { s with sender := n }; (s', ⟨true, n, s.target, false, []⟩)
  | .setT n => let s' := { s with target := n }; (s', ⟨true, s.sender, n, false, []⟩)
  | .incS => ({ s with sender := s.sender + 1 }, ⟨true, s.sender + 1, s.target, false, []⟩)
  | .incT => ({ s with target := s.target + 1 }, ⟨true, s.sender, s.target + 1, false, []⟩)
  | .save n m => ({ s with msgs := ainsert n m s.msgs }, ⟨true, s.sender, s.target, false, []⟩)
  | .saveIncr n m => ({ s with msgs := ainsert n m s.msgs, sender := s.sender + 1 }, ⟨true, s.sender + 1, s.target, false, []⟩)
  | .get b e => (s, ⟨true, s.sender, s.target, false, selectRange b e s.msgs⟩)
  | .iter b e k => let r := cbRun k (selectRange b e s.msgs); (s, ⟨r.2, s.sender, s.target, false, r.1⟩)
  | .refresh => (s, ⟨true, s.sender, s.target, false, []⟩)
  | .reopen => (s, ⟨true, s.sender, s.target, false, []⟩)
  | .reset => ({ sender := 1, target := 1, epoch := s.epoch + 1, msgs := [] }, ⟨true, 1, 1, true, []⟩)

def AStore.run (s : AStore) : List Op → AStore × List Obs
  | [] => (s, [])
  | o :: os => let (s1, ob) := s.step o; let (s2, obs) := AStore.run s1 os; (s2, ob :: obs)

/-! ## memory_store.go -/

structure MemStore where
  senderM1 : Int := 0      -- senderMsgSeqNum (next − 1)
  targetM1 : Int := 0
  ctime : Nat := 0
  map : MsgMap := []       -- messageMap (nil and empty are the same thing to every reader)
  deriving Repr, DecidableEq, Inhabited

namespace MemStore
def nextS (m : MemStore) : Int := m.senderM1 + 1
def nextT (m : MemStore) : Int := m.targetM1 + 1
def setS (m : MemStore) (n : Int) : MemStore := { m with senderM1 := n - 1 }
def setT (m : MemStore) (n : Int) : MemStore := { m with targetM1 := n - 1 }
def incS (m : MemStore) : MemStore := { m with senderM1 := m.senderM1 + 1 }
def incT (m : MemStore) : MemStore := { m with targetM1 := m.targetM1 + 1 }
/-- `Reset`: counters 0, creation time := now, map dropped -/
def reset (_ : MemStore) (now : Nat) : MemStore := { senderM1 := 0, targetM1 := 0, ctime := now, map := [] }
def save (m : MemStore) (n : Nat) (b : Bytes) : MemStore := { m with map := ainsert n b m.map }
def lookup (m : MemStore) (n : Nat) : Option Bytes := (m.map.find? fun p => p.1 == n).map (·.2)

/-- `IterateMessages`: `for seqNum := begin; seqNum <= end; seqNum++ { if m, ok := map[seqNum] … cb(m) }`.
    `cnt` = number of loop rounds left, `calls` = callbacks made so far; the callback fails on call `k`. -/
def iterLoop (m : MemStore) (k : Nat) : Nat → Int → Nat → List Bytes → List Bytes × Bool
  | 0, _, _, acc => (acc.reverse, true)
  | cnt + 1, seq, calls, acc =>
      match (if seq < 0 then none else m.lookup seq.toNat) with
      | some b => if k ≠ 0 ∧ calls + 1 = k then ((b :: acc).reverse, false)
                  else iterLoop m k cnt (seq + 1) (calls + 1) (b :: acc)
      | none => iterLoop m k cnt (seq + 1) calls acc

def iterate (m : MemStore) (b e : Int) (k : Nat) : List Bytes × Bool :=
  iterLoop m k (e - b + 1).toNat b 0 []
end MemStore

/-- one memory store + the clock its `Reset` reads -/
structure MemW where
  st : MemStore
  clock : Nat
  deriving Repr, DecidableEq, Inhabited

/-- `memoryStoreFactory.Create`: `new(memoryStore)` then `Reset` -/
def MemW.create (clock : Nat) : MemW := { st := MemStore.reset {} clock, clock := clock + 1 }

def MemW.step (w : MemW) : Op → MemW × Obs
  | .setS n => let s := w.st.setS n; ({ w with st := s }, ⟨true, s.nextS, s.nextT, false, []⟩)
  | .setT n => let s := w.st.setT n; ({ w with st := s }, ⟨true, s.nextS, s.nextT, false, []⟩)
  | .incS => let s := w.st.incS; ({ w with st := s }, ⟨true, s.nextS, s.nextT, false, []⟩)
  | .incT => let s := w.st.incT; ({ w with st := s }, ⟨true, s.nextS, s.nextT, false, []⟩)
  | .save n m => let s := w.st.save n m; ({ w with st := s }, ⟨true, s.nextS, s.nextT, false, []⟩)
  | .saveIncr n m => let s := (w.st.save n m).incS; ({ w with st := s }, ⟨true, s.nextS, s.nextT, false, []⟩)
  | .get b e => let r := w.st.iterate b e 0; (w, ⟨r.2, w.st.nextS, w.st.nextT, false, r.1⟩)
  | .iter b e k => let r := w.st.iterate b e k; (w, ⟨r.2, w.st.nextS, w.st.nextT, false, r.1⟩)
  | .refresh => (w, ⟨true, w.st.nextS, w.st.nextT, false, []⟩)
  | .reopen => let m := MemW.create w.clock   -- not persistent: a new store from the factory is a fresh store
               (m, ⟨true, m.st.nextS, m.st.nextT, decide (m.st.ctime ≠ w.st.ctime), []⟩)
  | .reset => let s := w.st.reset w.clock
              ({ st := s, clock := w.clock + 1 }, ⟨true, s.nextS, s.nextT, decide (s.ctime ≠ w.st.ctime), []⟩)

def MemW.run (w : MemW) : List Op → MemW × List Obs
  | [] => (w, [])
  | o :: os => let (w1, ob) := w.step o; let (w2, obs) := MemW.run w1 os; (w2, ob :: obs)

/-! ## text formats of the file store -/

def cComma : Nat := 44
def cNL : Nat := 10
def cCR : Nat := 13
def cPlus : Nat := 43

/-- `fmt.Sprintf("%d", v)` -/
def fmtD (v : Int) : Bytes := fmtInt v

/-- `fmt.Sprintf("%019d", v)`: zero padding to width 19, the sign counts towards the width -/
def fmt019 (v : Int) : Bytes :=
  if v < 0 then cMinus :: padZero 18 (fmtNat v.natAbs) else padZero 19 (fmtNat v.natAbs)

/-- header line `"%d,%d,%d\n"` -/
def headerLine (seq : Int) (off size : Nat) : Bytes :=
  fmtD seq ++ [cComma] ++ fmtNat off ++ [cComma] ++ fmtNat size ++ [cNL]

/-- the text of creation time `t` (`time.MarshalText`), an opaque token: 'T', at least 12 digits, 'Z' -/
def timeText (t : Nat) : Bytes := 84 :: (padZero 12 (fmtNat t) ++ [90])

/-- `time.UnmarshalText`: only complete tokens parse (no strict prefix of an RFC 3339 text is one) -/
def parseTime (b : Bytes) : Option Nat :=
  match b with
  | 84 :: r => if 13 ≤ r.length ∧ r.getLast? = some 90 ∧ r.dropLast.all isDigit then some (digitsVal r.dropLast) else none
  | _ => none

/-- `strings.Trim(s, "\r\n")` -/
def trimCRLF (b : Bytes) : Bytes :=
  let isCut := fun c => c == cCR || c == cNL
  ((b.dropWhile isCut).reverse.dropWhile isCut).reverse

/-- `strconv.Atoi`: optional sign, at least one digit, only digits, value must fit an int64 -/
def atoiGo (b : Bytes) : Option Int :=
  match b with
  | [] => none
  | c :: r =>
    let neg := c == cMinus
    let ds := if c = cMinus ∨ c = cPlus then r else c :: r
    if ds.isEmpty ∨ !ds.all isDigit then none
    else
      let v := digitsVal ds
      if neg then (if v ≤ 9223372036854775808 then some (-(v : Int)) else none)
      else (if v ≤ 9223372036854775807 then some (v : Int) else none)

/-! ## `fmt.Fscanf(r, "%d,%d,%d\n", &seq, &off, &size)` on a reader without UnreadRune (an *os.File)

  Per verb: skip blanks (a newline is an error), EOF here is `io.EOF`, optional sign, at least one digit, digits up to the
  first non-digit (which is pushed back), `strconv.ParseInt` must not overflow. Literal `,`: next byte must be `,`
  (EOF = `io.ErrUnexpectedEOF`). Final `\n`: blanks, then newline **or end of input**. -/

inductive Scan where
  | eof                                   -- err == io.EOF
  | err                                   -- any other error
  | item (seq off size : Int) (rest : Bytes)
  deriving Repr, DecidableEq, Inhabited

def isBlank (c : Nat) : Bool := c == 9 || c == 11 || c == 12 || c == 13 || c == 32

inductive NumRes where
  | eof | err | num (v : Int) (rest : Bytes)
  deriving Repr, DecidableEq

/-- one `%d` -/
def scanNum (inp : Bytes) : NumRes :=
  match inp.dropWhile isBlank with
  | [] => .eof
  | c :: r =>
    if c = cNL then .err else
    let neg := c == cMinus
    let r1 := if c = cMinus ∨ c = cPlus then r else c :: r
    if r1.isEmpty then .eof else               -- `scanNumber`: notEOF after the sign
    let ds := r1.takeWhile isDigit
    if ds.isEmpty then .err else
    let v := digitsVal ds
    if neg then (if v ≤ 9223372036854775808 then .num (-(v : Int)) (r1.dropWhile isDigit) else .err)
    else (if v ≤ 9223372036854775807 then .num v (r1.dropWhile isDigit) else .err)

/-- literal `,` -/
def scanComma (inp : Bytes) : Option Bytes :=
  match inp with
  | c :: r => if c = cComma then some r else none
  | [] => none

def scanf3 (inp : Bytes) : Scan :=
  match scanNum inp with
  | .eof => .eof
  | .err => .err
  | .num a r1 =>
    match scanComma r1 with
    | none => .err
    | some r2 =>
      match scanNum r2 with
      | .eof => .eof
      | .err => .err
      | .num b r3 =>
        match scanComma r3 with
        | none => .err
        | some r4 =>
          match scanNum r4 with
          | .eof => .eof
          | .err => .err
          | .num c r5 =>
            match r5.dropWhile isBlank with
            | [] => .item a b c []
            | x :: r6 => if x = cNL then .item a b c r6 else .err

/-- `bodyFile.ReadAt(make([]byte, size), offset)` -/
def readAt (body : Bytes) (off size : Int) : Res Bytes :=
  if size < 0 then .fault "makeslice: len out of range"
  else if off < 0 then .err "negative offset"
  else if size = 0 then .ok []
  else
    let got := (body.drop off.toNat).take size.toNat
    if got.length = size.toNat then .ok got else .err "EOF"

/-- result of an iteration: messages handed to the callback, and how it ended -/
inductive IterEnd where
  | ok | err | fault
  deriving Repr, DecidableEq, Inhabited

/-- the `for { Fscanf … }` loop of `IterateMessages`; `fuel` bounds the number of header lines read -/
def fileIterLoop (body : Bytes) (b e : Int) (k : Nat) : Nat → Bytes → Nat → List Bytes → List Bytes × IterEnd
  | 0, _, _, acc => (acc.reverse, .ok)
  | fuel + 1, hdr, calls, acc =>
    match scanf3 hdr with
    | .eof => (acc.reverse, .ok)
    | .err => (acc.reverse, .err)
    | .item seq off size rest =>
      if seq > e then (acc.reverse, .ok)
      else if seq < b then fileIterLoop body b e k fuel rest calls acc
      else match readAt body off size with
        | .fault _ => (acc.reverse, .fault)
        | .err _ => (acc.reverse, .err)
        | .ok msg => if k ≠ 0 ∧ calls + 1 = k then ((msg :: acc).reverse, .err)
                     else fileIterLoop body b e k fuel rest (calls + 1) (msg :: acc)

def fileIterate (hdr body : Bytes) (b e : Int) (k : Nat) : List Bytes × IterEnd :=
  fileIterLoop body b e k (hdr.length + 1) hdr 0 []

/-! ## the five files of one session, primitives -/

inductive Ext where
  | header | body | session | sender | target
  deriving Repr, DecidableEq, Inhabited

/-- the files of one session (`none` = does not exist) -/
structure FS where
  header : Option Bytes := none
  body : Option Bytes := none
  session : Option Bytes := none
  sender : Option Bytes := none
  target : Option Bytes := none
  deriving Repr, DecidableEq, Inhabited

def FS.get (fs : FS) : Ext → Option Bytes
  | .header => fs.header | .body => fs.body | .session => fs.session | .sender => fs.sender | .target => fs.target

def FS.set (fs : FS) (x : Ext) (v : Option Bytes) : FS :=
  match x with
  | .header => { fs with header := v } | .body => { fs with body := v } | .session => { fs with session := v }
  | .sender => { fs with sender := v } | .target => { fs with target := v }

inductive Prim where
  | write (f : Ext) (off : Nat) (data : Bytes)
  | sync (f : Ext)
  | create (f : Ext)       -- `openOrCreateFile`: creates an empty file if there is none
  | remove (f : Ext)
  | truncate (f : Ext) (n : Nat)   -- `ftruncate` to `n` bytes
  deriving Repr, DecidableEq, Inhabited

/-- `pwrite`: overwrite / extend (a gap is zero-filled; the store never leaves one) -/
def writeAt (old : Bytes) (off : Nat) (data : Bytes) : Bytes :=
  old.take off ++ List.replicate (off - old.length) 0 ++ data ++ old.drop (off + data.length)

def applyPrim (fs : FS) : Prim → FS
  | .write f off d => match fs.get f with
      | some c => fs.set f (some (writeAt c off d))
      | none => fs
  | .sync _ => fs
  | .create f => match fs.get f with
      | some _ => fs
      | none => fs.set f (some [])
  | .remove f => fs.set f none
  | .truncate f n => match fs.get f with
      | some c => fs.set f (some (c.take n))
      | none => fs

def applyPrims (fs : FS) (ps : List Prim) : FS := ps.foldl applyPrim fs

/-! ## file_store.go -/

structure FStore where
  cache : MemStore := {}
  sync : Bool := true
  opened : Bool := false       -- the five handles are non-nil
  deriving Repr, DecidableEq, Inhabited

def len (o : Option Bytes) : Nat := (o.getD []).length

def syncIf (sync : Bool) (f : Ext) : List Prim := if sync then [.sync f] else []

/-- `setSeqNum`: seek 0, `%019d`, sync -/
def setSeqNumPrims (sync : Bool) (f : Ext) (n : Int) : List Prim := [.write f 0 (fmt019 n)] ++ syncIf sync f

/-- `setSession`: seek 0, MarshalText, sync -/
def setSessionPrims (sync : Bool) (t : Nat) : List Prim := [.write .session 0 (timeText t)] ++ syncIf sync .session

/-- `Close`: closeSyncFile (Sync + Close) of body, header, session, senderseqnums, targetseqnums if open -/
def closePrims (opened : Bool) : List Prim :=
  if opened then [.sync .body, .sync .header, .sync .session, .sync .sender, .sync .target] else []

/-- `syncBodyAndHeaderFilesLocked` -/
def syncBH : List Prim := [.sync .body, .sync .header]

/-- `SaveMessage` (after the `fix:` that writes the body first): offset := end of body; body bytes; header line at end
    of header; sync body, header -/
def saveMessagePrims (st : FStore) (fs : FS) (seq : Int) (msg : Bytes) : List Prim :=
  [.write .body (len fs.body) msg, .write .header (len fs.header) (headerLine seq (len fs.body) msg.length)]
  ++ (if st.sync then syncBH else [])

/-- the pinned original `SaveMessage`: index line first, then the bytes it points at (DESIGN §9 D12a) -/
def saveMessagePrimsOrig (st : FStore) (fs : FS) (seq : Int) (msg : Bytes) : List Prim :=
  [.write .header (len fs.header) (headerLine seq (len fs.body) msg.length), .write .body (len fs.body) msg]
  ++ (if st.sync then syncBH else [])

/-- `populateCache` -/
def populateCache (c : MemStore) (fs : FS) : Bool × MemStore :=
  let (pop, c1) := match fs.session with
    | some b => (match parseTime b with
                 | some t => (true, { c with ctime := t })
                 | none => (false, c))
    | none => (false, c)
  let c2 := match fs.sender with
    | some b => (match atoiGo (trimCRLF b) with
                 | some v => c1.setS v
                 | none => c1)
    | none => c1
  let c3 := match fs.target with
    | some b => (match atoiGo (trimCRLF b) with
                 | some v => c2.setT v
                 | none => c2)
    | none => c2
  (pop, c3)

def openPrims : List Prim := [.create .body, .create .header, .create .session, .create .sender, .create .target]

/-- length of the header contents up to and including the last newline -/
def keepLen (h : Bytes) : Nat := h.length - (h.reverse.takeWhile (· ≠ cNL)).length

/-- `dropIncompleteIndexLine` (after the `fix:`): truncate the header file after its last newline if a tail without newline is there -/
def truncPrims (sync : Bool) (h : Bytes) : List Prim :=
  if keepLen h = h.length then [] else [.truncate .header (keepLen h)] ++ syncIf sync .header

/-- `Refresh`: cache.Reset, Close, populateCache, open/create the five files, drop an incomplete trailing index line, write the
    session file if the creation time was not populated, rewrite both counter files from the cache.  Returns the new store and its primitives. -/
def refreshOp (st : FStore) (fs : FS) (now : Nat) : FStore × List Prim :=
  let c0 := st.cache.reset now
  let p1 := closePrims st.opened
  let (pop, c1) := populateCache c0 fs
  let p2 := openPrims ++ truncPrims st.sync (fs.header.getD [])
  let p3 := if pop then [] else setSessionPrims st.sync c1.ctime
  let p4 := setSeqNumPrims st.sync .sender c1.nextS
  let c2 := c1.setS c1.nextS
  let p5 := setSeqNumPrims st.sync .target c2.nextT
  let c3 := c2.setT c2.nextT
  ({ st with cache := c3, opened := true }, p1 ++ p2 ++ p3 ++ p4 ++ p5)

/-- `Reset` removes the index file first (after the `fix:`), then body, session, counters -/
def removePrims : List Prim := [.remove .header, .remove .body, .remove .session, .remove .sender, .remove .target]

/-- the pinned original order: body before header -/
def removePrimsOrig : List Prim := [.remove .body, .remove .header, .remove .session, .remove .sender, .remove .target]

/-- `Reset`: cache.Reset, Close, remove the five files, Refresh (two clock readings) -/
def resetOp (st : FStore) (fs : FS) (now : Nat) : FStore × List Prim :=
  let c0 := st.cache.reset now
  let p1 := closePrims st.opened ++ removePrims
  let fs1 := applyPrims fs p1
  let (st2, p2) := refreshOp { st with cache := c0, opened := false } fs1 (now + 1)
  (st2, p1 ++ p2)

/-- one file store, its files and the clock -/
structure FileW where
  st : FStore
  fs : FS
  clock : Nat
  deriving Repr, DecidableEq, Inhabited

def obsOf (c : MemStore) (old : MemStore) (ok : Bool) (msgs : List Bytes) : Obs :=
  ⟨ok, c.nextS, c.nextT, decide (c.ctime ≠ old.ctime), msgs⟩

/-- the primitives of one operation on (store, files) and the resulting store, before they are applied -/
def fileOpPrims (st : FStore) (fs : FS) (now : Nat) : Op → FStore × List Prim × Nat
  | .setS n => ({ st with cache := st.cache.setS n }, setSeqNumPrims st.sync .sender n, now)
  | .setT n => ({ st with cache := st.cache.setT n }, setSeqNumPrims st.sync .target n, now)
  | .incS => let n := st.cache.nextS + 1; ({ st with cache := st.cache.setS n }, setSeqNumPrims st.sync .sender n, now)
  | .incT => let n := st.cache.nextT + 1; ({ st with cache := st.cache.setT n }, setSeqNumPrims st.sync .target n, now)
  | .save n m => (st, saveMessagePrims st fs n m, now)
  | .saveIncr n m =>
      let k := st.cache.nextS + 1
      ({ st with cache := st.cache.setS k }, saveMessagePrims st fs n m ++ setSeqNumPrims st.sync .sender k, now)
  | .get _ _ => (st, syncBH ++ [.create .body, .create .header], now)
  | .iter _ _ _ => (st, syncBH ++ [.create .body, .create .header], now)
  | .refresh => let (s, p) := refreshOp st fs now; (s, p, now + 1)
  | .reset => let (s, p) := resetOp st fs now; (s, p, now + 2)
  | .reopen =>
      -- Close, then `newFileStore`: a new memory store (one clock reading in `Create`), then `Refresh`
      let p0 := closePrims st.opened
      let (s, p) := refreshOp { st with cache := MemStore.reset {} now, opened := false } fs (now + 1)
      (s, p0 ++ p, now + 2)

def FileW.step (w : FileW) (o : Op) : FileW × Obs :=
  let (st', ps, clock') := fileOpPrims w.st w.fs w.clock o
  let fs' := applyPrims w.fs ps
  let w' : FileW := { st := st', fs := fs', clock := clock' }
  match o with
  | .get b e =>
      let r := fileIterate (fs'.header.getD []) (fs'.body.getD []) b e 0
      (w', obsOf st'.cache w.st.cache (r.2 == .ok) r.1)
  | .iter b e k =>
      let r := fileIterate (fs'.header.getD []) (fs'.body.getD []) b e k
      (w', obsOf st'.cache w.st.cache (r.2 == .ok) r.1)
  | _ => (w', obsOf st'.cache w.st.cache true [])

/-- `newFileStore` on existing files: a new memory store as cache (one clock reading), then `Refresh` -/
def fileOpenPrims (sync : Bool) (fs : FS) (clock : Nat) : FStore × List Prim :=
  refreshOp { cache := MemStore.reset {} clock, sync := sync, opened := false } fs (clock + 1)

def FileW.open (sync : Bool) (fs : FS) (clock : Nat) : FileW :=
  let (s, p) := fileOpenPrims sync fs clock
  { st := s, fs := applyPrims fs p, clock := clock + 2 }

def FileW.run (w : FileW) : List Op → FileW × List Obs
  | [] => (w, [])
  | o :: os => let (w1, ob) := w.step o; let (w2, obs) := FileW.run w1 os; (w2, ob :: obs)

/-! ## sql_store.go over a two-table database -/

structure SessRow where
  ctime : Nat
  incoming : Int
  outgoing : Int
  deriving Repr, DecidableEq, Inhabited

/-- the rows of ONE session id in the two tables (rows of other ids are untouched by every statement, see `DB`) -/
structure Tables where
  sess : Option SessRow := none
  msgs : List (Nat × Bytes) := []        -- in insertion order; primary key = msgseqnum
  deriving Repr, DecidableEq, Inhabited

/-- `INSERT INTO messages`: primary-key violation if the sequence number is already there -/
def Tables.insertMsg (t : Tables) (n : Nat) (m : Bytes) : Option Tables :=
  if t.msgs.any (fun p => p.1 == n) then none else some { t with msgs := t.msgs ++ [(n, m)] }

def Tables.updOutgoing (t : Tables) (v : Int) : Tables := { t with sess := t.sess.map fun r => { r with outgoing := v } }
def Tables.updIncoming (t : Tables) (v : Int) : Tables := { t with sess := t.sess.map fun r => { r with incoming := v } }

/-- insertion into a list sorted by key (for `ORDER BY msgseqnum`) -/
def sortedInsert (p : Nat × Bytes) : MsgMap → MsgMap
  | [] => [p]
  | q :: t => if p.1 ≤ q.1 then p :: q :: t else q :: sortedInsert p t

def orderBySeq (l : MsgMap) : MsgMap := l.foldr sortedInsert []

/-- `SELECT message … WHERE msgseqnum>=? AND msgseqnum<=? ORDER BY msgseqnum` -/
def Tables.select (t : Tables) (b e : Int) : List Bytes :=
  (orderBySeq (t.msgs.filter fun p => inRange b e p.1)).map (·.2)

structure SStore where
  cache : MemStore := {}
  deriving Repr, DecidableEq, Inhabited

structure SqlW where
  st : SStore
  db : Tables
  clock : Nat
  deriving Repr, DecidableEq, Inhabited

/-- `populateCache` of the SQL store: load the session row or insert one from the cache -/
def sqlPopulate (c : MemStore) (db : Tables) : MemStore × Tables :=
  match db.sess with
  | some r => ((({ c with ctime := r.ctime } : MemStore).setT r.incoming).setS r.outgoing, db)
  | none => (c, { db with sess := some ⟨c.ctime, c.nextT, c.nextS⟩ })

/-- `newSQLStore`: memory store (Create = Reset), another cache.Reset, populateCache -/
def SqlW.open (db : Tables) (clock : Nat) : SqlW :=
  let c := MemStore.reset {} (clock + 1)
  let (c', db') := sqlPopulate c db
  { st := ⟨c'⟩, db := db', clock := clock + 2 }

/-- `failAt = some k`: the k-th statement (1-based) of this operation fails -/
def fails (failAt : Option Nat) (k : Nat) : Bool := failAt == some k

def SqlW.stepF (w : SqlW) (failAt : Option Nat) (o : Op) : SqlW × Obs :=
  let c := w.st.cache
  let same (ok : Bool) : SqlW × Obs := (w, obsOf c c ok [])
  match o with
  | .setS n => if fails failAt 1 then same false else
      let c' := c.setS n; ({ w with st := ⟨c'⟩, db := w.db.updOutgoing n }, obsOf c' c true [])
  | .setT n => if fails failAt 1 then same false else
      let c' := c.setT n; ({ w with st := ⟨c'⟩, db := w.db.updIncoming n }, obsOf c' c true [])
  | .incS => if fails failAt 1 then same false else
      let n := c.nextS + 1; let c' := c.setS n; ({ w with st := ⟨c'⟩, db := w.db.updOutgoing n }, obsOf c' c true [])
  | .incT => if fails failAt 1 then same false else
      let n := c.nextT + 1; let c' := c.setT n; ({ w with st := ⟨c'⟩, db := w.db.updIncoming n }, obsOf c' c true [])
  | .save n m => if fails failAt 1 then same false else
      (match w.db.insertMsg n m with
       | some db' => ({ w with db := db' }, obsOf c c true [])
       | none => same false)
  | .saveIncr n m =>
      -- one transaction: INSERT, UPDATE, COMMIT; any failure rolls everything back, the cache is set after the commit
      if fails failAt 1 then same false else
      (match w.db.insertMsg n m with
       | none => same false
       | some db1 =>
         if fails failAt 2 then same false else
         let k := c.nextS + 1
         let c' := c.setS k
         ({ w with st := ⟨c'⟩, db := db1.updOutgoing k }, obsOf c' c true []))
  | .get b e => if fails failAt 1 then same false else (w, obsOf c c true (w.db.select b e))
  | .iter b e k => if fails failAt 1 then same false else
      let r := cbRun k (w.db.select b e); (w, obsOf c c r.2 r.1)
  | .refresh =>
      let c0 := c.reset w.clock
      if fails failAt 1 then ({ w with st := ⟨c0⟩, clock := w.clock + 1 }, obsOf c0 c false []) else
      (match w.db.sess with
       | some _ => let (c', db') := sqlPopulate c0 w.db; ({ st := ⟨c'⟩, db := db', clock := w.clock + 1 }, obsOf c' c true [])
       | none => if fails failAt 2 then ({ w with st := ⟨c0⟩, clock := w.clock + 1 }, obsOf c0 c false []) else
                 let (c', db') := sqlPopulate c0 w.db; ({ st := ⟨c'⟩, db := db', clock := w.clock + 1 }, obsOf c' c true []))
  | .reset =>
      -- DELETE messages; cache.Reset; UPDATE sessions SET creation_time, incoming, outgoing
      if fails failAt 1 then same false else
      let db1 : Tables := { w.db with msgs := [] }
      let c0 := c.reset w.clock
      if fails failAt 2 then ({ st := ⟨c0⟩, db := db1, clock := w.clock + 1 }, obsOf c0 c false []) else
      let db2 : Tables := { db1 with sess := db1.sess.map fun _ => ⟨c0.ctime, c0.nextT, c0.nextS⟩ }
      ({ st := ⟨c0⟩, db := db2, clock := w.clock + 1 }, obsOf c0 c true [])
  | .reopen =>
      let w' := SqlW.open w.db w.clock
      (w', obsOf w'.st.cache c true [])

def SqlW.step (w : SqlW) (o : Op) : SqlW × Obs := w.stepF none o

def SqlW.run (w : SqlW) : List Op → SqlW × List Obs
  | [] => (w, [])
  | o :: os => let (w1, ob) := w.step o; let (w2, obs) := SqlW.run w1 os; (w2, ob :: obs)

/-! ## backing shared by the stores of several sessions -/

/-- one directory / one database holds one entry per session id (file-name prefix, id columns of the tables);
    an operation of the store of session `k` rewrites entry `k` only -/
def bset {α} (l : List (String × α)) (k : String) (v : α) : List (String × α) :=
  if l.any (·.1 == k) then l.map (fun p => if p.1 == k then (k, v) else p) else l ++ [(k, v)]

/-! ## crash semantics of the file store (C17) -/

/-- durable view: `vol` = what a reader sees now, `dur` = what survives a power loss -/
structure DFS where
  vol : FS
  dur : FS
  deriving Repr, DecidableEq, Inhabited

/-- directory operations (create, remove) are durable at once; data only by `sync` -/
def applyPrimD (d : DFS) (p : Prim) : DFS :=
  match p with
  | .write .. => { d with vol := applyPrim d.vol p }
  | .truncate .. => { d with vol := applyPrim d.vol p }
  | .sync f => { d with dur := d.dur.set f (d.vol.get f) }
  | .create _ => { vol := applyPrim d.vol p, dur := applyPrim d.dur p }
  | .remove _ => { vol := applyPrim d.vol p, dur := applyPrim d.dur p }

def applyPrimsD (d : DFS) (ps : List Prim) : DFS := ps.foldl applyPrimD d

inductive Mode where
  | process | power
  deriving Repr, DecidableEq, Inhabited

/-- the image found after a crash in the middle of `ps`: the first `i` primitives completed; if primitive `i` is a
    write, its first `cut` bytes reached the file (`cut` = 0: nothing of it) -/
def crashImage (d : DFS) (ps : List Prim) (i cut : Nat) (mode : Mode) : FS :=
  let d1 := applyPrimsD d (ps.take i)
  let d2 := match ps[i]? with
    | some (.write f off data) => if cut = 0 then d1 else applyPrimD d1 (.write f off (data.take cut))
    | _ => d1
  match mode with
  | .process => d2.vol
  | .power => d2.dur

/-- what a fresh store opened on an image reports -/
structure Recovered where
  sender : Int
  target : Int
  all : List Bytes × IterEnd        -- GetMessages over the whole range
  deriving Repr, DecidableEq, Inhabited

def recover (sync : Bool) (img : FS) (clock : Nat) : FileW := FileW.open sync img clock

end Qfx.Store
