/-
  Qfx.Model.Dict — the data dictionary builder (C19; its result feeds C13/C15).

  Mirrors datadictionary/build.go (`builder.build`, `buildComponents`, `findOrBuildComponentType`,
  `buildComponentType`, `buildGroupFieldDef`, `buildFieldDef`, `buildMessageDefs`, `buildMessageDef`)
  and datadictionary/datadictionary.go (`NewComponentType`, `NewGroupFieldDef`, `NewMessageDef`,
  `FieldDef.childTags`).

  Names (field, component, message type, type and enum texts) are an arbitrary type `ν` with decidable
  equality: the driver instantiates `String`, closed witnesses use `Nat`.

  Abstractions (what the model does not keep):
  * `requiredFields` of a component / group are kept as their tags (the only thing read from them);
  * Go `TagSet`s (`Tags`, `RequiredTags`) are lists read up to membership (the driver sorts and removes duplicates);
  * `MessageDef.Fields` (map tag ↦ *FieldDef) is `MDef.field?` = the LAST flattened top-level field with that tag;
  * Go maps keyed by name (`componentByName`, `FieldTypeByName`, `FieldTypeByTag`, `Messages`) are "last declaration wins";
  * the root attributes (`type`, `major`, `minor`) and XML well-formedness are not modelled (the harness keeps them valid);
  * Go recurses without bound through component references: the model recursion is on `fuel`
    (every call passes `fuel-1` down), `overflow` = the Go stack is exhausted.  `build` uses `Ast.size + 1`,
    enough for every acyclic specification.
-/
namespace Qfx.Dict

/-- member of a message / component / group in the specification file -/
inductive Member (ν : Type) where
  | field (n : ν) (req : Bool)
  | group (n : ν) (req : Bool) (ms : List (Member ν))
  | comp  (n : ν) (req : Bool)

/-- `<fields><field number name type><value enum/>…` -/
structure FieldDecl (ν : Type) where
  name : ν
  num : Nat
  type : ν
  enums : List ν

/-- the specification file as read by an XML reader (messages keyed by `msgtype`; the message name is not observed) -/
structure Ast (ν : Type) where
  fields : List (FieldDecl ν)
  comps : List (ν × List (Member ν))
  msgs : List (ν × List (Member ν))
  header : Option (List (Member ν))
  trailer : Option (List (Member ν))

mutual
def Member.size {ν} : Member ν → Nat
  | .field _ _ => 1
  | .group _ _ ms => 1 + membersSize ms
  | .comp _ _ => 1
def membersSize {ν} : List (Member ν) → Nat
  | [] => 1
  | m :: r => m.size + membersSize r
end

def Ast.size {ν} (a : Ast ν) : Nat :=
  (a.comps.map (fun c => membersSize c.2)).sum + (a.msgs.map (fun c => membersSize c.2)).sum
    + (match a.header with | some ms => membersSize ms | none => 0)
    + (match a.trailer with | some ms => membersSize ms | none => 0)

/-! ## built definitions -/

/-- datadictionary.FieldDef: tag, own `required`, flattened members `Fields` (non-empty ⇔ group), tags of `requiredFields` -/
inductive FDef where
  | mk (tag : Nat) (req : Bool) (fields : List FDef) (reqFields : List Nat)

namespace FDef
def tag : FDef → Nat | mk t _ _ _ => t
def req : FDef → Bool | mk _ r _ _ => r
def fields : FDef → List FDef | mk _ _ fs _ => fs
def reqFields : FDef → List Nat | mk _ _ _ rq => rq
def isGroup (f : FDef) : Bool := !f.fields.isEmpty
end FDef

/-- datadictionary.ComponentType: `fields` (flattened), tags of `requiredFields` -/
structure CType where
  fields : List FDef
  reqFields : List Nat

/-- datadictionary.MessagePart: a *FieldDef or a Component{ComponentType, required} -/
inductive Part where
  | fld (f : FDef)
  | cmp (c : CType) (req : Bool)

/-- what a part appends to `fields` in NewComponentType / NewGroupFieldDef (and what NewMessageDef iterates) -/
def Part.fields : Part → List FDef
  | .fld f => [f]
  | .cmp c _ => c.fields

/-- what a part appends to `requiredFields` in NewComponentType / NewGroupFieldDef -/
def Part.reqTags : Part → List Nat
  | .fld f => if f.req then [f.tag] else []
  | .cmp c r => if r then c.reqFields else []

/-- NewMessageDef BEFORE the fix (D10): every flattened field of a required component whose OWN flag is set -/
def Part.reqTagsOrig : Part → List Nat
  | .fld f => if f.req then [f.tag] else []
  | .cmp c r => if r then (c.fields.filter (·.req)).map (·.tag) else []

/-- datadictionary.NewComponentType -/
def newComponentType (ps : List Part) : CType :=
  { fields := ps.flatMap Part.fields, reqFields := ps.flatMap Part.reqTags }

/-- datadictionary.NewGroupFieldDef -/
def newGroupFieldDef (tag : Nat) (req : Bool) (ps : List Part) : FDef :=
  .mk tag req (ps.flatMap Part.fields) (ps.flatMap Part.reqTags)

mutual
/-- FieldDef.childTags -/
def FDef.childTags : FDef → List Nat
  | .mk _ _ fs _ => childTagsL fs
def childTagsL : List FDef → List Nat
  | [] => []
  | f :: r => (f.tag :: f.childTags) ++ childTagsL r
end

/-- the tags `processField` adds to `Tags` for one top-level field -/
def FDef.allTags (f : FDef) : List Nat := f.tag :: f.childTags

/-- datadictionary.MessageDef -/
structure MDef where
  parts : List Part
  /-- `Parts` with components replaced by their `Fields()` — the order in which NewMessageDef calls `processField` -/
  flat : List FDef
  tags : List Nat
  reqTags : List Nat

/-- `MessageDef.Fields[tag]` -/
def MDef.field? (m : MDef) (t : Nat) : Option FDef := m.flat.reverse.find? (fun f => f.tag == t)

/-- datadictionary.NewMessageDef (after the `fix:` — required tags of a required component are its RequiredFields()) -/
def newMessageDef (ps : List Part) : MDef :=
  let flat := ps.flatMap Part.fields
  { parts := ps, flat := flat, tags := flat.flatMap FDef.allTags, reqTags := ps.flatMap Part.reqTags }

/-- NewMessageDef as it was on the unchanged tree (D10) -/
def newMessageDefOrig (ps : List Part) : MDef :=
  let flat := ps.flatMap Part.fields
  { parts := ps, flat := flat, tags := flat.flatMap FDef.allTags, reqTags := ps.flatMap Part.reqTagsOrig }

/-! ## the builder -/

inductive BErr where
  | unknownField
  | unknownComp
  | overflow
  | cycle        -- "circular reference to component" (after the `fix:` that tracks the components being built)
  deriving DecidableEq, Repr

section
variable {ν : Type} [DecidableEq ν]

/-- `FieldTypeByName[n]` -/
def Ast.fieldByName (a : Ast ν) (n : ν) : Option (FieldDecl ν) :=
  a.fields.reverse.find? (fun f => f.name == n)

/-- `FieldTypeByTag[t]` -/
def Ast.fieldByTag (a : Ast ν) (t : Nat) : Option (FieldDecl ν) :=
  a.fields.reverse.find? (fun f => f.num == t)

/-- `componentByName[n]` -/
def Ast.compByName (a : Ast ν) (n : ν) : Option (List (Member ν)) :=
  (a.comps.reverse.find? (fun c => c.1 == n)).map (·.2)

/-- `dict.ComponentTypes`: newest binding first -/
abbrev Memo (ν : Type) := List (ν × CType)

def Memo.get? (m : Memo ν) (n : ν) : Option CType := (m.find? (fun c => c.1 == n)).map (·.2)

/--
  The member loops of `buildComponentType` / `buildGroupFieldDef` (`top = false`) and `buildMessageDef` (`top = true`),
  with `buildFieldDef`, `buildGroupFieldDef` and `findOrBuildComponentType` inlined.  Members are processed left to
  right; the memo table is the shared `dict.ComponentTypes` map.
-/
def buildParts (a : Ast ν) : Nat → Bool → Memo ν → List (Member ν) → Except BErr (List Part × Memo ν)
  | 0, _, _, _ => .error .overflow
  | _ + 1, _, memo, [] => .ok ([], memo)
  | fuel + 1, top, memo, .field n r :: rest =>
    match a.fieldByName n with
    | none => .error .unknownField
    | some fd =>
      match buildParts a fuel top memo rest with
      | .error e => .error e
      | .ok (ps, memo') => .ok (.fld (.mk fd.num r [] []) :: ps, memo')
  | fuel + 1, top, memo, .group n r ms :: rest =>
    match a.fieldByName n with
    | none => .error .unknownField
    | some fd =>
      match buildParts a fuel false memo ms with
      | .error e => .error e
      | .ok (gps, memo1) =>
        match buildParts a fuel top memo1 rest with
        | .error e => .error e
        | .ok (ps, memo2) => .ok (.fld (newGroupFieldDef fd.num r gps) :: ps, memo2)
  | fuel + 1, top, memo, .comp n r :: rest =>
    match Memo.get? memo n with
    | some ct =>
      match buildParts a fuel top memo rest with
      | .error e => .error e
      | .ok (ps, memo') => .ok (.cmp ct r :: ps, memo')
    | none =>
      if top then .error .unknownComp      -- buildMessageDef looks into dict.ComponentTypes only
      else
        match a.compByName n with
        | none => .error .unknownComp
        | some cms =>
          match buildParts a fuel false memo cms with
          | .error e => .error e
          | .ok (cps, memo1) =>
            let ct := newComponentType cps
            match buildParts a fuel top ((n, ct) :: memo1) rest with
            | .error e => .error e
            | .ok (ps, memo2) => .ok (.cmp ct r :: ps, memo2)

/-- builder.buildComponents -/
def buildComponents (a : Ast ν) (fuel : Nat) : List (ν × List (Member ν)) → Memo ν → Except BErr (Memo ν)
  | [], memo => .ok memo
  | (n, ms) :: rest, memo =>
    match Memo.get? memo n with
    | some _ => buildComponents a fuel rest memo
    | none =>
      match buildParts a fuel false memo ms with
      | .error e => .error e
      | .ok (ps, memo1) => buildComponents a fuel rest ((n, newComponentType ps) :: memo1)

/-- builder.buildMessageDefs: `Messages[msgtype] = …`, newest binding first -/
def buildMsgs (a : Ast ν) (fuel : Nat) (mk : List Part → MDef) (memo : Memo ν) :
    List (ν × List (Member ν)) → List (ν × MDef) → Except BErr (List (ν × MDef))
  | [], acc => .ok acc
  | (mt, ms) :: rest, acc =>
    match buildParts a fuel true memo ms with
    | .error e => .error e
    | .ok (ps, _) => buildMsgs a fuel mk memo rest ((mt, mk ps) :: acc)

def buildOpt (a : Ast ν) (fuel : Nat) (mk : List Part → MDef) (memo : Memo ν) :
    Option (List (Member ν)) → Except BErr (Option MDef)
  | none => .ok none
  | some ms =>
    match buildParts a fuel true memo ms with
    | .error e => .error e
    | .ok (ps, _) => .ok (some (mk ps))

/-- datadictionary.DataDictionary (field types are read straight from the AST: `Ast.fieldByTag`) -/
structure Dict (ν : Type) where
  comps : Memo ν
  msgs : List (ν × MDef)
  header : Option MDef
  trailer : Option MDef

def Dict.msg? (d : Dict ν) (mt : ν) : Option MDef := (d.msgs.find? (fun c => c.1 == mt)).map (·.2)

/-- builder.build with an explicit recursion budget and NewMessageDef variant -/
def buildWith (a : Ast ν) (fuel : Nat) (mk : List Part → MDef) : Except BErr (Dict ν) :=
  match buildComponents a fuel a.comps [] with
  | .error e => .error e
  | .ok memo =>
    match buildMsgs a fuel mk memo a.msgs [] with
    | .error e => .error e
    | .ok msgs =>
      match buildOpt a fuel mk memo a.header with
      | .error e => .error e
      | .ok h =>
        match buildOpt a fuel mk memo a.trailer with
        | .error e => .error e
        | .ok t => .ok { comps := memo, msgs := msgs, header := h, trailer := t }

/-- builder.build with the D10 fix but without the circular-reference check (see `buildS` for the current tree) -/
def build (a : Ast ν) : Except BErr (Dict ν) := buildWith a (a.size + 1) newMessageDef

/-- builder.build on the unchanged tree (D10) -/
def buildOrig (a : Ast ν) : Except BErr (Dict ν) := buildWith a (a.size + 1) newMessageDefOrig

/-! ## the builder after the `fix:` that refuses circular component references

  `builder.building` (names of the components whose build is in progress) is the extra argument `stack`;
  `buildComponentType` returns an error when asked to build a component that is already on it.  Everything else is as
  above; `buildParts` / `buildWith` (no check: the unchanged tree, which recursed without bound) are kept, and
  `buildPartsS_ok` (Lemmas) shows that a successful checked build is a successful unchecked build with the same result,
  so that every statement about successful builds carries over.  The recursion is still on `fuel`; with the check the
  default budget `Ast.size + 1` is never exhausted (`C19_no_overflow`), and a file with unique names and no dangling
  reference is refused exactly when its component graph is cyclic, with `.cycle` (`C19_cycle_iff`).
-/

def buildPartsS (a : Ast ν) : Nat → Bool → Memo ν → List ν → List (Member ν) → Except BErr (List Part × Memo ν)
  | 0, _, _, _, _ => .error .overflow
  | _ + 1, _, memo, _, [] => .ok ([], memo)
  | fuel + 1, top, memo, stack, .field n r :: rest =>
    match a.fieldByName n with
    | none => .error .unknownField
    | some fd =>
      match buildPartsS a fuel top memo stack rest with
      | .error e => .error e
      | .ok (ps, memo') => .ok (.fld (.mk fd.num r [] []) :: ps, memo')
  | fuel + 1, top, memo, stack, .group n r ms :: rest =>
    match a.fieldByName n with
    | none => .error .unknownField
    | some fd =>
      match buildPartsS a fuel false memo stack ms with
      | .error e => .error e
      | .ok (gps, memo1) =>
        match buildPartsS a fuel top memo1 stack rest with
        | .error e => .error e
        | .ok (ps, memo2) => .ok (.fld (newGroupFieldDef fd.num r gps) :: ps, memo2)
  | fuel + 1, top, memo, stack, .comp n r :: rest =>
    match Memo.get? memo n with
    | some ct =>
      match buildPartsS a fuel top memo stack rest with
      | .error e => .error e
      | .ok (ps, memo') => .ok (.cmp ct r :: ps, memo')
    | none =>
      if top then .error .unknownComp
      else
        match a.compByName n with
        | none => .error .unknownComp
        | some cms =>
          if stack.contains n then .error .cycle       -- buildComponentType: b.building[name]
          else
            match buildPartsS a fuel false memo (n :: stack) cms with
            | .error e => .error e
            | .ok (cps, memo1) =>
              let ct := newComponentType cps
              match buildPartsS a fuel top ((n, ct) :: memo1) stack rest with
              | .error e => .error e
              | .ok (ps, memo2) => .ok (.cmp ct r :: ps, memo2)

def buildComponentsS (a : Ast ν) (fuel : Nat) : List (ν × List (Member ν)) → Memo ν → Except BErr (Memo ν)
  | [], memo => .ok memo
  | (n, ms) :: rest, memo =>
    match Memo.get? memo n with
    | some _ => buildComponentsS a fuel rest memo
    | none =>
      match buildPartsS a fuel false memo [n] ms with
      | .error e => .error e
      | .ok (ps, memo1) => buildComponentsS a fuel rest ((n, newComponentType ps) :: memo1)

def buildMsgsS (a : Ast ν) (fuel : Nat) (mk : List Part → MDef) (memo : Memo ν) :
    List (ν × List (Member ν)) → List (ν × MDef) → Except BErr (List (ν × MDef))
  | [], acc => .ok acc
  | (mt, ms) :: rest, acc =>
    match buildPartsS a fuel true memo [] ms with
    | .error e => .error e
    | .ok (ps, _) => buildMsgsS a fuel mk memo rest ((mt, mk ps) :: acc)

def buildOptS (a : Ast ν) (fuel : Nat) (mk : List Part → MDef) (memo : Memo ν) :
    Option (List (Member ν)) → Except BErr (Option MDef)
  | none => .ok none
  | some ms =>
    match buildPartsS a fuel true memo [] ms with
    | .error e => .error e
    | .ok (ps, _) => .ok (some (mk ps))

def buildWithS (a : Ast ν) (fuel : Nat) (mk : List Part → MDef) : Except BErr (Dict ν) :=
  match buildComponentsS a fuel a.comps [] with
  | .error e => .error e
  | .ok memo =>
    match buildMsgsS a fuel mk memo a.msgs [] with
    | .error e => .error e
    | .ok msgs =>
      match buildOptS a fuel mk memo a.header with
      | .error e => .error e
      | .ok h =>
        match buildOptS a fuel mk memo a.trailer with
        | .error e => .error e
        | .ok t => .ok { comps := memo, msgs := msgs, header := h, trailer := t }

/-- builder.build on the fixed tree (D10 fix and circular-reference check) -/
def buildS (a : Ast ν) : Except BErr (Dict ν) := buildWithS a (a.size + 1) newMessageDef

end
end Qfx.Dict
