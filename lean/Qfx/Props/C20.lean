/- C20 — keep-alive. First theorems (timer events); more in progress (DESIGN §5 C20). -/
import Qfx.Spec.Session
open Qfx Qfx.Sess

/-- a second PeerTimeout while a test request is pending ends the session (the disconnect bookkeeping is setState's) -/
theorem C20_dead_peer (s : Sess) (h : s.st = .pendingIn) : (timeoutCore s .peerTimeout).2 = .latent := by
  simp [timeoutCore, h]
theorem C20_dead_peer_recovering (s : Sess) (st : List (Int × InMsg)) (c f : Int) (h : s.st = .pendingResend st c f) :
    (timeoutCore s .peerTimeout).2 = .latent := by
  simp [timeoutCore, h]

/-- no heartbeat while a test request is pending -/
theorem C20_no_heartbeat_while_pending (s : Sess) (h : s.st = .pendingIn) : timeoutCore s .needHeartbeat = (s, .pendingIn) := by
  simp [timeoutCore, h]

/-- PeerTimeout in normal operation: TestRequest "TEST", peer timer re-armed to 1.2 x HeartBtInt, state becomes pending -/
theorem C20_peer_timeout_sends_test_request (s : Sess) (h : s.st = .inSession) :
    timeoutCore s .peerTimeout = ((sendInReplyTo s (mkOut "1" [(112, "TEST")])).emit (.armPeer (1200 * (sendInReplyTo s (mkOut "1" [(112, "TEST")])).hb)), .pendingIn) := by
  simp [timeoutCore, h, inSessionTimeout]

/-- …and during recovery the recovery bookkeeping is carried into the pending state unchanged -/
theorem C20_peer_timeout_keeps_recovery (s : Sess) (st : List (Int × InMsg)) (c f : Int) (h : s.st = .resend st c f) :
    (timeoutCore s .peerTimeout).2 = .pendingResend st c f := by
  simp [timeoutCore, h, inSessionTimeout]

/-- NeedHeartbeat in normal operation sends one Heartbeat and stays -/
theorem C20_heartbeat (s : Sess) (h : s.st = .inSession) : timeoutCore s .needHeartbeat = (sendInReplyTo s (mkOut "0" []), .inSession) := by
  simp [timeoutCore, h, inSessionTimeout]

/-- any inbound message cancels a pending test request without disturbing the recovery: the pending states process
    messages exactly as the states they wrap -/
theorem C20_pending_is_transparent_normal (s : Sess) (m : InMsg) (h : s.st = .pendingIn) : fixMsgInCore s m = inSessionFixMsgIn s m := by
  simp [fixMsgInCore, h]
theorem C20_pending_is_transparent_recovering (s : Sess) (m : InMsg) (st : List (Int × InMsg)) (c f : Int) (h : s.st = .pendingResend st c f) :
    fixMsgInCore s m = resendFixMsgIn s st c f m := by
  simp [fixMsgInCore, h]
