/-
  C20 — "Keep-alive: heartbeats, test requests and dead-peer disconnect".
  Property theorems only (helper lemmas: Qfx/Lemmas/SessC20.lean, Qfx/Lemmas/SessC04.lean).

  properties.jsonl: "While logged on, a TestRequest received in sequence is answered by one Heartbeat carrying the same
  TestReqID; when nothing has been sent for the heartbeat interval a Heartbeat is sent (unless a test request is
  pending), and when nothing has been received for 1.2 heartbeat intervals a TestRequest is sent. If nothing arrives for
  another 1.2 intervals the session is disconnected and the application notified, whereas any inbound message in between
  cancels the pending disconnect without disturbing a gap recovery in progress. An acceptor uses the interval announced
  in the peer's Logon unless configured to override it."
-/
import Qfx.Lemmas.SessC20
open Qfx Qfx.Sess

/-! ### the timer events (`C20_events`) -/

/-- NeedHeartbeat (nothing sent for the heartbeat interval) outside a pending TestRequest: exactly one Heartbeat (no
    TestReqID) is sent, the state does not change -/
theorem C20_heartbeat (s : Sess) (h : C20Active s.st) :
    timeoutCore s .needHeartbeat = (sendInReplyTo s (mkOut "0" []), s.st) := by
  rcases h with h | ⟨a, b, c, h⟩ <;> simp [timeoutCore, inSessionTimeout, h]

/-- … unless a TestRequest is pending: nothing at all happens -/
theorem C20_no_heartbeat_while_pending (s : Sess) (h : C20Pending s.st) :
    timeoutCore s .needHeartbeat = (s, s.st) := by
  rcases h with h | ⟨a, b, c, h⟩ <;> simp [timeoutCore, h]

/-- PeerTimeout (nothing received for 1.2 heartbeat intervals) with no TestRequest outstanding: exactly one TestRequest
    `112=TEST` is sent, the peer timer is re-armed to 1.2 × HeartBtInt, the next state is the pending wrapper of the
    same state (a recovery keeps its stash and ranges) -/
theorem C20_test_request (s : Sess) (h : C20Active s.st) :
    timeoutCore s .peerTimeout =
      ((sendInReplyTo s (mkOut "1" [(112, "TEST")])).emit (.armPeer (1200 * s.hb)), pendingOf s.st) := by
  have hb : (sendInReplyTo s (mkOut "1" [(112, "TEST")])).hb = s.hb := (adminSent s _ rfl rfl h.loggedOn).hb
  rcases h with h | ⟨a, b, c, h⟩ <;> simp [timeoutCore, inSessionTimeout, h, hb, pendingOf]

/-- PeerTimeout while the TestRequest is still unanswered: nothing is sent; the session leaves for `latent` … -/
theorem C20_dead_peer (s : Sess) (h : C20Pending s.st) : timeoutCore s .peerTimeout = (s, .latent) := by
  rcases h with h | ⟨a, b, c, h⟩ <;> simp [timeoutCore, h]

/-- what "sent" means for the Heartbeat / TestRequest: numbered, stored, written after whatever was queued -/
theorem C20_sent (s : Sess) (k : String) (f : Fields) (hk : isAdminKind k = true) (hA : (k == "A") = false)
    (hl : s.st.loggedOn = true) : AdminSent s (mkOut k f) (sendInReplyTo s (mkOut k f)) := adminSent s _ hk hA hl

/-! the same on whole events -/

theorem C20_heartbeat_step (s : Sess) (h : C20Active s.st) :
    (step s (.timeout .needHeartbeat)).1.st = s.st ∧
    (step s (.timeout .needHeartbeat)).2.1 =
      persistObs s.cfg (numbered s (mkOut "0" [])) ::
        (if s.out then (s.toSend ++ [numbered s (mkOut "0" [])]).map Obs.wire else []) := by
  have hl := h.loggedOn
  have hs : AdminSent s.clearLog (mkOut "0" []) (sendInReplyTo s.clearLog (mkOut "0" [])) := adminSent _ _ rfl rfl hl
  rw [step_timeout_eq s _ (connected_sessionTime _ (loggedOn_connected _ hl)) _ (C20_heartbeat s.clearLog h)
    (loggedOn_connected _ hl)]
  refine ⟨rfl, ?_⟩
  simp only [hs.log]
  have hnum : ∀ x, numbered s.clearLog x = numbered s x := fun _ => rfl
  rw [hnum]
  simp [Sess.clearLog]

theorem C20_no_heartbeat_while_pending_step (s : Sess) (h : C20Pending s.st) :
    (step s (.timeout .needHeartbeat)).1.st = s.st ∧ (step s (.timeout .needHeartbeat)).2.1 = [] ∧
    (step s (.timeout .needHeartbeat)).1.toSend = s.toSend := by
  have hl := h.loggedOn
  rw [step_timeout_eq s _ (connected_sessionTime _ (loggedOn_connected _ hl)) _ (C20_no_heartbeat_while_pending s.clearLog h)
    (loggedOn_connected _ hl)]
  exact ⟨rfl, rfl, rfl⟩

theorem C20_test_request_step (s : Sess) (h : C20Active s.st) :
    (step s (.timeout .peerTimeout)).1.st = pendingOf s.st ∧
    (step s (.timeout .peerTimeout)).2.1 =
      persistObs s.cfg (numbered s (mkOut "1" [(112, "TEST")])) ::
        (if s.out then (s.toSend ++ [numbered s (mkOut "1" [(112, "TEST")])]).map Obs.wire else [])
        ++ [.armPeer (1200 * s.hb)] := by
  have hl := h.loggedOn
  have hs : AdminSent s.clearLog (mkOut "1" [(112, "TEST")]) (sendInReplyTo s.clearLog (mkOut "1" [(112, "TEST")])) :=
    adminSent _ _ rfl rfl hl
  rw [step_timeout_eq s _ (connected_sessionTime _ (loggedOn_connected _ hl)) _ (C20_test_request s.clearLog h)
    (pendingOf_connected _ h)]
  refine ⟨rfl, ?_⟩
  simp only [Sess.emit, List.reverse_cons, hs.log]
  have hnum : ∀ x, numbered s.clearLog x = numbered s x := fun _ => rfl
  rw [hnum]
  simp [Sess.clearLog]

/-- … and on the whole event (nothing buffered in the inbound channel — "nothing arrives"): the application is notified
    (`onLogout`), the store is reset if so configured, the connection is closed; no TestRequest, nothing else -/
theorem C20_dead_peer_step (s : Sess) (h : C20Pending s.st) (hi : s.inbox = []) :
    (step s (.timeout .peerTimeout)).1.st = .latent ∧ (step s (.timeout .peerTimeout)).1.out = false ∧
    (step s (.timeout .peerTimeout)).2.1 = Obs.onLogout ::
        ((if s.cfg.resetOnDisconnect then [Obs.reset] else []) ++ (if s.out then [Obs.closed] else [])) :=
  step_timeout_latent s _ h.loggedOn hi (C20_dead_peer s.clearLog h)

/-! ### an inbound message while the TestRequest is pending (`C20_cancel`) -/

/-- the next state chosen by the handler of an inbound message is never a pending one: whatever arrives cancels the
    pending disconnect -/
theorem C20_cancel_not_pending (s : Sess) (m : InMsg) : ¬ C20Pending (fixMsgInCore s m).2 := by
  have := np_fixMsgInCore s m
  rintro (h | ⟨a, b, c, h⟩) <;> rw [h] at this <;> cases this

/-- **C20 (cancel)**, normal operation: with a TestRequest pending an inbound message is processed exactly as in
    `inSession` — same next state, same session record (same observations, counters, queue) up to the state tag,
    which no handler touches -/
theorem C20_cancel_inSession (s : Sess) (m : InMsg) (h : s.st = .pendingIn) :
    fixMsgInCore (s.setSt .inSession) m = ((fixMsgInCore s m).1.setSt .inSession, (fixMsgInCore s m).2) := by
  have hs : Same .inSession s := ⟨by rw [h]; rfl, by simp [curResend, h, Sess.setSt]⟩
  have e1 : fixMsgInCore s m = inSessionFixMsgIn s m := by simp [fixMsgInCore, h]
  have e2 : fixMsgInCore (s.setSt .inSession) m = inSessionFixMsgIn (s.setSt .inSession) m := by simp [fixMsgInCore, Sess.setSt]
  rw [e1, e2, c_inSessionFixMsgIn _ s m hs]; rfl

/-- **C20 (cancel)**, gap recovery in progress: with a TestRequest pending an inbound message is processed exactly as in
    the recovery state with the same stash, chunk end and gap end (the code after the `fix:` — the type switches look
    through the pending wrapper; `lookThroughPending` is the model's switch for that, on by default) -/
theorem C20_cancel_resend (s : Sess) (m : InMsg) (stash : List (Int × InMsg)) (cur fin : Int)
    (h : s.st = .pendingResend stash cur fin) (hfix : s.cfg.lookThroughPending = true) :
    fixMsgInCore (s.setSt (.resend stash cur fin)) m =
      ((fixMsgInCore s m).1.setSt (.resend stash cur fin), (fixMsgInCore s m).2) := by
  have hs : Same (.resend stash cur fin) s := ⟨by rw [h]; rfl, by simp [curResend, h, hfix, Sess.setSt]⟩
  have e1 : fixMsgInCore s m = resendFixMsgIn s stash cur fin m := by simp [fixMsgInCore, h]
  have e2 : fixMsgInCore (s.setSt (.resend stash cur fin)) m = resendFixMsgIn (s.setSt (.resend stash cur fin)) stash cur fin m := by
    simp [fixMsgInCore, Sess.setSt]
  rw [e1, e2, c_resendFixMsgIn _ s stash cur fin m hs]; rfl

/-- consequently the whole event `Incoming(m)` is the same in a pending state and in the state it wraps — observations,
    final record and status are equal — whenever the handler leaves the session connected, and also when it ends the
    session (logout notification, reset, close) provided nothing is buffered in the inbound channel -/
theorem C20_cancel_step (s : Sess) (m : InMsg) (b : SState)
    (h : (s.st = .pendingIn ∧ b = .inSession) ∨
         (∃ stash cur fin, s.st = .pendingResend stash cur fin ∧ b = .resend stash cur fin ∧ s.cfg.lookThroughPending = true))
    (hnx : (fixMsgInCore s.clearLog m).2.connected = true ∨ s.inbox = []) :
    step (s.setSt b) (.incomingMsg (some m)) = step s (.incomingMsg (some m)) := by
  have hl : s.st.loggedOn = true := by
    rcases h with ⟨h, _⟩ | ⟨_, _, _, h, _, _⟩ <;> rw [h] <;> rfl
  have hb : b.loggedOn = true := by
    rcases h with ⟨_, h⟩ | ⟨_, _, _, _, h, _⟩ <;> rw [h] <;> rfl
  have key : fixMsgInCore (s.clearLog.setSt b) m = ((fixMsgInCore s.clearLog m).1.setSt b, (fixMsgInCore s.clearLog m).2) := by
    rcases h with ⟨h, rfl⟩ | ⟨st, c, f, h, rfl, hf⟩
    · exact C20_cancel_inSession s.clearLog m h
    · exact C20_cancel_resend s.clearLog m st c f h hf
  have hfr : (fixMsgInCore s.clearLog m).1.st = s.st ∧ (fixMsgInCore s.clearLog m).1.inbox = s.inbox := by
    rcases h with ⟨h, _⟩ | ⟨st, c, f, h, _, hf⟩
    · have e : fixMsgInCore s.clearLog m = inSessionFixMsgIn s.clearLog m := by simp [fixMsgInCore, Sess.clearLog, h]
      rw [e]
      exact ⟨(q_inSessionFixMsgIn s.clearLog m).st, (q_inSessionFixMsgIn s.clearLog m).inbox⟩
    · have hc : curResend s.clearLog = some (st, c, f) := by simp [curResend, Sess.clearLog, h, hf]
      rw [fixMsgInCore_rec s.clearLog m st c f hc]
      have hq := q_resendFixMsgIn s.clearLog st c f m (by rw [hc]; rfl)
      exact ⟨hq.st, hq.inbox⟩
  exact step_incoming_retag s m b hl hb key hfr hnx

/-! ### a TestRequest received in sequence (`C20_testrequest_echo`) -/

/-- **C20 (echo)**, any logged-on state: a TestRequest with the expected number that passes the identity gates (and
    the SendingTime check where it applies — it is skipped during gap recovery), has no empty field and is not refused by
    the application, carrying `112 = x`: the in-session handler does exactly this — FromAdmin, ONE Heartbeat `112 = x`
    sent in reply, the expected number advanced by one; next state `inSession`. -/
theorem C20_testrequest_echo (s : Sess) (m : InMsg) (x : String) (hk : kindOf m = "1")
    (hb : checkBeginString s m = none) (hc : checkCompID s m = none)
    (ht : (curResend s).isSome = true ∨ checkSendingTime s m = none)
    (hn : getInt m 34 = .val s.store.target) (hv : validate s.cfg m = none) (hcb : callbackVerdict m = none)
    (hx : m.f.get? 112 = some x) :
    inSessionFixMsgIn s m =
      (incrTarget (sendInReplyTo (s.emit (.fromAdmin "1" (seqText m))) ((mkOut "0" [(112, x)]).inReplyTo m)), .inSession) :=
  inSessionFixMsgIn_testRequest s m x hk hb hc ht hn hv hcb hx

/-- in normal operation (also with a TestRequest of our own pending) that is the whole reaction … -/
theorem C20_testrequest_echo_inSession (s : Sess) (m : InMsg) (x : String) (hst : s.st = .inSession ∨ s.st = .pendingIn)
    (hk : kindOf m = "1") (hb : checkBeginString s m = none) (hc : checkCompID s m = none)
    (ht : checkSendingTime s m = none)
    (hn : getInt m 34 = .val s.store.target) (hv : validate s.cfg m = none) (hcb : callbackVerdict m = none)
    (hx : m.f.get? 112 = some x) :
    fixMsgInCore s m =
      (incrTarget (sendInReplyTo (s.emit (.fromAdmin "1" (seqText m))) ((mkOut "0" [(112, x)]).inReplyTo m)), .inSession) := by
  have : fixMsgInCore s m = inSessionFixMsgIn s m := by rcases hst with h | h <;> simp [fixMsgInCore, h]
  rw [this]; exact C20_testrequest_echo s m x hk hb hc (Or.inr ht) hn hv hcb hx

/-- … and during gap recovery (also pending) it is the first thing that happens; what follows is the recovery
    bookkeeping on the unchanged stash (next chunk / stay / drain — C04) -/
theorem C20_testrequest_echo_recovery (s : Sess) (m : InMsg) (x : String) (stash : List (Int × InMsg)) (cur fin : Int)
    (h : curResend s = some (stash, cur, fin))
    (hk : kindOf m = "1") (hb : checkBeginString s m = none) (hc : checkCompID s m = none)
    (hn : getInt m 34 = .val s.store.target) (hv : validate s.cfg m = none) (hcb : callbackVerdict m = none)
    (hx : m.f.get? 112 = some x) :
    fixMsgInCore s m =
      resendBook (incrTarget (sendInReplyTo (s.emit (.fromAdmin "1" (seqText m))) ((mkOut "0" [(112, x)]).inReplyTo m))) .inSession
        stash cur fin m := by
  rw [fixMsgInCore_rec s m stash cur fin h, resendFixMsgIn_eq,
    C20_testrequest_echo s m x hk hb hc (Or.inl (by rw [h]; rfl)) hn hv hcb hx]
  rfl

/-- the Heartbeat is numbered, stored and written after whatever was queued; the expected number is `T + 1` afterwards -/
theorem C20_testrequest_echo_sent (s : Sess) (m : InMsg) (x : String) (hl : s.st.loggedOn = true) :
    AdminSent (s.emit (.fromAdmin "1" (seqText m))) ((mkOut "0" [(112, x)]).inReplyTo m)
      (sendInReplyTo (s.emit (.fromAdmin "1" (seqText m))) ((mkOut "0" [(112, x)]).inReplyTo m)) ∧
    (incrTarget (sendInReplyTo (s.emit (.fromAdmin "1" (seqText m))) ((mkOut "0" [(112, x)]).inReplyTo m))).store.target
      = s.store.target + 1 := by
  have hs := adminSent (s.emit (.fromAdmin "1" (seqText m))) ((mkOut "0" [(112, x)]).inReplyTo m) rfl rfl hl
  refine ⟨hs, ?_⟩
  show (sendInReplyTo (s.emit (.fromAdmin "1" (seqText m))) ((mkOut "0" [(112, x)]).inReplyTo m)).store.target + 1 = _
  rw [hs.target]; rfl

/-! ### arming the peer timer; the interval in force (`C20_arming`) -/

/-- every `Incoming` on a connected session — a message of any kind, or bytes that do not parse — ends by re-arming the
    peer timer to 1.2 × the heartbeat interval in force after processing; it is the LAST observation of the event -/
theorem C20_arming (s : Sess) (m : Option InMsg) (hc : s.st.connected = true) :
    ∃ pre, (step s (.incomingMsg m)).2.1 = pre ++ [.armPeer (1200 * (step s (.incomingMsg m)).1.hb)] :=
  step_incoming_arm s m hc

/-- the interval in force after a Logon has been answered: for an acceptor the peer's HeartBtInt (108) unless
    `HeartBtIntOverride` is configured; for an initiator the configured one (`hbAfterLogon`); this holds whenever the
    Logon is accepted, with or without a sequence gap -/
theorem C20_interval (s s' : Sess) (m : InMsg) (r : Option LogonErr) (h : handleLogon s m = (s', r))
    (hok : r = none ∨ ∃ n t, r = some (.rej (.tooHigh n t))) :
    s'.hb = (if s.cfg.initiator then s.hb else if s.cfg.hbOverride then s.hb
             else match getInt m 108 with | .val v => v | _ => s.hb) :=
  hb_handleLogon s s' m r h hok

/-- a session starts with the configured interval when it is an initiator or overrides, so for those it is the
    configured interval throughout -/
theorem C20_interval_configured (cfg : Cfg) (s0 t0 : Int) (h : cfg.initiator = true ∨ cfg.hbOverride = true) :
    (initSess cfg s0 t0).hb = cfg.hb := by
  rcases h with h | h <;> simp [initSess, h]

/-- the timers armed by the accepted Logon itself use the new interval: `logonFinish` re-arms the peer timer with the
    value just adopted -/
theorem C20_logon_arms (s : Sess) (m : InMsg) (ns : Int) :
    ∃ pre, (logonFinish s m ns).1.log = pre ++ Obs.armPeer (1200 * s.hb) :: s.log := by
  have hq : ∀ x : Sess, ∃ pre, (sendQueued x).log = pre ++ x.log := by
    intro x; unfold sendQueued; split
    · exact ⟨_, rfl⟩
    · exact ⟨[], rfl⟩
  have he : ∀ (x : Sess) (o : OutMsg), ∃ pre, (enqueueAndSend x o).log = pre ++ x.log := by
    intro x o; unfold enqueueAndSend; simp only []
    split <;> exact hq _
  have hx : ∀ x : Sess, ∃ pre, (nxEval x m ns).1.log = pre ++ x.log := by
    intro x; unfold nxEval
    repeat' split
    all_goals first | exact he _ _ | exact ⟨[], rfl⟩
  unfold logonFinish
  obtain ⟨pre, hp⟩ := hx (((s.setSentReset false).emit (.armPeer (1200 * s.hb))).emit .onLogon)
  generalize nxEval _ m ns = r at hp
  obtain ⟨x, o⟩ := r
  simp only [] at hp
  cases o with
  | some r => exact ⟨pre ++ [.onLogon], by show x.log = _; rw [hp]; simp [Sess.emit, Sess.setSentReset]⟩
  | none =>
    simp only []
    split
    · exact ⟨pre ++ [.onLogon], by show x.log = _; rw [hp]; simp [Sess.emit, Sess.setSentReset]⟩
    · exact ⟨.incT :: (pre ++ [.onLogon]), by
        show Obs.incT :: x.log = _
        rw [hp]; simp [Sess.emit, Sess.setSentReset]⟩

/-! ### non-vacuity (evaluated by the interpreter at build time) -/

-- idle: Heartbeat; silent peer: TestRequest 112=TEST + re-arm, pending; no Heartbeat while pending; then disconnect
#guard obsOf (demoUp {}) [.timeout .needHeartbeat, .timeout .peerTimeout, .timeout .needHeartbeat, .timeout .peerTimeout]
        == [.saved 2 "0" true, .wire { kind := "0", seq := 2, f := [] },
            .saved 3 "1" true, .wire { kind := "1", seq := 3, f := [(112, "TEST")] }, .armPeer 36000,
            .onLogout, .closed]
#guard (runEvs (demoUp {}) [.timeout .peerTimeout]).st.name == "Pending:InSession"
#guard (runEvs (demoUp {}) [.timeout .peerTimeout, .timeout .peerTimeout]).st.name == "Latent"
-- recovery keeps its stash and ranges under the pending wrapper
#guard (match (runEvs (demoUp {}) [.incomingMsg (some (demoIn {} "D" 5)), .timeout .peerTimeout]).st with
        | .pendingResend st c f => st.map (·.1) == [5] && c == 0 && f == 4 | _ => false)
-- an inbound message cancels the pending disconnect; an in-sequence TestRequest is echoed with its TestReqID
#guard obsOf (demoUp {}) [.timeout .peerTimeout, .incomingMsg (some (demoIn {} "1" 2 [(112, "abc")]))]
        == [.saved 2 "1" true, .wire { kind := "1", seq := 2, f := [(112, "TEST")] }, .armPeer 36000,
            .fromAdmin "1" "2", .saved 3 "0" true, .wire { kind := "0", seq := 3, f := [(112, "abc")] }, .incT, .armPeer 36000]
#guard (runEvs (demoUp {}) [.timeout .peerTimeout, .incomingMsg (some (demoIn {} "1" 2 [(112, "abc")]))]).st.name == "InSession"
-- the hypotheses of the echo theorem hold for that message
#guard (checkBeginString (demoUp {}) (demoIn {} "1" 2 [(112, "abc")])).isNone && (checkCompID (demoUp {}) (demoIn {} "1" 2 [(112, "abc")])).isNone
        && (checkSendingTime (demoUp {}) (demoIn {} "1" 2 [(112, "abc")])).isNone && gotIs (getInt (demoIn {} "1" 2 [(112, "abc")]) 34) 2
        && (validate {} (demoIn {} "1" 2 [(112, "abc")])).isNone && (callbackVerdict (demoIn {} "1" 2 [(112, "abc")])).isNone
-- the acceptor adopts the peer's 108 unless overridden
#guard (demoUp {} "45").hb == 45 && (demoUp { hbOverride := true, hb := 20 } "45").hb == 20
#guard (step (demoUp {} "45") (.incomingMsg (some (demoIn {} "0" 2)))).2.1 == [.fromAdmin "0" "2", .incT, .armPeer 54000]

/-! `C20_cancel_resend` needs the fixed code (`lookThroughPending`): with the switch off — the code before the `fix:` — a
    too-high message in `pending(resend)` sends a second ResendRequest and the recovery state would not have -/
#guard (fixMsgInCore { cfg := { lookThroughPending := false }, st := .pendingResend [] 0 4, store := { sender := 2, target := 3 },
                       out := true, inboxOpen := true, hb := 30 } (demoIn {} "D" 9)).1.store.sender == 3
#guard (fixMsgInCore { cfg := { lookThroughPending := false }, st := .resend [] 0 4, store := { sender := 2, target := 3 },
                       out := true, inboxOpen := true, hb := 30 } (demoIn {} "D" 9)).1.store.sender == 2
#guard (fixMsgInCore { cfg := {}, st := .pendingResend [] 0 4, store := { sender := 2, target := 3 },
                       out := true, inboxOpen := true, hb := 30 } (demoIn {} "D" 9)).1.store.sender == 2

/-! remark (D19 of the design notes): `C20_interval` holds for every value of 108, including 0 and negative ones — the
    acceptor then arms the peer timer with a non-positive duration -/
#guard (step (demoUp {} "0") (.incomingMsg (some (demoIn {} "0" 2)))).2.1 == [.fromAdmin "0" "2", .incT, .armPeer 0]

-- EnableLastMsgSeqNumProcessed: the Heartbeat answering TestRequest number 2 carries 369 = 2 (the message replied to), the
-- TestRequest sent on the peer timer carries 369 = 1 (last inbound number consumed: the Logon); off ⇒ no tag
#guard ((obsOf (demoUp { lastSeqProcessed := true }) [.timeout .peerTimeout, .incomingMsg (some (demoIn {} "1" 2 [(112, "abc")]))]).filterMap
          fun o => match o with | .wire m => some (m.kind, m.seq, m.last) | _ => none)
       == [("1", 2, some 1), ("0", 3, some 2)]
#guard ((obsOf (demoUp {}) [.timeout .peerTimeout, .incomingMsg (some (demoIn {} "1" 2 [(112, "abc")]))]).filterMap
          fun o => match o with | .wire m => some (m.kind, m.seq, m.last) | _ => none)
       == [("1", 2, none), ("0", 3, none)]

/-!
Clause checklist (properties.jsonl C20 → theorems)
* while logged on, a TestRequest received in sequence → one Heartbeat with the same TestReqID : C20_testrequest_echo (every logged-on state), _inSession, _recovery, _sent
* nothing sent for the heartbeat interval → a Heartbeat                                      : C20_heartbeat, C20_heartbeat_step
* … unless a test request is pending                                                         : C20_no_heartbeat_while_pending, _step
* nothing received for 1.2 intervals → a TestRequest (timer re-armed to 1.2 × hb, state pending) : C20_test_request, C20_test_request_step
* nothing for another 1.2 intervals → disconnected, application notified                     : C20_dead_peer, C20_dead_peer_step (onLogout, closed, Latent)
* any inbound message in between cancels the pending disconnect                              : C20_cancel_not_pending (no handler ever returns a pending state)
* … without disturbing a gap recovery in progress                                            : C20_cancel_resend, C20_cancel_inSession (equal results), C20_cancel_step (equal events);
                                                                                               C20_test_request (`pendingOf` keeps stash / cur / fin)
* an acceptor uses the interval of the peer's Logon unless configured to override            : C20_interval, C20_interval_configured, C20_logon_arms
* every receive re-arms the peer timer with 1.2 × the interval in force                      : C20_arming
* quantifier: every logged-on state (normal, recovering, pending, both), both roles, every cfg : ∀ s with `C20Active` / `C20Pending` / `curResend`; ∀ cfg in `s.cfg`
* timers: the model observes `armPeer d`; the heartbeat timer is re-armed by every wire write in the implementation
  (tied by the correspondence check, not an observation of the model); real run loop: family `loop` (Drv/Loop.lean: `step` of this file's model
  run on the round's script = the allowed outcomes; Drv/LoopMon.lean) checks that an expiry of either timer of `session.run()` REACHES the loop
  (busy in a callback / in the send to a stalled writer / idle) and has the consequences of `timeoutCore`; durations: arming theorems above only
* `C20_timed` (DESIGN §5: timed semantics, gaps between outbound messages ≤ hb) is not stated: the model has no clock
-/
