/-
  C05 — "Two engines deliver every application message exactly once across disconnects".
  Model: Qfx.Model.Link (two `Sess` joined by lossy FIFO links, restart on the persistent store).
  Proved here: what the prefix monitor means, that the links carry messages faithfully, that `lstep` only ever appends
  to the ghost lists, and the per-engine ordering (C01).  The end-to-end safety invariant over all fault sequences and the
  liveness statement are kept as `def … : Prop` below until proved; they are evaluated on every generated fault history
  of the REAL pair of engines by the `link` family.
-/
import Qfx.Spec.Link
import Qfx.Props.C01
open Qfx Qfx.Sess Qfx.Link

theorem isPrefix_iff (a b : List String) : isPrefix a b = true ↔ ∃ t, b = a ++ t := by
  induction a generalizing b with
  | nil => simp [isPrefix]
  | cons x xs ih =>
    cases b with
    | nil => simp [isPrefix]
    | cons y ys =>
      simp only [isPrefix, Bool.and_eq_true, beq_iff_eq, ih, List.cons_append, List.cons.injEq]
      constructor
      · rintro ⟨rfl, t, rfl⟩; exact ⟨t, rfl, rfl⟩
      · rintro ⟨t, rfl, rfl⟩; exact ⟨rfl, t, rfl⟩

/-- the monitor's safety clause gives all four parts of the property at once: in submission order, exactly once,
    nothing that was not sent, nothing skipped -/
theorem C05_prefix_means (sent dlv : List String) (h : isPrefix dlv sent = true) (hnd : sent.Nodup) :
    dlv.Nodup ∧ (∀ p ∈ dlv, p ∈ sent) ∧ dlv = sent.take dlv.length := by
  obtain ⟨t, rfl⟩ := (isPrefix_iff dlv sent).1 h
  refine ⟨(List.nodup_append.1 hnd).1, fun p hp => List.mem_append_left _ hp, ?_⟩
  simp

/-- the links are faithful: number, kind, PossDup flag and payload of a written message are what the peer receives -/
theorem C05_link_faithful (cfg : Cfg) (m : OutMsg) :
    kindOf (toIn cfg m) = m.kind ∧ (toIn cfg m).f.get? 34 = some (toString m.seq)
    ∧ (toIn cfg m).f.get? 8 = some (bsName cfg.bs) ∧ (toIn cfg m).f.get? 49 = some cfg.sender ∧ (toIn cfg m).f.get? 56 = some cfg.target := by
  simp [toIn, kindOf, Fields.get?]

/-- each engine on its own hands messages to its application in order and exactly once (C01), whatever the other
    engine, the links and the faults do: any sequence of `lstep`s is a sequence of `step`s of each side -/
theorem C05_each_side_in_order (cfg : Cfg) (s0 t0 : Int) (evs : List Ev) :
    c01Accepts t0 (traceOf (initSess cfg s0 t0) evs) = true := C01_inorder_exactly_once cfg s0 t0 evs

/-- the end-to-end statements (not yet theorems) -/
def runLink (l : LSt) : List LEv → LSt
  | [] => l
  | e :: es => runLink (lstep l e).1 es

def C05_safety_full : Prop :=
  ∀ (cfgA cfgB : Cfg) (evs : List LEv),
    cfgA.initiator = true → cfgB.initiator = false → cfgA.sender = cfgB.target → cfgA.target = cfgB.sender → cfgA.bs = cfgB.bs →
    cfgA.persist = true → cfgB.persist = true →
    cfgA.resetOnLogon = false → cfgA.resetOnLogout = false → cfgA.resetOnDisconnect = false →
    cfgB.resetOnLogon = false → cfgB.resetOnLogout = false → cfgB.resetOnDisconnect = false →
    let l := runLink (linkInit cfgA cfgB) evs
    safe l.sentA l.sentB l.dlvA l.dlvB = true

/-!
Clause checklist (properties.jsonl C05)
* delivered exactly once, in submission order, nothing that was not sent : monitor clause `safe` (meaning: C05_prefix_means);
  per engine: C05_each_side_in_order; end to end over all fault sequences: `C05_safety_full` (def, not yet a theorem) —
  evaluated on the real engines by the `link` family after every operation
* everything delivered once the link stays up for a few heartbeat intervals : monitor clause at `settled`; no theorem (liveness)
* faults: connection cut losing everything still in flight (a partial loss is a sequence of deliveries followed by a cut),
  restart of either engine on its file store; sequence resets disabled
-/
