/-
  C05 — "Two engines deliver every application message exactly once across disconnects".
  Model: Qfx.Model.Link (two `Sess` joined by lossy FIFO links, restart on the persistent store).
  Property theorems only; the invariant and its preservation are in Qfx/Lemmas/LinkC05a–i.lean.

  properties.jsonl: "When two QuickFIX/Go engines are connected as initiator and acceptor and the connection is cut at
  arbitrary points, or either engine is discarded and recreated on its persistent store, every application message
  accepted for sending on one side is delivered to the other side's application exactly once and in submission order
  once the link stays up for a few heartbeat intervals; nothing is delivered that was not sent."

  Main result: `C05_safety` — after EVERY fault history the payloads handed to one side's application are a PREFIX of
  the payloads the other side accepted for sending (in order, exactly once, nothing that was not sent, nothing skipped),
  for all configurations with persistence on, the reset options off, mirrored CompIDs and the same BeginString
  (any role assignment, chunk size, heartbeat settings, latency check, …), all non-empty payloads, as long as the
  sequence numbers stay within Go's `int`.
  The statement first written down (`C05_safety_full`, no side conditions) is FALSE of the model: see the `#guard` below.
-/
import Qfx.Spec.Link
import Qfx.Props.C01
import Qfx.Lemmas.LinkC05q
open Qfx Qfx.Sess Qfx.Link

theorem isPrefix_iff (a b : List String) : isPrefix a b = true ↔ ∃ t, b = a ++ t := by
  induction a generalizing b with
  | nil => simp [isPrefix]
  | cons x xs ih =>
    cases b with
    | nil => simp [isPrefix]
    | cons y ys =>
      simp only [isPrefix, Bool.and_eq_true, beq_iff_eq, ih, List.cons_append, List.cons.injEq]
      constructor
      · rintro ⟨rfl, t, rfl⟩; exact ⟨t, rfl, rfl⟩
      · rintro ⟨t, rfl, rfl⟩; exact ⟨rfl, t, rfl⟩

/-- the monitor's safety clause gives all four parts of the property at once: in submission order, exactly once,
    nothing that was not sent, nothing skipped -/
theorem C05_prefix_means (sent dlv : List String) (h : isPrefix dlv sent = true) (hnd : sent.Nodup) :
    dlv.Nodup ∧ (∀ p ∈ dlv, p ∈ sent) ∧ dlv = sent.take dlv.length := by
  obtain ⟨t, rfl⟩ := (isPrefix_iff dlv sent).1 h
  refine ⟨(List.nodup_append.1 hnd).1, fun p hp => List.mem_append_left _ hp, ?_⟩
  simp

/-- the links are faithful: number, kind, PossDup flag and payload of a written message are what the peer receives -/
theorem C05_link_faithful (cfg : Cfg) (m : OutMsg) :
    kindOf (toIn cfg m) = m.kind ∧ (toIn cfg m).f.get? 34 = some (toString m.seq)
    ∧ (toIn cfg m).f.get? 8 = some (bsName cfg.bs) ∧ (toIn cfg m).f.get? 49 = some cfg.sender ∧ (toIn cfg m).f.get? 56 = some cfg.target
    ∧ (toIn cfg m).f.get? 43 = m.f.get? 43 ∧ (toIn cfg m).f.get? 9000 = m.f.get? 9000 :=
  ⟨toIn_kind cfg m, toIn_get34 cfg m, toIn_get8 cfg m, toIn_get49 cfg m, toIn_get56 cfg m, toIn_get43 cfg m,
    toIn_get_body cfg m 9000 (by decide)⟩

/-- a MsgSeqNum written by one engine is read back by the other, for every number a Go `int` can hold -/
theorem C05_number_round_trip (cfg : Cfg) (m : OutMsg) (h : inInt64 m.seq) : getInt (toIn cfg m) 34 = .val m.seq :=
  getInt_of_get? _ _ _ (toIn_get34 cfg m) h

/-- each engine on its own hands messages to its application in order and exactly once (C01), whatever the other
    engine, the links and the faults do: any sequence of `lstep`s is a sequence of `step`s of each side -/
theorem C05_each_side_in_order (cfg : Cfg) (s0 t0 : Int) (evs : List Ev) :
    c01Accepts t0 (traceOf (initSess cfg s0 t0) evs) = true := C01_inorder_exactly_once cfg s0 t0 evs

/-- the state of the link after a fault history -/
def runLink (l : LSt) : List LEv → LSt
  | [] => l
  | e :: es => runLink (lstep l e).1 es

theorem runLink_eq (l : LSt) (evs : List LEv) : runLink l evs = runL l evs := by
  induction evs generalizing l with
  | nil => rfl
  | cons e es ih => exact ih _

/-- along the whole history both engines' next outbound numbers stay at or below Go's largest `int` (the model's numbers
    are unbounded integers, the wire parser wraps at 64 bits: beyond this point the model says nothing about Go) -/
def C05_numbers_fit (l : LSt) (evs : List LEv) : Prop := AllBnd l evs

/-- … which says exactly: in every state the history goes through -/
theorem C05_numbers_fit_iff (l : LSt) (evs : List LEv) :
    C05_numbers_fit l evs ↔ ∀ k, k ≤ evs.length →
      (runLink l (evs.take k)).a.store.sender ≤ maxSeq ∧ (runLink l (evs.take k)).b.store.sender ≤ maxSeq := by
  unfold C05_numbers_fit
  induction evs generalizing l with
  | nil =>
    simp only [AllBnd, Bnd, List.length_nil, Nat.le_zero, List.take_nil, runLink]
    exact ⟨fun h k _ => h, fun h => h 0 rfl⟩
  | cons e es ih =>
    simp only [AllBnd, ih, List.length_cons]
    constructor
    · rintro ⟨h0, h1⟩ k hk
      cases k with
      | zero => exact h0
      | succ k => exact h1 k (by omega)
    · intro h
      exact ⟨h 0 (by omega), fun k hk => h (k + 1) (by omega)⟩

/-- **C05, safety, every fault history.**  Persistence on and all reset options off on both sides, mirrored
    CompIDs, the same BeginString — every other setting free (roles, chunk size, heartbeat settings, latency check,
    RefreshOnLogon, DefaultApplVerID, the five validator settings) with no data dictionary configured (with one, whether the
    peer's traffic passes depends on what the dictionary says) and EnableNextExpectedMsgSeqNum off (with it a Logon is
    followed by a gap fill over whatever the peer's tag 789 reports missing — nothing is replayed; see `cexNxA` below) —
    every history of connects, sends on both sides (non-empty payload ids),
    deliveries of the oldest message in flight, cuts losing everything in flight, restarts of either engine on its
    store, timer events and flushes, as long as the sequence numbers fit a Go `int`: what B's application received is
    a prefix of what A's application submitted, and what A's received a prefix of what B's submitted. -/
theorem C05_safety (cfgA cfgB : Cfg) (evs : List LEv)
    (hst : cfgA.sender = cfgB.target) (hts : cfgA.target = cfgB.sender) (hbs : cfgA.bs = cfgB.bs)
    (hpa : cfgA.persist = true) (hpb : cfgB.persist = true)
    (ha1 : cfgA.resetOnLogon = false) (ha2 : cfgA.resetOnLogout = false) (ha3 : cfgA.resetOnDisconnect = false)
    (hb1 : cfgB.resetOnLogon = false) (hb2 : cfgB.resetOnLogout = false) (hb3 : cfgB.resetOnDisconnect = false)
    (hva : cfgA.validator.app = none) (hvb : cfgB.validator.app = none)
    (hnxa : cfgA.nextExpected = false) (hnxb : cfgB.nextExpected = false)
    (hpay : ∀ side p, LEv.send side p ∈ evs → p ≠ "")
    (hfit : C05_numbers_fit (linkInit cfgA cfgB) evs) :
    let l := runLink (linkInit cfgA cfgB) evs
    safe l.sentA l.sentB l.dlvA l.dlvB = true := by
  intro l
  by_cases hne : cfgA.sender = "" ∨ cfgA.target = ""
  · -- an empty CompID: no Logon is ever accepted, nothing is ever delivered
    have hb : cfgB.sender = "" ∨ cfgB.target = "" := by
      rcases hne with h | h
      · exact Or.inr (by rw [← hst]; exact h)
      · exact Or.inl (by rw [← hts]; exact h)
    have hbad : (cfgA.sender = "" ∨ cfgA.target = "") ∧ (cfgB.sender = "" ∨ cfgB.target = "") := ⟨hne, hb⟩
    have := LInvD_run hbad evs _ (LInvD_init cfgA cfgB) rfl rfl
    rw [← runLink_eq] at this
    exact safe_of_LInvD this
  · have hne1 : cfgA.sender ≠ "" := fun h => hne (Or.inl h)
    have hne2 : cfgA.target ≠ "" := fun h => hne (Or.inr h)
    have hcf : CfgsOK cfgA cfgB := ⟨hpa, hpb, ⟨ha1, ha2, ha3⟩, ⟨hb1, hb2, hb3⟩, hst, hts, hbs, hne1, hne2, hva, hvb, hnxa, hnxb⟩
    have hev : ∀ e ∈ evs, EvOKL e := by
      intro e he
      cases e with
      | send side p => exact hpay side p he
      | _ => trivial
    have := LInv_run hcf evs _ (LInv_init cfgA cfgB) hev hfit
    rw [← runLink_eq] at this
    exact safe_of_LInv this

/-- the same, clause by clause, for the direction A → B (payload ids are unique): nothing is delivered that was not
    sent, nothing is delivered twice, and the deliveries are the first submissions in submission order -/
theorem C05_safety_clauses (cfgA cfgB : Cfg) (evs : List LEv)
    (hst : cfgA.sender = cfgB.target) (hts : cfgA.target = cfgB.sender) (hbs : cfgA.bs = cfgB.bs)
    (hpa : cfgA.persist = true) (hpb : cfgB.persist = true)
    (ha1 : cfgA.resetOnLogon = false) (ha2 : cfgA.resetOnLogout = false) (ha3 : cfgA.resetOnDisconnect = false)
    (hb1 : cfgB.resetOnLogon = false) (hb2 : cfgB.resetOnLogout = false) (hb3 : cfgB.resetOnDisconnect = false)
    (hva : cfgA.validator.app = none) (hvb : cfgB.validator.app = none)
    (hnxa : cfgA.nextExpected = false) (hnxb : cfgB.nextExpected = false)
    (hpay : ∀ side p, LEv.send side p ∈ evs → p ≠ "")
    (hfit : C05_numbers_fit (linkInit cfgA cfgB) evs) :
    let l := runLink (linkInit cfgA cfgB) evs
    (∀ p ∈ l.dlvB, p ∈ l.sentA) ∧ (∀ p ∈ l.dlvA, p ∈ l.sentB) ∧
    (l.sentA.Nodup → l.dlvB.Nodup ∧ l.dlvB = l.sentA.take l.dlvB.length) ∧
    (l.sentB.Nodup → l.dlvA.Nodup ∧ l.dlvA = l.sentB.take l.dlvA.length) := by
  intro l
  have h := C05_safety cfgA cfgB evs hst hts hbs hpa hpb ha1 ha2 ha3 hb1 hb2 hb3 hva hvb hnxa hnxb hpay hfit
  simp only [safe, Bool.and_eq_true] at h
  obtain ⟨t1, e1⟩ := (isPrefix_iff _ _).1 h.1
  obtain ⟨t2, e2⟩ := (isPrefix_iff _ _).1 h.2
  refine ⟨fun p hp => ?_, fun p hp => ?_, fun hn => ?_, fun hn => ?_⟩
  · show p ∈ l.sentA; rw [e1]; exact List.mem_append_left _ hp
  · show p ∈ l.sentB; rw [e2]; exact List.mem_append_left _ hp
  · have := C05_prefix_means _ _ h.1 hn; exact ⟨this.1, this.2.2⟩
  · have := C05_prefix_means _ _ h.2 hn; exact ⟨this.1, this.2.2⟩

/-- the invariant behind `C05_safety` after every history (non-empty CompIDs): each store is filed by number with
    well-formed messages; everything queued or in flight was written by the sending engine from its store (a stored
    message, its PossDup copy, or a gap fill over administrative numbers only); the receiver's expected number never
    passes the sender's next number; what was delivered is EXACTLY the payloads of the sender's application messages
    numbered below the receiver's expected number, and what was submitted is the payloads of all of them -/
theorem C05_invariant (cfgA cfgB : Cfg) (evs : List LEv) (hcf : CfgsOK cfgA cfgB)
    (hpay : ∀ side p, LEv.send side p ∈ evs → p ≠ "") (hfit : C05_numbers_fit (linkInit cfgA cfgB) evs) :
    let l := runLink (linkInit cfgA cfgB) evs
    LInv cfgA cfgB l ∧
    l.b.store.target ≤ l.a.store.sender ∧ l.a.store.target ≤ l.b.store.sender ∧
    l.dlvB = appPay (below l.b.store.target l.a.store.msgs) ∧ l.sentA = appPay l.a.store.msgs ∧
    l.dlvA = appPay (below l.a.store.target l.b.store.msgs) ∧ l.sentB = appPay l.b.store.msgs := by
  intro l
  have hev : ∀ e ∈ evs, EvOKL e := by
    intro e he
    cases e with
    | send side p => exact hpay side p he
    | _ => trivial
  have h : LInv cfgA cfgB l := by
    have := LInv_run hcf evs _ (LInv_init cfgA cfgB) hev hfit
    rw [← runLink_eq] at this
    exact this
  exact ⟨h, h.ab.t2, h.ba.t2, h.ab.dlv, h.ab.sent, h.ba.dlv, h.ba.sent⟩

/-- the invariant behind `C05_safety`, one link event at a time (for use by other proofs) -/
theorem C05_invariant_step (cfgA cfgB : Cfg) (hcf : CfgsOK cfgA cfgB) (l : LSt) (h : LInv cfgA cfgB l) (e : LEv) (hev : EvOKL e)
    (hb0 : Bnd l) (hb1 : Bnd (lstep l e).1) : LInv cfgA cfgB (lstep l e).1 := LInv_lstep hcf h e hev hb0 hb1

/-! ### the statement without side conditions is false of the model -/

/-- the end-to-end statement as first written down: no condition on the payloads, the CompIDs or the numbers -/
def C05_safety_full : Prop :=
  ∀ (cfgA cfgB : Cfg) (evs : List LEv),
    cfgA.initiator = true → cfgB.initiator = false → cfgA.sender = cfgB.target → cfgA.target = cfgB.sender → cfgA.bs = cfgB.bs →
    cfgA.persist = true → cfgB.persist = true →
    cfgA.resetOnLogon = false → cfgA.resetOnLogout = false → cfgA.resetOnDisconnect = false →
    cfgB.resetOnLogon = false → cfgB.resetOnLogout = false → cfgB.resetOnDisconnect = false →
    cfgA.validator.app = none → cfgB.validator.app = none →
    cfgA.nextExpected = false → cfgB.nextExpected = false →
    let l := runLink (linkInit cfgA cfgB) evs
    safe l.sentA l.sentB l.dlvA l.dlvB = true

def cexA : Cfg := { initiator := true, sender := "A", target := "B" }
def cexB : Cfg := { initiator := false, sender := "B", target := "A" }
/-- logon handshake; A submits a message whose only body field has an EMPTY value ("9000="), then a proper one -/
def cexHistory : List LEv :=
  [.connect, .deliver .B, .deliver .A, .send .A "", .flush .A, .deliver .B, .send .A "x", .flush .A, .deliver .B]

-- COUNTEREXAMPLE to `C05_safety_full` (evaluated by the interpreter; String functions do not reduce in the kernel):
-- B's validator rejects the first message as malformed (session Reject, "tag specified without a value"), consumes
-- its number and never hands it to the application; the second one is delivered: dlvB = ["x"] is not a prefix of
-- sentA = ["", "x"].  The configurations satisfy every hypothesis of `C05_safety_full`.
#guard (let l := runLink (linkInit cexA cexB) cexHistory; (l.sentA, l.dlvB)) == (["", "x"], ["x"])
#guard (let l := runLink (linkInit cexA cexB) cexHistory; safe l.sentA l.sentB l.dlvA l.dlvB) == false
#guard cexA.initiator && !cexB.initiator && cexA.sender == cexB.target && cexA.target == cexB.sender && cexA.bs == cexB.bs
  && cexA.persist && cexB.persist && !cexA.resetOnLogon && !cexA.resetOnLogout && !cexA.resetOnDisconnect
  && !cexB.resetOnLogon && !cexB.resetOnLogout && !cexB.resetOnDisconnect && cexA.validator.app.isNone && cexB.validator.app.isNone
  && !cexA.nextExpected && !cexB.nextExpected

/-! ### EnableNextExpectedMsgSeqNum on both engines (hypotheses `hnxa hnxb` of `C05_safety`: the theorems say nothing then)

What the code does (observation, no property speaks about tag 789): the initiator's Logon announces `NextTargetMsgSeqNum()+1`
in tag 789, one more than it expects; a quickfix acceptor in sync with it has exactly that number minus one as its next
outbound number and refuses the Logon ("Tag 789 is higher than expected"): the first logon attempt of two fresh engines
fails with a Logout.  (The Logout takes number 1, so the second attempt is accepted — and leaves the initiator in recovery.) -/
def cexNxA : Cfg := { cexA with nextExpected := true }
def cexNxB : Cfg := { cexB with nextExpected := true }
#guard (let l := runLink (linkInit cexNxA cexNxB) [.connect, .deliver .B]
        (l.b.st.name, l.b2a.map (fun o => (o.kind, o.seq)), l.a2b.length)) == ("Latent", [("5", 1)], 0)
#guard (let l := runLink (linkInit cexNxA cexNxB) [.connect, .deliver .B, .deliver .A, .connect, .deliver .B, .deliver .A]
        (l.a.st.name, l.b.st.name)) == ("Resend", "InSession")
#guard (let l := runLink (linkInit cexA cexB) [.connect, .deliver .B, .deliver .A]; (l.a.st.name, l.b.st.name)) == ("InSession", "InSession")

/-- the mechanism behind the counterexample, for every state: an application message whose payload field is empty,
    arriving exactly at the expected number, is refused by the default validator with ValidateFieldsHaveValues on (its
    default) (Reject, reason 4, RefTagID 9000), its number
    is consumed and it is NOT handed to the application -/
theorem C05_empty_payload_is_consumed (s : Sess) (pcfg : Cfg) (hst : s.cfg.sender = pcfg.target) (hts : s.cfg.target = pcfg.sender)
    (hbs : s.cfg.bs = pcfg.bs) (hs : pcfg.sender ≠ "") (ht : pcfg.target ≠ "") (hn : inInt64 s.store.target)
    (happ : s.cfg.validator.app = none) (hhv : s.cfg.validator.settings.checkHaveValues = true) :
    inSessionFixMsgIn s (toIn pcfg (appMsg s.store.target "")) =
      (incrTarget (doReject s (toIn pcfg (appMsg s.store.target "")) 4 (some 9000) false), .inSession) := by
  have hk : kindOf (toIn pcfg (appMsg s.store.target "")) = "D" := toIn_kind _ _
  have hseq : getInt (toIn pcfg (appMsg s.store.target "")) 34 = .val s.store.target := getInt_of_get? _ _ _ (toIn_get34 _ _) hn
  have hv : verifySelect s (toIn pcfg (appMsg s.store.target "")) true true true = (s, some (noValue 9000)) := by
    rw [verifySelect_complete s _ true true true (by unfold BeginOK; rw [toIn_get8, hbs])
      (by unfold CompOK; rw [toIn_get49, toIn_get56, hst, hts]; exact ⟨rfl, rfl, (isEmpty_false_iff _).2 hs, (isEmpty_false_iff _).2 ht⟩)
      (Or.inr (Or.inr ⟨0, getTime_at0 _ _ (toIn_get52 _ _), by omega, by omega⟩))
      ⟨fun _ => ⟨_, hseq, Int.le_refl _⟩, fun _ => ⟨_, hseq, Int.le_refl _⟩⟩]
    simp only [if_true]
    unfold verifyAppImpl
    rw [validate_empty_payload s.cfg pcfg _ hs ht happ hhv]
  unfold inSessionFixMsgIn
  simp only [hk, hv]
  simp [processReject, noValue]

/-! ### non-vacuity of `C05_safety` (interpreter): a history with a cut, a restart, a gap, a resend and a gap fill -/

instance (l : LSt) : Decidable (Bnd l) := by unfold Bnd; infer_instance
instance decAllBnd : (l : LSt) → (evs : List LEv) → Decidable (AllBnd l evs)
  | l, [] => by unfold AllBnd; infer_instance
  | l, e :: es => by unfold AllBnd; exact @instDecidableAnd _ _ _ (decAllBnd (lstep l e).1 es)

def demoHistory : List LEv :=
  [.connect, .deliver .B, .deliver .A,                       -- logon handshake
   .send .A "a1", .flush .A, .deliver .B,                    -- a1 delivered
   .send .A "a2", .flush .A, .send .B "b1", .flush .B,       -- a2, b1 in flight …
   .cut,                                                     -- … and lost
   .restart .B,                                              -- B recreated on its store
   .send .A "a3",                                            -- queued while down
   .connect, .deliver .B, .deliver .A,                       -- logon again: each side sees a gap and queues a ResendRequest
   .flush .A, .flush .B,                                     -- the requests go out
   .deliver .B, .deliver .B, .deliver .B,                    -- B answers: b1 resent, gap fill over its administrative messages
   .deliver .A, .deliver .A, .deliver .A, .deliver .A,       -- A answers: a2, a3 resent, gap fill; A gets b1
   .deliver .B, .deliver .B, .deliver .B, .deliver .B]       -- B gets a2, a3

instance (l : LSt) (evs : List LEv) : Decidable (C05_numbers_fit l evs) := decAllBnd l evs

#guard decide (C05_numbers_fit (linkInit cexA cexB) demoHistory)
#guard (let l := runLink (linkInit cexA cexB) demoHistory; (l.sentA, l.dlvB, l.sentB, l.dlvA)) == (["a1", "a2", "a3"], ["a1", "a2", "a3"], ["b1"], ["b1"])

/-! ## liveness: after settling, delivered = submitted -/

/-- the FULL liveness statement (not proved in this generality: ResendRequest chunking is not covered).  From every state
    a fault history can reach, some schedule of settling events — a reconnect (cut, connect), deliveries, run-loop flushes
    of the send queue — makes delivered = submitted in both directions without submitting anything new.  Hypotheses beyond
    those of `C05_safety`: the roles, non-empty CompIDs, a DefaultApplVerID when the transport is FIXT.1.1 (otherwise no
    Logon is ever accepted), head-room for the numbers the resynchronisation itself uses. -/
def C05_liveness_full : Prop :=
  ∀ (cfgA cfgB : Cfg) (evs : List LEv),
    CfgsOK cfgA cfgB → cfgA.initiator = true → cfgB.initiator = false →
    (cfgA.bs = 5 → cfgA.applVer ≠ "" ∧ cfgB.applVer ≠ "") →
    (∀ side p, LEv.send side p ∈ evs → p ≠ "") → C05_numbers_fit (linkInit cfgA cfgB) evs →
    let l := runLink (linkInit cfgA cfgB) evs
    (l.a.store.sender + l.b.store.sender) * 2 + 3 ≤ maxSeq →
    ∃ sched : List LEv, (∀ e ∈ sched, SettleEv e) ∧
      let l' := runLink l sched
      l'.dlvB = l'.sentA ∧ l'.dlvA = l'.sentB ∧ l'.sentA = l.sentA ∧ l'.sentB = l.sentB

/-- **liveness (a): no gap.**  Any link state satisfying the invariant in which both engines are logged on and each link
    carries exactly the peer's messages from the receiver's expected number up to the sender's next number (`Seg`:
    application messages, heartbeats, rejects, PossDup copies, gap fills — nothing that needs an answer): delivering
    everything in flight makes delivered = submitted in both directions, with nothing left in flight. -/
theorem C05_liveness_nogap (cfgA cfgB : Cfg) (hcf : CfgsOK cfgA cfgB) (l : LSt) (h : LInv cfgA cfgB l) (hb : Bnd l)
    (hsa : RecvAt l.a.st l.a.store.target) (hsb : RecvAt l.b.st l.b.store.target) (hoa : l.a.out = true) (hob : l.b.out = true)
    (hab : Seg l.a.store l.b.store.target l.a2b l.a.store.sender) (hba : Seg l.b.store l.a.store.target l.b2a l.b.store.sender) :
    let l' := runLink l (List.replicate l.a2b.length (.deliver .B) ++ List.replicate l.b2a.length (.deliver .A))
    l'.dlvB = l'.sentA ∧ l'.dlvA = l'.sentB ∧ l'.a2b = [] ∧ l'.b2a = [] ∧ LInv cfgA cfgB l' := by
  intro l'
  have := settle_nogap hcf l h hb hsa hsb hoa hob hab hba
  rw [← runLink_eq] at this
  exact this

/-- **liveness (b), any state: reconnect, no chunking.**  Configurations as for safety plus the roles, chunk size 0 on both
    sides and a DefaultApplVerID under FIXT.  From ANY link state that satisfies the invariants (`LInv`, every used number
    stored, not outside the session time), with three numbers of head-room: the schedule
    `cut, connect, deliver B, deliver A, flush A, flush B` followed by deliveries only (each side's ResendRequest, then
    each replay) ends `Settled`: delivered = submitted in both directions, nothing in flight, both engines in session —
    whatever the gaps (none, on either side, on both sides), and nothing new is submitted. -/
theorem C05_liveness_reconnect_state (cfgA cfgB : Cfg) (hl : LiveCfg cfgA cfgB) (l : LSt) (h : LInv cfgA cfgB l) (hf : LFull l)
    (ht : InTime l) (hb : Bnd l)
    (hb3 : (lstep l .cut).1.a.store.sender + 3 ≤ maxSeq ∧ (lstep l .cut).1.b.store.sender + 3 ≤ maxSeq) :
    ∃ sched, (∀ e ∈ sched, SettleEv e) ∧ Settled cfgA cfgB (runLink l sched) ∧
      (runLink l sched).sentA = l.sentA ∧ (runLink l sched).sentB = l.sentB := by
  obtain ⟨sched, h1, h2, h3, h4⟩ := settle_reconnect hl h hf ht hb hb3
  exact ⟨sched, h1, by rw [runLink_eq]; exact h2, by rw [runLink_eq]; exact h3, by rw [runLink_eq]; exact h4⟩

/-- **liveness (b)/(d), every fault history, no chunking.**  After EVERY fault history (non-empty payloads, numbers within
    Go's `int`, three numbers of head-room after the cut) there is a settling schedule — a reconnect, the Logon exchange,
    one flush per side, deliveries — after which both delivered lists EQUAL the submitted lists, nothing is in flight and
    both engines are in session. -/
theorem C05_liveness_reconnect (cfgA cfgB : Cfg) (evs : List LEv) (hl : LiveCfg cfgA cfgB)
    (hpay : ∀ side p, LEv.send side p ∈ evs → p ≠ "") (hfit : C05_numbers_fit (linkInit cfgA cfgB) evs) :
    let l := runLink (linkInit cfgA cfgB) evs
    (lstep l .cut).1.a.store.sender + 3 ≤ maxSeq ∧ (lstep l .cut).1.b.store.sender + 3 ≤ maxSeq →
    ∃ sched : List LEv, (∀ e ∈ sched, SettleEv e) ∧
      let l' := runLink l sched
      l'.dlvB = l'.sentA ∧ l'.dlvA = l'.sentB ∧ l'.a2b = [] ∧ l'.b2a = [] ∧ l'.a.st = .inSession ∧ l'.b.st = .inSession ∧
      l'.sentA = l.sentA ∧ l'.sentB = l.sentB := by
  intro l hb3
  have hev : ∀ e ∈ evs, EvOKL e := by
    intro e he
    cases e with
    | send side p => exact hpay side p he
    | _ => trivial
  have hl' : l = runL (linkInit cfgA cfgB) evs := runLink_eq _ _
  have hinv : LInv cfgA cfgB l := by rw [hl']; exact LInv_run hl.ok evs _ (LInv_init cfgA cfgB) hev hfit
  have hfull : LFull l := by rw [hl']; exact LFull_run hl.ok evs _ rfl rfl (LFull_init cfgA cfgB)
  have htime : InTime l := by rw [hl']; exact InTime_run evs _ (InTime_init cfgA cfgB)
  have hbnd : Bnd l := by rw [hl']; exact AllBnd.last hfit
  obtain ⟨sched, h1, h2, h3, h4⟩ := C05_liveness_reconnect_state cfgA cfgB hl l hinv hfull htime hbnd hb3
  exact ⟨sched, h1, h2.db, h2.da, h2.ea, h2.eb, h2.sa, h2.sb, h3, h4⟩

/-! ### non-vacuity of the liveness theorems (interpreter) -/

/-- a faulty history: traffic lost in both directions by a cut, B recreated on its store, messages accepted while down
    on both sides -/
def faultyHistory : List LEv :=
  [.connect, .deliver .B, .deliver .A, .send .A "a1", .flush .A, .deliver .B,
   .send .A "a2", .flush .A, .send .B "b1", .flush .B, .cut, .restart .B, .send .A "a3", .send .B "b2"]

/-- the schedule of `C05_liveness_reconnect` for it (gaps on both sides): reconnect, Logons, flushes, the two
    ResendRequests, then A's replay (3 elements) and B's replay (3 elements) -/
def settleSchedule : List LEv :=
  [.cut, .connect, .deliver .B, .deliver .A, .flush .A, .flush .B, .deliver .B, .deliver .A,
   .deliver .B, .deliver .B, .deliver .B, .deliver .A, .deliver .A, .deliver .A]

def liveA : Cfg := { initiator := true, sender := "A", target := "B", chunk := 0 }
def liveB : Cfg := { initiator := false, sender := "B", target := "A", chunk := 0 }

#guard decide (C05_numbers_fit (linkInit liveA liveB) (faultyHistory ++ settleSchedule))
#guard (let l := runLink (linkInit liveA liveB) faultyHistory; (l.sentA, l.dlvB, l.sentB, l.dlvA)) == (["a1", "a2", "a3"], ["a1"], ["b1", "b2"], [])
#guard (let l := runLink (runLink (linkInit liveA liveB) faultyHistory) settleSchedule
        (l.sentA, l.dlvB, l.sentB, l.dlvA, l.a2b.length, l.b2a.length, l.a.st.name, l.b.st.name)) ==
       (["a1", "a2", "a3"], ["a1", "a2", "a3"], ["b1", "b2"], ["b1", "b2"], 0, 0, "InSession", "InSession")

-- why the schedule contains a reconnect: with deliveries, flushes and heartbeat timers alone a link can stay stuck for ever
-- (here: B was recreated while the connection stayed up — A waits for an answer to its TestRequest, B waits for a Logon).
-- The real engines behave the same on these ops (corpus/C05/stuck-without-timeouts.ops, `qfxh link -replay`); they get
-- out by their own peer / logon / logout timeouts, which end in a disconnect, i.e. the reconnect of the schedule.
def stuckHistory : List LEv :=
  [.connect, .deliver .B, .deliver .A, .timer .B .logoutTimeout, .timer .B .logonTimeout, .send .B "p2", .deliver .B, .deliver .B,
   .timer .A .peerTimeout, .restart .B, .deliver .B, .flush .B, .connect]
def quietRound : List LEv :=
  [.deliver .B, .deliver .A, .flush .A, .flush .B, .deliver .B, .deliver .A, .timer .A .needHeartbeat, .timer .B .needHeartbeat,
   .deliver .B, .deliver .A]
#guard (let l := runLink (runLink (linkInit liveA liveB) stuckHistory) (quietRound ++ quietRound ++ quietRound)
        (l.sentB, l.dlvA, l.a.st.name, l.b.st.name)) == (["p2"], [], "Pending:InSession", "Logon")
-- … and FIXT.1.1 without a DefaultApplVerID never logs on (hypothesis `LiveCfg.va` / `vb`):
#guard (let l := runLink (runLink (linkInit { liveA with bs := 5 } { liveB with bs := 5 }) faultyHistory) settleSchedule
        (l.sentA, l.dlvB)) == (["a1", "a2", "a3"], [])

/-! ### what the silence of the monitor means (used by BOTH families that evaluate it on real engines: `link`, where the
    model also predicts every observation, and `sock`, where the schedule is real and the monitor alone decides) -/

/-- before settling the monitor is silent exactly when the safety clause of `C05_safety` holds of the observed lists -/
theorem C05_monitor_silent_iff_safe (sa sb da db : List String) :
    monLink false sa sb da db = [] ↔ safe sa sb da db = true := by
  unfold monLink safe
  cases h1 : isPrefix db sa <;> cases h2 : isPrefix da sb <;> simp

theorem C05_isPrefix_self (a : List String) : isPrefix a a = true := by
  induction a with
  | nil => rfl
  | cons x xs ih => simp [isPrefix, ih]

theorem C05_isPrefix_len_eq (a b : List String) (h : isPrefix a b = true) (hl : a.length = b.length) : a = b := by
  obtain ⟨t, e⟩ := (isPrefix_iff a b).1 h
  have : t = [] := by
    have hlen := congrArg List.length e
    simp at hlen
    apply List.eq_nil_of_length_eq_zero
    omega
  simp [e, this]

/-- after settling the monitor is silent exactly when both applications received exactly what the other side submitted -/
theorem C05_monitor_settled_silent_iff (sa sb da db : List String) :
    monLink true sa sb da db = [] ↔ (db = sa ∧ da = sb) := by
  constructor
  · intro h
    unfold monLink at h
    cases h1 : isPrefix db sa <;> cases h2 : isPrefix da sb <;> simp [h1, h2] at h
    exact ⟨C05_isPrefix_len_eq _ _ h1 h.1, C05_isPrefix_len_eq _ _ h2 h.2⟩
  · rintro ⟨rfl, rfl⟩
    simp [monLink, C05_isPrefix_self]

/-!
Clause checklist (properties.jsonl C05)
* nothing is delivered that was not sent                              : C05_safety (monitor clause `safe`), C05_safety_clauses (1st, 2nd part)
* delivered exactly once (no payload twice)                            : C05_safety, C05_safety_clauses (`Nodup`)
* in submission order, nothing skipped                                 : C05_safety, C05_safety_clauses (`dlv = sent.take dlv.length`)
* "connection cut at arbitrary points (losing any suffix in flight)"   : `LEv.cut` after any number of `LEv.deliver` — every history is covered
* "either engine discarded and recreated on its persistent store"      : `LEv.restart` (persist = true on both sides is a hypothesis)
* "sequence resets disabled"                                           : hypotheses resetOnLogon / resetOnLogout / resetOnDisconnect = false
* the invariant itself (expected number vs. next number, delivered = payloads below the expected number) : C05_invariant, C05_invariant_step
* per engine: in order and exactly once by number                      : C05_each_side_in_order (C01)
* the links carry messages faithfully; numbers survive the wire        : C05_link_faithful, C05_number_round_trip
* why the payload condition is needed, for every state                 : C05_empty_payload_is_consumed
* side conditions of C05_safety, all satisfiable (demoHistory, #guard) : non-empty payload ids (an empty tag value is rejected
    as malformed by the peer and consumed: `cexHistory`, the statement without this condition `C05_safety_full` is FALSE);
    numbers within Go's `int` (`C05_numbers_fit`).  (Empty CompIDs need no condition: no Logon is then ever accepted
    and nothing is delivered — Lemmas/LinkC05i.lean.)
* "every message … is delivered … once the link stays up for a few heartbeat intervals" (liveness):
    - no gap, everything in flight gets delivered                                  : C05_liveness_nogap
    - from EVERY reachable state, after a reconnect, ResendRequestChunkSize = 0     : C05_liveness_reconnect (reachable), C05_liveness_reconnect_state
      (gaps on neither / either / both sides; schedule = cut, connect, both Logons, one flush per side, deliveries)
    - with chunking (chunk size > 0)                                                : NOT proved — `def C05_liveness_full`; sampled by the `link`
      family (monitor clause `C05.not_all_delivered_after_settle`) and 27 000 generated histories of the Lean model (chunk 0–3), all settle
    - side conditions: roles, DefaultApplVerID under FIXT (else no Logon is accepted: #guard), head-room for the numbers; the schedule needs the
      reconnect (or the peer / logon / logout timeouts): heartbeats alone can leave a link stuck (`stuckHistory`, same on the real engines)
* the socket / goroutine layer (acceptor.go, initiator.go, connection.go, the run loop): NOT modelled.  The `sock` family runs two
    real engines behind real sockets and a fault-injecting proxy and evaluates the SAME `monLink` on each round
    (`C05_monitor_silent_iff_safe`, `C05_monitor_settled_silent_iff` say what its silence means); one round = one schedule: SAMPLED
-/
