/-
  C18 — "Session schedules classify instants by the configured windows" (fixed-offset zones).
  Instants are judged away from the one-second window edges, as the property says: `offEdge`.
-/
import Qfx.Spec.TimeRange
open Qfx.TR

theorem tmod7_nonneg (a : Int) (h : 0 ≤ a) : Int.tmod a 7 = a % 7 := by
  rw [Int.tmod_eq_emod_of_nonneg h]

theorem awo_prev (d : Int) : addWeekdayOffset (wdOfDay d) (-1) = wdOfDay (d - 1) := by
  unfold addWeekdayOffset wdOfDay
  rw [tmod7_nonneg _ (by omega)]; omega

/-- the instant is not exactly on an opening or closing second -/
def offEdge (r : Range) (t : Int) : Prop := todOf t ≠ r.startS ∧ todOf t ≠ r.endS

/-- daily configurations (plain, overnight, weekday-restricted by the opening day):
    the code's answer is membership in one of the configured windows -/
theorem C18_in_range_daily (r : Range) (hwf : r.wf) (hd : r.startDay = none) (t : Int) (he : offEdge r t) :
    r.isInRange t = true ↔ InRange r t := by
  obtain ⟨h1, h2, h3, h4, _, _, _, hse, _⟩ := hwf
  obtain ⟨he1, he2⟩ := he
  have hw : ∀ D, r.window D = r.dailyWindow D := by intro D; simp [Range.window, hd]
  have hday : t = dayOf t * 86400 + todOf t := by unfold dayOf todOf; omega
  have htod : 0 ≤ todOf t ∧ todOf t < 86400 := by unfold todOf; omega
  simp only [Range.isInRange, Range.isInRangeWith, hd, Range.isInTimeRangeWith, weekday, awo_prev]
  unfold InRange
  simp only [hw, Range.dailyWindow]
  by_cases hlt : r.startS < r.endS
  · simp only [hlt, if_true]
    constructor
    · intro h
      by_cases hwd : r.isInWeekdays (wdOfDay (dayOf t)) = true
      · simp only [hwd, if_true, decide_eq_true_eq] at h
        exact ⟨dayOf t, dayOf t * 86400 + r.startS, dayOf t * 86400 + r.endS, by simp [hwd], by omega, by omega⟩
      · simp [hwd] at h
    · rintro ⟨D, lo, hi, hwin, hlo, hhi⟩
      by_cases hwd : r.isInWeekdays (wdOfDay D) = true
      · simp only [hwd, if_true, Option.some.injEq, Prod.mk.injEq] at hwin
        obtain ⟨rfl, rfl⟩ := hwin
        have hD : D = dayOf t := by omega
        subst hD
        simp only [hwd, if_true, decide_eq_true_eq]; omega
      · simp [hwd] at hwin
  · simp only [hlt, if_false]
    constructor
    · intro h
      by_cases hle : todOf t ≤ r.endS
      · simp only [hle, if_true] at h
        exact ⟨dayOf t - 1, (dayOf t - 1) * 86400 + r.startS, (dayOf t - 1 + 1) * 86400 + r.endS, by simp [h], by omega, by omega⟩
      · simp only [hle, if_false] at h
        by_cases hge : todOf t ≥ r.startS
        · simp only [hge, if_true] at h
          exact ⟨dayOf t, dayOf t * 86400 + r.startS, (dayOf t + 1) * 86400 + r.endS, by simp [h], by omega, by omega⟩
        · simp [hge] at h
    · rintro ⟨D, lo, hi, hwin, hlo, hhi⟩
      by_cases hwd : r.isInWeekdays (wdOfDay D) = true
      · simp only [hwd, if_true, Option.some.injEq, Prod.mk.injEq] at hwin
        obtain ⟨rfl, rfl⟩ := hwin
        have hD : D = dayOf t ∨ D = dayOf t - 1 := by omega
        rcases hD with hD | hD
        · subst hD
          have hle : ¬ todOf t ≤ r.endS := by omega
          have hge : todOf t ≥ r.startS := by omega
          simp [hle, hge, hwd]
        · subst hD
          have hle : todOf t ≤ r.endS := by omega
          simp only [hle, if_true]
          exact hwd
      · simp [hwd] at hwin

/-- weekly configurations (StartDay/StartTime – EndDay/EndTime, any wrap, same-day both ways) -/
theorem C18_in_range_weekly (r : Range) (hwf : r.wf) (sd ed : Int) (hs : r.startDay = some sd) (hed : r.endDay = some ed)
    (t : Int) (he : offEdge r t) :
    r.isInRange t = true ↔ InRange r t := by
  obtain ⟨h1, h2, h3, h4, _, hsd, hedd, _, hwk'⟩ := hwf
  have hwk : r.weekdays = [] := hwk' (by simp [hs])
  obtain ⟨he1, he2⟩ := he
  have hsd' := hsd sd hs
  have hed' := hedd ed hed
  have hw : ∀ D, r.window D = r.weeklyWindow sd ed D := by intro D; simp [Range.window, hs, hed]
  have hday : t = dayOf t * 86400 + todOf t := by unfold dayOf todOf; omega
  have htod : 0 ≤ todOf t ∧ todOf t < 86400 := by unfold todOf; omega
  have hwds : ∀ x, r.isInWeekdays x = true := by intro x; simp [Range.isInWeekdays, hwk]
  simp only [Range.isInRange, Range.isInRangeWith, hs, hed, Range.isInWeekRangeWith, Range.isInTimeRangeWith, weekday, hwds, if_true]
  unfold InRange
  simp only [hw, Range.weeklyWindow]
  obtain ⟨day, hwd⟩ : ∃ day, wdOfDay (dayOf t) = day := ⟨_, rfl⟩
  simp only [hwd]
  have hdayr : 0 ≤ day ∧ day < 7 := by rw [← hwd]; unfold wdOfDay; omega
  -- the opening day of the window that could contain t
  have key : ∀ k : Int, wdOfDay (dayOf t - k) = (day - k) % 7 := by
    intro k; rw [← hwd]; unfold wdOfDay; omega
  constructor
  · intro h
    by_cases hse : sd = ed
    · subst hse
      simp only [if_true] at h
      by_cases hds : day = sd
      · subst hds
        simp only [if_true] at h
        by_cases hlt : r.startS < r.endS
        · simp only [hlt, if_true, decide_eq_true_eq] at h
          refine ⟨dayOf t, dayOf t * 86400 + r.startS, (dayOf t + 0) * 86400 + r.endS, ?_, by omega, by omega⟩
          simp [hwd, hlt]
        · simp only [hlt, if_false] at h
          by_cases hle : todOf t ≤ r.endS
          · refine ⟨dayOf t - 7, (dayOf t - 7) * 86400 + r.startS, (dayOf t - 7 + 7) * 86400 + r.endS, ?_, by omega, by omega⟩
            have := key 7
            simp [this, hlt]; omega
          · simp only [hle, if_false] at h
            by_cases hge : todOf t ≥ r.startS
            · refine ⟨dayOf t, dayOf t * 86400 + r.startS, (dayOf t + 7) * 86400 + r.endS, ?_, by omega, by omega⟩
              simp [hwd, hlt]
            · simp [hge] at h
      · simp only [hds, if_false] at h
        by_cases hlt : r.startS < r.endS
        · simp [hlt] at h
        · refine ⟨dayOf t - (day - sd) % 7, (dayOf t - (day - sd) % 7) * 86400 + r.startS, (dayOf t - (day - sd) % 7 + 7) * 86400 + r.endS, ?_, by omega, by omega⟩
          have := key ((day - sd) % 7)
          simp [this, hlt]; omega
    · simp only [hse, if_false] at h
      by_cases hex : (if sd < ed then day < sd ∨ ed < day else ed < day ∧ day < sd)
      · simp [hex] at h
      · simp only [hex, if_false] at h
        have hin : (day - sd) % 7 ≤ (ed - sd) % 7 := by
          split at hex <;> omega
        by_cases hds : day = sd
        · subst hds
          simp only [if_true, decide_eq_true_eq] at h
          refine ⟨dayOf t, dayOf t * 86400 + r.startS, (dayOf t + (ed - day) % 7) * 86400 + r.endS, ?_, by omega, by omega⟩
          simp [hwd, hse]
        · simp only [hds, if_false] at h
          refine ⟨dayOf t - (day - sd) % 7, (dayOf t - (day - sd) % 7) * 86400 + r.startS,
            (dayOf t - (day - sd) % 7 + (ed - sd) % 7) * 86400 + r.endS, ?_, by omega, ?_⟩
          · have := key ((day - sd) % 7)
            simp [this, hse]; omega
          · by_cases hde : day = ed
            · subst hde
              simp only [if_true, decide_eq_true_eq] at h
              omega
            · have : (day - sd) % 7 < (ed - sd) % 7 := by omega
              omega
  · rintro ⟨D, lo, hi, hwin, hlo, hhi⟩
    by_cases hD : wdOfDay D = sd
    · simp only [hD, if_true, Option.some.injEq, Prod.mk.injEq] at hwin
      obtain ⟨rfl, rfl⟩ := hwin
      have hDk : wdOfDay D = (D + 4) % 7 := rfl
      have hdk : day = (dayOf t + 4) % 7 := by rw [← hwd]; rfl
      by_cases hse : sd = ed
      · subst hse
        simp only [if_true] at hhi ⊢
        by_cases hlt : r.startS < r.endS
        · simp only [hlt, if_true] at hhi ⊢
          have : D = dayOf t := by omega
          subst this
          have : day = sd := by omega
          simp [this]; omega
        · simp only [hlt, if_false] at hhi ⊢
          by_cases hds : day = sd
          · simp only [hds, if_true]
            by_cases hle : todOf t ≤ r.endS
            · simp [hle]
            · simp only [hle, if_false]
              have : todOf t ≥ r.startS := by omega
              simp [this]
          · simp [hds]
      · simp only [hse, if_false] at hhi ⊢
        have hk : 0 ≤ dayOf t - D ∧ dayOf t - D ≤ (ed - sd) % 7 := by omega
        have hdd : day = (sd + (dayOf t - D)) % 7 := by omega
        have hex : ¬ (if sd < ed then day < sd ∨ ed < day else ed < day ∧ day < sd) := by
          split <;> omega
        simp only [hex, if_false]
        by_cases hds : day = sd
        · simp only [hds, if_true, decide_eq_true_eq]
          have : dayOf t = D := by omega
          omega
        · simp only [hds, if_false]
          by_cases hde : day = ed
          · simp only [hde, if_true, decide_eq_true_eq]
            have : dayOf t - D = (ed - sd) % 7 := by omega
            omega
          · simp [hde]
    · simp [hD] at hwin

/-- in-range, every configuration the factory can build -/
theorem C18_in_range (r : Range) (hwf : r.wf) (t : Int) (he : offEdge r t) :
    r.isInRange t = true ↔ InRange r t := by
  cases hs : r.startDay with
  | none => exact C18_in_range_daily r hwf hs t he
  | some sd =>
    have := hwf.2.2.2.2.2.2.2.1
    cases hed : r.endDay with
    | none => rw [hs, hed] at this; simp at this
    | some ed => exact C18_in_range_weekly r hwf sd ed hs hed t he

/-- away from the edges, the `sessionEnd` the code computes from an in-window instant is that window's end -/
theorem sessionEnd_eq_hi (r : Range) (hwf : r.wf) (t D lo hi : Int) (hwin : r.window D = some (lo, hi))
    (hlo : lo ≤ t) (hhi : t ≤ hi) (he : offEdge r t) : r.sessionEnd t = hi := by
  obtain ⟨h1, h2, h3, h4, _, hsd, hedd, hse, _⟩ := hwf
  obtain ⟨he1, he2⟩ := he
  have hday : t = dayOf t * 86400 + todOf t := by unfold dayOf todOf; omega
  have htod : 0 ≤ todOf t ∧ todOf t < 86400 := by unfold todOf; omega
  unfold Range.sessionEnd
  cases hs : r.startDay with
  | none =>
    have hed : r.endDay = none := by
      cases h : r.endDay with
      | none => rfl
      | some _ => rw [hs, h] at hse; simp at hse
    simp only [Range.window, hs, Range.dailyWindow] at hwin
    by_cases hwd : r.isInWeekdays (wdOfDay D) = true
    · simp only [hwd, if_true, Option.some.injEq, Prod.mk.injEq] at hwin
      obtain ⟨rfl, rfl⟩ := hwin
      simp only [hed]
      by_cases hlt : r.startS < r.endS
      · simp only [hlt, if_true] at hhi ⊢
        have : ¬ (r.startS ≥ r.endS ∧ todOf t ≥ r.startS) := by omega
        simp only [this, if_false]; omega
      · simp only [hlt, if_false] at hhi ⊢
        by_cases hc : r.startS ≥ r.endS ∧ todOf t ≥ r.startS
        · simp only [hc, and_self, if_true]; omega
        · simp only [hc, if_false]; omega
    · simp [hwd] at hwin
  | some sd =>
    cases hed : r.endDay with
    | none => rw [hs, hed] at hse; simp at hse
    | some ed =>
      have hsd' := hsd sd hs
      have hed' := hedd ed hed
      simp only [Range.window, hs, hed, Range.weeklyWindow] at hwin
      by_cases hD : wdOfDay D = sd
      · simp only [hD, if_true, Option.some.injEq, Prod.mk.injEq] at hwin
        obtain ⟨rfl, rfl⟩ := hwin
        have hDk : wdOfDay D = (D + 4) % 7 := rfl
        have hwk : weekday t = (dayOf t + 4) % 7 := rfl
        simp only []
        by_cases hse' : sd = ed
        · subst hse'
          simp only [if_true] at hhi ⊢
          by_cases hlt : r.startS < r.endS
          · simp only [hlt, if_true] at hhi ⊢
            have : D = dayOf t := by omega
            subst this
            split
            · omega
            · split
              · split <;> omega
              · omega
          · simp only [hlt, if_false] at hhi ⊢
            split
            · omega
            · split
              · split <;> omega
              · omega
        · simp only [hse', if_false] at hhi ⊢
          split
          · omega
          · split
            · split <;> omega
            · omega
      · simp [hD] at hwin
theorem C18_same_range_ordered (r : Range) (hwf : r.wf) (t1 t2 : Int) (hle : t1 ≤ t2)
    (he1 : offEdge r t1) (he2 : offEdge r t2) :
    (r.isInRange t1 = true ∧ r.isInRange t2 = true ∧ t2 < r.sessionEnd t1) ↔ Same r t1 t2 := by
  constructor
  · rintro ⟨h1, h2, h3⟩
    obtain ⟨D, lo, hi, hwin, hlo, hhi⟩ := (C18_in_range r hwf t1 he1).1 h1
    have := sessionEnd_eq_hi r hwf t1 D lo hi hwin hlo hhi he1
    exact ⟨D, lo, hi, hwin, hlo, hhi, by omega, by omega⟩
  · rintro ⟨D, lo, hi, hwin, hlo1, hhi1, hlo2, hhi2⟩
    have hs := sessionEnd_eq_hi r hwf t1 D lo hi hwin hlo1 hhi1 he1
    have hs2 := sessionEnd_eq_hi r hwf t2 D lo hi hwin hlo2 hhi2 he2
    refine ⟨(C18_in_range r hwf t1 he1).2 ⟨D, lo, hi, hwin, hlo1, hhi1⟩,
            (C18_in_range r hwf t2 he2).2 ⟨D, lo, hi, hwin, hlo2, hhi2⟩, ?_⟩
    rw [hs]
    -- t2 ≤ hi and t2 is not on the closing second
    have hne : t2 ≠ hi := by
      intro h
      -- the time of day of hi is endS
      have : todOf hi = r.endS := by
        rw [← hs2]; unfold Range.sessionEnd todOf
        have := hwf.2.2.1; have := hwf.2.2.2.1
        simp only []; omega
      rw [← h] at this
      exact he2.2 this
    omega

theorem same_symm (r : Range) (a b : Int) : Same r a b ↔ Same r b a := by
  constructor <;> rintro ⟨D, lo, hi, hw, h1, h2, h3, h4⟩ <;> exact ⟨D, lo, hi, hw, h3, h4, h1, h2⟩

/-- "two instants are reported to be in the same session exactly when they fall in the same window" -/
theorem C18_same_range (r : Range) (hwf : r.wf) (a b : Int) (hea : offEdge r a) (heb : offEdge r b) :
    r.isInSameRange a b = true ↔ Same r a b := by
  unfold Range.isInSameRange Range.isInSameRangeWith
  have hra : r.isInRangeWith addWeekdayOffset a = r.isInRange a := rfl
  have hrb : r.isInRangeWith addWeekdayOffset b = r.isInRange b := rfl
  rw [hra, hrb]
  by_cases hba : b < a
  · have := C18_same_range_ordered r hwf b a (by omega) heb hea
    rw [same_symm r a b, ← this]
    simp only [hba, if_true]
    cases h1 : r.isInRange a <;> cases h2 : r.isInRange b <;> simp
  · have := C18_same_range_ordered r hwf a b (by omega) hea heb
    rw [← this]
    simp only [hba, if_false]
    cases h1 : r.isInRange a <;> cases h2 : r.isInRange b <;> simp

/-- corollaries the property lists: symmetric, implies both in range -/
theorem C18_same_symmetric (r : Range) (hwf : r.wf) (a b : Int) (hea : offEdge r a) (heb : offEdge r b) :
    r.isInSameRange a b = r.isInSameRange b a := by
  have h1 := C18_same_range r hwf a b hea heb
  have h2 := C18_same_range r hwf b a heb hea
  rw [same_symm] at h2
  cases h : r.isInSameRange a b <;> cases h' : r.isInSameRange b a <;> simp_all

theorem C18_same_implies_in_range (r : Range) (a b : Int) (h : r.isInSameRange a b = true) :
    r.isInRange a = true ∧ r.isInRange b = true := by
  unfold Range.isInSameRange Range.isInSameRangeWith at h
  have hra : r.isInRangeWith addWeekdayOffset a = r.isInRange a := rfl
  have hrb : r.isInRangeWith addWeekdayOffset b = r.isInRange b := rfl
  rw [hra, hrb] at h
  cases h1 : r.isInRange a <;> cases h2 : r.isInRange b <;> simp_all

theorem window_hi_inj (r : Range) (D1 D2 lo1 lo2 hi : Int)
    (h1 : r.window D1 = some (lo1, hi)) (h2 : r.window D2 = some (lo2, hi)) : D1 = D2 ∧ lo1 = lo2 := by
  unfold Range.window at h1 h2
  split at h1
  · rename_i sd ed hs hed
    simp only [hs, hed] at h2
    unfold Range.weeklyWindow at h1 h2
    split at h1 <;> split at h2 <;> simp only [Option.some.injEq, Prod.mk.injEq, reduceCtorEq] at h1 h2
    obtain ⟨rfl, hh1⟩ := h1
    obtain ⟨rfl, hh2⟩ := h2
    constructor <;> omega
  · rename_i hne
    split at h2
    · rename_i sd ed hs hed
      exact absurd hed (by intro hed; exact hne sd ed hs hed)
    · unfold Range.dailyWindow at h1 h2
      split at h1 <;> split at h2 <;> simp only [Option.some.injEq, Prod.mk.injEq, reduceCtorEq] at h1 h2
      obtain ⟨rfl, hh1⟩ := h1
      obtain ⟨rfl, hh2⟩ := h2
      have : D1 = D2 := by split at hh1 <;> split at hh2 <;> omega
      exact ⟨this, by omega⟩

/-- "the relation is transitive" (away from the edges an instant lies in at most one window) -/
theorem C18_same_transitive (r : Range) (hwf : r.wf) (a b c : Int)
    (hea : offEdge r a) (heb : offEdge r b) (hec : offEdge r c)
    (hab : r.isInSameRange a b = true) (hbc : r.isInSameRange b c = true) : r.isInSameRange a c = true := by
  obtain ⟨D1, lo1, hi1, hw1, ha1, ha2, hb1, hb2⟩ := (C18_same_range r hwf a b hea heb).1 hab
  obtain ⟨D2, lo2, hi2, hw2, hb3, hb4, hc1, hc2⟩ := (C18_same_range r hwf b c heb hec).1 hbc
  have e1 := sessionEnd_eq_hi r hwf b D1 lo1 hi1 hw1 hb1 hb2 heb
  have e2 := sessionEnd_eq_hi r hwf b D2 lo2 hi2 hw2 hb3 hb4 heb
  have hhi : hi1 = hi2 := by rw [← e1, ← e2]
  subst hhi
  obtain ⟨rfl, rfl⟩ := window_hi_inj r D1 D2 lo1 lo2 hi1 hw1 hw2
  exact (C18_same_range r hwf a c hea hec).2 ⟨D1, lo1, hi1, hw1, ha1, ha2, hc1, hc2⟩

/-- the pinned original (`(day + offset) % 7` with Go's truncating `%`) misclassified Sunday mornings of an
    overnight window that opens on Saturday (D9): concrete witness, replayed by the sched family -/
def satNight : Range := { startS := 79200, endS := 21600, weekdays := [6], startDay := none, endDay := none }
theorem C18_original_sunday_witness :
    satNight.isInRangeWith addWeekdayOffsetOrig (3 * 86400 + 10800) = false ∧
    satNight.isInRange (3 * 86400 + 10800) = true ∧ InRange satNight (3 * 86400 + 10800) := by
  refine ⟨by decide, by decide, ⟨2, 2 * 86400 + 79200, 3 * 86400 + 21600, by decide, by decide, by decide⟩⟩

/-- non-vacuity: a factory-buildable configuration and an off-edge instant -/
example : satNight.wf ∧ offEdge satNight (3 * 86400 + 10800) := by
  refine ⟨⟨by decide, by decide, by decide, by decide, by decide, by simp [satNight], by simp [satNight], by decide, by simp [satNight]⟩, by decide, by decide⟩

/-!
Clause checklist (properties.jsonl C18 → theorems)
* in range ⇔ in one of the configured windows (daily / overnight / weekdays by opening day / weekly): C18_in_range (C18_in_range_daily, C18_in_range_weekly)
* same session ⇔ same window: C18_same_range;  symmetric: C18_same_symmetric;  transitive: C18_same_transitive;
  implies both in range: C18_same_implies_in_range;  false across a window boundary: C18_same_range (←, contrapositive)
* "evaluated in the configured time zone": fixed-offset zones only (instants are civil seconds); DST zones: Go-side oracle (partial)
* original defect: C18_original_sunday_witness (D9, fixed by 6b77fc1)
-/
