/-
  C19 — "The data dictionary says what the specification file says".
  Property theorems only; helper lemmas are in Qfx/Lemmas/Dict.lean.

  Model: Qfx/Model/Dict.lean (`buildWith a fuel mk`, `build a = buildWith a (a.size+1) newMessageDef`).
  Spec:  Qfx/Spec/Dict.lean  (`FieldNum`, `CompDef`, `MsgDef`, `ReachM`, `ReqM`, `Expands`, `RefsOK`, `Dangling`,
         `WFNames`, executable `expandSpec`).

  Clause checklist (monitor clause ↦ theorem):
    group_order, group_required   C19_group_order, C19_group_order_header, C19_group_order_trailer
                                  (`Expands` pins order, tags, own flags, the members of every group and, up to
                                  membership, the required-set of every group), C19_expands_functional,
                                  C19_expands_functional_req
    fields                        C19_fields, C19_fields_header, C19_fields_trailer
    required                      C19_required, C19_required_header, C19_required_trailer;
                                  C19_required_orig_witness (the unchanged tree violates it, D10)
    types_enums                   C19_types_enums
    refuses_dangling              C19_refuses_dangling
                                  (needs unique names: C19_refuses_dangling_needs_wf)
    loads_wellformed              C19_loads_wellformed, C19_loads_wellformed_orig
    messages                      C19_messages
    fields_map                    not stated: `MDef.field?` is a definition of the model (last flattened field of a tag)
    (executable spec of the monitor) C19_spec_exec_sound, C19_spec_lookup, C19_monitor_guards,
                                  C19_monitor_msg_accepts, C19_monitor_load_accepts, C19_monitor_refused_accepts

  The tree after the `fix:` that refuses circular component references (`buildWithS`, `buildS`; helper lemmas in
  Qfx/Lemmas/DictCycle.lean).  Every clause above carries over through C19_checked_is_unchecked:
    group_order, group_required   C19_group_order_checked, C19_group_order_header_checked, C19_group_order_trailer_checked
    fields                        C19_fields_checked, C19_fields_header_checked, C19_fields_trailer_checked
    required                      C19_required_checked, C19_required_header_checked, C19_required_trailer_checked
    refuses_dangling              C19_refuses_dangling_checked
    loads_wellformed              C19_loads_wellformed_checked (the circular-reference exit is never taken on a file
                                  whose components expand)
    messages                      C19_messages_checked
    (monitor)                     C19_monitor_msg_accepts_checked, C19_monitor_load_accepts_checked,
                                  C19_monitor_refused_accepts_checked
    c09_cyclic_components (a clause of C09: no crash on circular components)
                                  C19_no_overflow (the recursion budget `Ast.size + 1` is never exhausted, for EVERY
                                  file), C19_no_overflow_fuel;
                                  C19_cyclic_refused, C19_loaded_acyclic (a file with a component reaching itself is
                                  never loaded — by either builder, with any budget: `Ast.size + 1` is an adequate
                                  budget for `acyclicB`, C19_acyclic_budget_adequate);
                                  C19_refusal_reason, C19_cyclic_refused_cycle, C19_cycle_iff (unique names and no
                                  undefined reference: refused ⇔ `cycle` ⇔ some component reaches itself);
                                  C19_cycle_witness (the unchanged tree overflows where the fixed one says `cycle`)
-/
import Qfx.Lemmas.DictCycle
open Qfx.Dict

section
variable {ν : Type} [DecidableEq ν]

/-! ## group_order / group_required: the flattened members are the declared members, in order -/

theorem C19_group_order (a : Ast ν) (wf : WFNames a) (fuel : Nat) (d : Dict ν)
    (h : buildWith a fuel newMessageDef = .ok d) (mt : ν) (ms : List (Member ν)) (hm : MsgDef a mt ms) :
    ∃ m, d.msg? mt = some m ∧ Expands a ms m.flat := by
  obtain ⟨ps, hd, he, _⟩ := buildWith_msg wf h hm
  exact ⟨_, hd, he⟩

theorem C19_group_order_header (a : Ast ν) (wf : WFNames a) (fuel : Nat) (d : Dict ν)
    (h : buildWith a fuel newMessageDef = .ok d) (ms : List (Member ν)) (hm : a.header = some ms) :
    ∃ m, d.header = some m ∧ Expands a ms m.flat := by
  obtain ⟨ps, hd, he, _⟩ := buildWith_header wf h hm
  exact ⟨_, hd, he⟩

theorem C19_group_order_trailer (a : Ast ν) (wf : WFNames a) (fuel : Nat) (d : Dict ν)
    (h : buildWith a fuel newMessageDef = .ok d) (ms : List (Member ν)) (hm : a.trailer = some ms) :
    ∃ m, d.trailer = some m ∧ Expands a ms m.flat := by
  obtain ⟨ps, hd, he, _⟩ := buildWith_trailer wf h hm
  exact ⟨_, hd, he⟩

/-- the specification determines the expansion: order, tags, own flags, nesting -/
theorem C19_expands_functional (a : Ast ν) (wf : WFNames a) (ms : List (Member ν)) (fs fs' : List FDef)
    (h : Expands a ms fs) (h' : Expands a ms fs') : sameShapeL fs fs' = true :=
  h.sameShape wf fs' h'

/-- … and the required-set of every group up to membership (clause group_required) -/
theorem C19_expands_functional_req (a : Ast ν) (wf : WFNames a) (ms : List (Member ν)) (fs fs' : List FDef)
    (h : Expands a ms fs) (h' : Expands a ms fs') : sameReqL fs fs' = true :=
  h.sameReq wf fs' h'

/-! ## fields: `Tags` are exactly the reachable tags -/

theorem C19_fields (a : Ast ν) (wf : WFNames a) (fuel : Nat) (d : Dict ν)
    (h : buildWith a fuel newMessageDef = .ok d) (mt : ν) (ms : List (Member ν)) (hm : MsgDef a mt ms) :
    ∃ m, d.msg? mt = some m ∧ ∀ t, t ∈ m.tags ↔ Reach a mt t := by
  obtain ⟨ps, hd, he, _⟩ := buildWith_msg wf h hm
  refine ⟨_, hd, fun t => ?_⟩
  show t ∈ (ps.flatMap Part.fields).flatMap FDef.allTags ↔ _
  rw [he.tags_iff wf]
  constructor
  · intro hr; exact ⟨ms, hm, hr⟩
  · rintro ⟨ms', hm', hr⟩
    rw [MsgDef.unique wf hm hm']; exact hr

theorem C19_fields_header (a : Ast ν) (wf : WFNames a) (fuel : Nat) (d : Dict ν)
    (h : buildWith a fuel newMessageDef = .ok d) (ms : List (Member ν)) (hm : a.header = some ms) :
    ∃ m, d.header = some m ∧ ∀ t, t ∈ m.tags ↔ ReachM a ms t := by
  obtain ⟨ps, hd, he, _⟩ := buildWith_header wf h hm
  exact ⟨_, hd, he.tags_iff wf⟩

theorem C19_fields_trailer (a : Ast ν) (wf : WFNames a) (fuel : Nat) (d : Dict ν)
    (h : buildWith a fuel newMessageDef = .ok d) (ms : List (Member ν)) (hm : a.trailer = some ms) :
    ∃ m, d.trailer = some m ∧ ∀ t, t ∈ m.tags ↔ ReachM a ms t := by
  obtain ⟨ps, hd, he, _⟩ := buildWith_trailer wf h hm
  exact ⟨_, hd, he.tags_iff wf⟩

/-! ## required: `RequiredTags` are exactly the required tags (after the `fix:`) -/

theorem C19_required (a : Ast ν) (wf : WFNames a) (fuel : Nat) (d : Dict ν)
    (h : buildWith a fuel newMessageDef = .ok d) (mt : ν) (ms : List (Member ν)) (hm : MsgDef a mt ms) :
    ∃ m, d.msg? mt = some m ∧ ∀ t, t ∈ m.reqTags ↔ Req a mt t := by
  obtain ⟨ps, hd, _, hr⟩ := buildWith_msg wf h hm
  refine ⟨_, hd, fun t => ?_⟩
  show t ∈ ps.flatMap Part.reqTags ↔ _
  rw [hr]
  constructor
  · intro hr; exact ⟨ms, hm, hr⟩
  · rintro ⟨ms', hm', hr⟩
    rw [MsgDef.unique wf hm hm']; exact hr

theorem C19_required_header (a : Ast ν) (wf : WFNames a) (fuel : Nat) (d : Dict ν)
    (h : buildWith a fuel newMessageDef = .ok d) (ms : List (Member ν)) (hm : a.header = some ms) :
    ∃ m, d.header = some m ∧ ∀ t, t ∈ m.reqTags ↔ ReqM a ms t := by
  obtain ⟨ps, hd, _, hr⟩ := buildWith_header wf h hm
  exact ⟨_, hd, hr⟩

theorem C19_required_trailer (a : Ast ν) (wf : WFNames a) (fuel : Nat) (d : Dict ν)
    (h : buildWith a fuel newMessageDef = .ok d) (ms : List (Member ν)) (hm : a.trailer = some ms) :
    ∃ m, d.trailer = some m ∧ ∀ t, t ∈ m.reqTags ↔ ReqM a ms t := by
  obtain ⟨ps, hd, _, hr⟩ := buildWith_trailer wf h hm
  exact ⟨_, hd, hr⟩

/-! ## types_enums: both field tables return the declaration itself (name, type, enum values) -/

theorem C19_types_enums (a : Ast ν) (wf : WFNames a) (f : FieldDecl ν) (hf : f ∈ a.fields) :
    a.fieldByTag f.num = some f ∧ a.fieldByName f.name = some f :=
  ⟨fieldByTag_of_mem wf hf, fieldByName_of_mem wf hf⟩

/-! ## refuses_dangling -/

theorem C19_refuses_dangling (a : Ast ν) (wf : WFNames a) (fuel : Nat) (mk : List Part → MDef)
    (hd : Dangling a) : ∀ d, buildWith a fuel mk ≠ .ok d := by
  intro d h
  obtain ⟨ms, hms, hn⟩ := hd
  exact hn (buildWith_refsOK wf h ms hms)

/-! ## loads_wellformed: unique names, no undefined reference, no component reaching itself ⇒ loaded
     (`Ast.size + 1` is enough recursion budget; the Go stack is "the budget") -/

theorem C19_loads_wellformed (a : Ast ν) (wf : WFNames a) (hd : ¬ Dangling a) (hac : acyclicB a = true) :
    ∃ d, build a = .ok d := by
  unfold acyclicB at hac
  rw [List.all_eq_true] at hac
  exact buildWith_ok a wf hd (a.size + 1) (Nat.lt_succ_self _) hac newMessageDef

/-- the same for the unchanged tree (D10 does not affect whether a file loads) -/
theorem C19_loads_wellformed_orig (a : Ast ν) (wf : WFNames a) (hd : ¬ Dangling a) (hac : acyclicB a = true) :
    ∃ d, buildOrig a = .ok d := by
  unfold acyclicB at hac
  rw [List.all_eq_true] at hac
  exact buildWith_ok a wf hd (a.size + 1) (Nat.lt_succ_self _) hac newMessageDefOrig

/-! ## the executable spec evaluated by the monitor is sound for the declarative relations -/

theorem C19_spec_exec_sound (a : Ast ν) (wf : WFNames a) (f : Nat) (ms : List (Member ν))
    (fs : List FDef) (rq : List Nat) (h : expandSpec a f ms = some (fs, rq)) :
    Expands a ms fs ∧ ∀ x, x ∈ rq ↔ ReqM a ms x :=
  expandSpec_sound a wf f ms fs rq h

/-- the first-match lookups of the executable spec are the declared tables -/
theorem C19_spec_lookup (a : Ast ν) (wf : WFNames a) :
    (∀ n t, specFieldNum a n = some t ↔ FieldNum a n t) ∧
    (∀ n cms, specComp a n = some cms ↔ CompDef a n cms) ∧
    (∀ mt ms, specMsg a mt = some ms ↔ MsgDef a mt ms) := by
  refine ⟨fun n t => ⟨specFieldNum_sound, fun h => ?_⟩,
    fun n cms => ⟨specComp_sound, specComp_of_def wf⟩,
    fun mt ms => ⟨specMsg_sound, specMsg_of_def wf⟩⟩
  obtain ⟨t', ht'⟩ := Option.isSome_iff_exists.1 (specFieldNum_isSome.2 ⟨t, h⟩)
  rw [ht', FieldNum.unique wf h (specFieldNum_sound ht')]

/-! ## the monitor's guards are the declarative predicates, and the monitor accepts the (fixed) model -/

theorem C19_monitor_guards (a : Ast ν) :
    (wfNamesB a = true ↔ WFNames a) ∧ (danglingB a = true ↔ Dangling a) :=
  ⟨wfNamesB_iff a, danglingB_iff a⟩

/-- clauses fields, required, group_order, group_required of `monMsg` are silent on what the model builds -/
theorem C19_monitor_msg_accepts (a : Ast ν) (wf : WFNames a) (fuel f : Nat) (d : Dict ν)
    (h : buildWith a fuel newMessageDef = .ok d) (mt : ν) (ms : List (Member ν)) (hm : MsgDef a mt ms) :
    ∃ m, d.msg? mt = some m ∧
      monMsg a f ms { tags := m.tags, req := m.reqTags, fmapOK := true, flat := m.flat } = [] := by
  obtain ⟨ps, hd, he, hr⟩ := buildWith_msg wf h hm
  exact ⟨_, hd, monMsg_silent wf f (d := { tags := _, req := _, fmapOK := true, flat := _ })
    he (he.tags_iff wf) hr rfl⟩

/-- clause messages: exactly the declared message types, header and trailer are loaded -/
theorem C19_messages (a : Ast ν) (fuel : Nat) (mk : List Part → MDef) (d : Dict ν)
    (h : buildWith a fuel mk = .ok d) :
    (∀ mt, mt ∈ d.msgs.map (·.1) ↔ ∃ ms, MsgDef a mt ms) ∧
    d.header.isSome = a.header.isSome ∧ d.trailer.isSome = a.trailer.isSome := by
  obtain ⟨hk, hh, ht⟩ := buildWith_loaded h
  refine ⟨fun mt => (hk mt).trans ⟨?_, ?_⟩, hh, ht⟩
  · rintro ⟨c, hc, rfl⟩; exact ⟨c.2, hc⟩
  · rintro ⟨ms, hm⟩; exact ⟨(mt, ms), hm, rfl⟩

/-- `monLoad` is silent when the model loads a file with unique names … -/
theorem C19_monitor_load_accepts (a : Ast ν) (wf : WFNames a) (fuel : Nat) (mk : List Part → MDef) (d : Dict ν)
    (h : buildWith a fuel mk = .ok d) :
    monLoad a (.loaded (d.msgs.map (·.1)) d.header.isSome d.trailer.isSome) = [] :=
  monLoad_loaded_silent wf h

/-- … and when the model refuses a file -/
theorem C19_monitor_refused_accepts (a : Ast ν) (e : BErr) (h : build a = .error e) :
    monLoad a .refused = [] := by
  unfold monLoad
  simp only
  split
  · rename_i hwf
    simp only [Bool.and_eq_true, Bool.not_eq_true'] at hwf
    obtain ⟨⟨h1, h2⟩, h3⟩ := hwf
    obtain ⟨d, hd⟩ := C19_loads_wellformed a ((wfNamesB_iff a).1 h1)
      (fun hdg => by rw [(danglingB_iff a).2 hdg] at h2; cases h2) h3
    rw [hd] at h; cases h
  · rfl

end

/-! ## the unchanged tree computed `RequiredTags` wrongly (D10) -/

/-- message 1 = [required component 10]; component 10 = [OPTIONAL component 11]; component 11 = [required field 20 (tag 100)] -/
def C19_a0 : Ast Nat :=
  { fields := [{ name := 20, num := 100, type := 0, enums := [] }]
    comps := [(10, [.comp 11 false]), (11, [.field 20 true])]
    msgs := [(1, [.comp 10 true])]
    header := none
    trailer := none }

theorem C19_required_orig_witness :
    (∃ d m, buildWith C19_a0 10 newMessageDefOrig = .ok d ∧ d.msg? 1 = some m ∧ 100 ∈ m.reqTags) ∧
    (∃ d m, buildWith C19_a0 10 newMessageDef = .ok d ∧ d.msg? 1 = some m ∧ 100 ∉ m.reqTags) ∧
    ¬ Req C19_a0 1 100 := by
  refine ⟨obsReqHas_iff.1 (by decide), obsReqLacks_iff.1 (by decide), ?_⟩
  rintro ⟨ms, hm, hr⟩
  have hms : ms = [.comp 10 true] := by
    simpa [MsgDef, C19_a0] using hm
  subst hms
  rw [reqM_comp] at hr
  rcases hr with ⟨_, cms, hc, hr⟩ | hr
  · have hcms : cms = [.comp 11 false] := by
      simpa [CompDef, C19_a0] using hc
    subst hcms
    rw [reqM_comp] at hr
    rcases hr with ⟨hf, _⟩ | hr
    · cases hf
    · exact reqM_nil hr
  · exact reqM_nil hr

/-! ## `refuses_dangling` needs unique component names: a second declaration of a name is never looked at -/

def C19_a3 : Ast Nat :=
  { fields := [], comps := [(1, []), (1, [.field 99 true])], msgs := [], header := none, trailer := none }

theorem C19_refuses_dangling_needs_wf : Dangling C19_a3 ∧ ∃ d, build C19_a3 = .ok d := by
  refine ⟨⟨[.field 99 true], by simp [Ast.bodies, C19_a3], fun h => ?_⟩, Except.isOkB_iff.1 (by decide)⟩
  cases h with
  | field hf _ =>
    obtain ⟨f, hf, _⟩ := hf
    simp [C19_a3] at hf

/-! ## non-vacuity -/

example : WFNames C19_a0 := by
  constructor <;> decide

example : ∃ d, build C19_a0 = .ok d := Except.isOkB_iff.1 (by decide)

/-- header, trailer, a message with a required component, nested components, a group -/
def C19_a1 : Ast Nat :=
  { fields := [{ name := 1, num := 8, type := 0, enums := [] }, { name := 2, num := 35, type := 0, enums := [7, 9] },
               { name := 3, num := 55, type := 0, enums := [] }, { name := 4, num := 453, type := 1, enums := [] },
               { name := 5, num := 448, type := 0, enums := [] }, { name := 6, num := 10, type := 0, enums := [] }]
    comps := [(100, [.field 3 true, .comp 101 false]), (101, [.group 4 false [.field 5 true]])]
    msgs := [(0, [.comp 100 true, .field 2 false]), (7, [.comp 101 true])]
    header := some [.field 1 true]
    trailer := some [.field 6 true] }

theorem C19_a1_wf : WFNames C19_a1 := by
  constructor <;> decide

theorem C19_a1_loads : ∃ d, build C19_a1 = .ok d := Except.isOkB_iff.1 (by decide)

/-- the hypotheses of `C19_loads_wellformed` hold together -/
example : WFNames C19_a1 ∧ ¬ Dangling C19_a1 ∧ acyclicB C19_a1 = true := by
  refine ⟨C19_a1_wf, fun hd => ?_, by decide⟩
  obtain ⟨d, h⟩ := C19_a1_loads
  exact C19_refuses_dangling C19_a1 C19_a1_wf _ _ hd d h

/-- the hypotheses of `C19_group_order` / `C19_fields` / `C19_required` hold together -/
example : ∃ d, buildWith C19_a1 (C19_a1.size + 1) newMessageDef = .ok d ∧
    MsgDef C19_a1 0 [.comp 100 true, .field 2 false] ∧ C19_a1.header = some [.field 1 true] :=
  let ⟨d, h⟩ := C19_a1_loads
  ⟨d, h, by simp [MsgDef, C19_a1], rfl⟩

/-- tag 55 is required in message 0 (through the required component 100), tag 448 is reachable but not required -/
example : Req C19_a1 0 55 ∧ Reach C19_a1 0 448 := by
  have f3 : FieldNum C19_a1 3 55 :=
    ⟨{ name := 3, num := 55, type := 0, enums := [] }, by simp [C19_a1], rfl, rfl⟩
  have f5 : FieldNum C19_a1 5 448 :=
    ⟨{ name := 5, num := 448, type := 0, enums := [] }, by simp [C19_a1], rfl, rfl⟩
  have c100 : CompDef C19_a1 100 [.field 3 true, .comp 101 false] := by simp [CompDef, C19_a1]
  have c101 : CompDef C19_a1 101 [.group 4 false [.field 5 true]] := by simp [CompDef, C19_a1]
  have m0 : MsgDef C19_a1 0 [.comp 100 true, .field 2 false] := by simp [MsgDef, C19_a1]
  exact ⟨⟨_, m0, .comp c100 (.field f3)⟩,
         ⟨_, m0, .comp c100 (.tail (.comp c101 (.inGroup (.field f5))))⟩⟩

/-- a file with an undefined field reference: the hypothesis of `C19_refuses_dangling` is satisfiable -/
def C19_a2 : Ast Nat :=
  { fields := [], comps := [], msgs := [(0, [.field 99 true])], header := none, trailer := none }

example : WFNames C19_a2 ∧ Dangling C19_a2 := by
  refine ⟨by constructor <;> decide, [.field 99 true], by simp [Ast.bodies, C19_a2], fun h => ?_⟩
  cases h with
  | field hf _ =>
    obtain ⟨f, hf, _⟩ := hf
    simp [C19_a2] at hf

/-! # the tree after the `fix:` that refuses circular component references (`buildWithS`, `buildS`) -/

section
variable {ν : Type} [DecidableEq ν]

/-- every dictionary built with the circular-reference check is built, identically, without it -/
theorem C19_checked_is_unchecked (a : Ast ν) (fuel : Nat) (mk : List Part → MDef) (d : Dict ν)
    (h : buildWithS a fuel mk = .ok d) : buildWith a fuel mk = .ok d :=
  buildWithS_ok h

theorem C19_checked_is_unchecked_build (a : Ast ν) (d : Dict ν) (h : buildS a = .ok d) : build a = .ok d :=
  buildWithS_ok h

/-! ## group_order / group_required, fields, required -/

theorem C19_group_order_checked (a : Ast ν) (wf : WFNames a) (fuel : Nat) (d : Dict ν)
    (h : buildWithS a fuel newMessageDef = .ok d) (mt : ν) (ms : List (Member ν)) (hm : MsgDef a mt ms) :
    ∃ m, d.msg? mt = some m ∧ Expands a ms m.flat :=
  C19_group_order a wf fuel d (buildWithS_ok h) mt ms hm

theorem C19_group_order_header_checked (a : Ast ν) (wf : WFNames a) (fuel : Nat) (d : Dict ν)
    (h : buildWithS a fuel newMessageDef = .ok d) (ms : List (Member ν)) (hm : a.header = some ms) :
    ∃ m, d.header = some m ∧ Expands a ms m.flat :=
  C19_group_order_header a wf fuel d (buildWithS_ok h) ms hm

theorem C19_group_order_trailer_checked (a : Ast ν) (wf : WFNames a) (fuel : Nat) (d : Dict ν)
    (h : buildWithS a fuel newMessageDef = .ok d) (ms : List (Member ν)) (hm : a.trailer = some ms) :
    ∃ m, d.trailer = some m ∧ Expands a ms m.flat :=
  C19_group_order_trailer a wf fuel d (buildWithS_ok h) ms hm

theorem C19_fields_checked (a : Ast ν) (wf : WFNames a) (fuel : Nat) (d : Dict ν)
    (h : buildWithS a fuel newMessageDef = .ok d) (mt : ν) (ms : List (Member ν)) (hm : MsgDef a mt ms) :
    ∃ m, d.msg? mt = some m ∧ ∀ t, t ∈ m.tags ↔ Reach a mt t :=
  C19_fields a wf fuel d (buildWithS_ok h) mt ms hm

theorem C19_fields_header_checked (a : Ast ν) (wf : WFNames a) (fuel : Nat) (d : Dict ν)
    (h : buildWithS a fuel newMessageDef = .ok d) (ms : List (Member ν)) (hm : a.header = some ms) :
    ∃ m, d.header = some m ∧ ∀ t, t ∈ m.tags ↔ ReachM a ms t :=
  C19_fields_header a wf fuel d (buildWithS_ok h) ms hm

theorem C19_fields_trailer_checked (a : Ast ν) (wf : WFNames a) (fuel : Nat) (d : Dict ν)
    (h : buildWithS a fuel newMessageDef = .ok d) (ms : List (Member ν)) (hm : a.trailer = some ms) :
    ∃ m, d.trailer = some m ∧ ∀ t, t ∈ m.tags ↔ ReachM a ms t :=
  C19_fields_trailer a wf fuel d (buildWithS_ok h) ms hm

theorem C19_required_checked (a : Ast ν) (wf : WFNames a) (fuel : Nat) (d : Dict ν)
    (h : buildWithS a fuel newMessageDef = .ok d) (mt : ν) (ms : List (Member ν)) (hm : MsgDef a mt ms) :
    ∃ m, d.msg? mt = some m ∧ ∀ t, t ∈ m.reqTags ↔ Req a mt t :=
  C19_required a wf fuel d (buildWithS_ok h) mt ms hm

theorem C19_required_header_checked (a : Ast ν) (wf : WFNames a) (fuel : Nat) (d : Dict ν)
    (h : buildWithS a fuel newMessageDef = .ok d) (ms : List (Member ν)) (hm : a.header = some ms) :
    ∃ m, d.header = some m ∧ ∀ t, t ∈ m.reqTags ↔ ReqM a ms t :=
  C19_required_header a wf fuel d (buildWithS_ok h) ms hm

theorem C19_required_trailer_checked (a : Ast ν) (wf : WFNames a) (fuel : Nat) (d : Dict ν)
    (h : buildWithS a fuel newMessageDef = .ok d) (ms : List (Member ν)) (hm : a.trailer = some ms) :
    ∃ m, d.trailer = some m ∧ ∀ t, t ∈ m.reqTags ↔ ReqM a ms t :=
  C19_required_trailer a wf fuel d (buildWithS_ok h) ms hm

/-! ## refuses_dangling, messages -/

theorem C19_refuses_dangling_checked (a : Ast ν) (wf : WFNames a) (fuel : Nat) (mk : List Part → MDef)
    (hd : Dangling a) : ∀ d, buildWithS a fuel mk ≠ .ok d :=
  fun d h => C19_refuses_dangling a wf fuel mk hd d (buildWithS_ok h)

theorem C19_messages_checked (a : Ast ν) (fuel : Nat) (mk : List Part → MDef) (d : Dict ν)
    (h : buildWithS a fuel mk = .ok d) :
    (∀ mt, mt ∈ d.msgs.map (·.1) ↔ ∃ ms, MsgDef a mt ms) ∧
    d.header.isSome = a.header.isSome ∧ d.trailer.isSome = a.trailer.isSome :=
  C19_messages a fuel mk d (buildWithS_ok h)

/-! ## loads_wellformed: on a file whose components expand, the circular-reference exit is never taken -/

theorem C19_loads_wellformed_checked (a : Ast ν) (wf : WFNames a) (hd : ¬ Dangling a) (hac : acyclicB a = true) :
    ∃ d, buildS a = .ok d := by
  unfold acyclicB at hac
  rw [List.all_eq_true] at hac
  exact buildWithS_loads a wf hd (a.size + 1) (Nat.lt_succ_self _) hac newMessageDef

/-! ## a file with a component that reaches itself is refused — and no budget is exhausted on the way -/

/-- the budget `acyclicB` gives the naive expansion is adequate: a declared component that has a (finite) expansion
    at all expands within `Ast.size + 1` -/
theorem C19_acyclic_budget_adequate (a : Ast ν) (wf : WFNames a) (n : ν) (cms : List (Member ν))
    (hc : CompDef a n cms) (fs : List FDef) (he : Expands a cms fs) :
    (expandSpec a (a.size + 1) cms).isSome = true :=
  expandSpec_comp_adequate wf (c := (n, cms)) hc he

/-- whatever is loaded — by either builder, with any budget and either `NewMessageDef` — has no component
    reaching itself -/
theorem C19_loaded_acyclic (a : Ast ν) (wf : WFNames a) (fuel : Nat) (mk : List Part → MDef) (d : Dict ν)
    (h : buildWith a fuel mk = .ok d ∨ buildWithS a fuel mk = .ok d) : acyclicB a = true := by
  rcases h with h | h
  · exact buildWith_acyclic wf h
  · exact buildWith_acyclic wf (buildWithS_ok h)

/-- (`¬ Dangling a` is not used: it is there to match the monitor's guard of `c09_cyclic_components`) -/
theorem C19_cyclic_refused (a : Ast ν) (wf : WFNames a) (_hd : ¬ Dangling a) (hac : acyclicB a = false) :
    ∀ d, buildS a ≠ .ok d := by
  intro d h
  have := buildWith_acyclic wf (buildWithS_ok h)
  rw [hac] at this; cases this

/-- the `fix:` removes the unbounded recursion: for EVERY file (no hypothesis on names, references or cycles) the
    checked builder stays within the budget `Ast.size + 1` -/
theorem C19_no_overflow (a : Ast ν) : buildS a ≠ .error .overflow :=
  buildWithS_no_overflow a (a.size + 1) (Nat.le_succ _) newMessageDef

theorem C19_no_overflow_fuel (a : Ast ν) (fuel : Nat) (hfuel : a.size ≤ fuel) (mk : List Part → MDef) :
    buildWithS a fuel mk ≠ .error .overflow :=
  buildWithS_no_overflow a fuel hfuel mk

/-- a file with unique names and no undefined reference is refused only for a circular component reference -/
theorem C19_refusal_reason (a : Ast ν) (wf : WFNames a) (hd : ¬ Dangling a) (e : BErr)
    (h : buildS a = .error e) : e = .cycle := by
  rcases buildWithS_error wf hd h with rfl | rfl
  · exact absurd h (C19_no_overflow a)
  · rfl

/-- a file (unique names, no undefined reference) with a component that reaches itself is refused as circular -/
theorem C19_cyclic_refused_cycle (a : Ast ν) (wf : WFNames a) (hd : ¬ Dangling a) (hac : acyclicB a = false) :
    buildS a = .error .cycle := by
  cases h : buildS a with
  | ok d => exact absurd h (C19_cyclic_refused a wf hd hac d)
  | error e => rw [C19_refusal_reason a wf hd e h]

theorem C19_cycle_iff (a : Ast ν) (wf : WFNames a) (hd : ¬ Dangling a) :
    buildS a = .error .cycle ↔ acyclicB a = false := by
  constructor
  · intro h
    cases hac : acyclicB a with
    | false => rfl
    | true =>
      obtain ⟨d, hd'⟩ := C19_loads_wellformed_checked a wf hd hac
      rw [hd'] at h; cases h
  · exact C19_cyclic_refused_cycle a wf hd

/-! ## the monitor accepts the checked model -/

theorem C19_monitor_msg_accepts_checked (a : Ast ν) (wf : WFNames a) (fuel f : Nat) (d : Dict ν)
    (h : buildWithS a fuel newMessageDef = .ok d) (mt : ν) (ms : List (Member ν)) (hm : MsgDef a mt ms) :
    ∃ m, d.msg? mt = some m ∧
      monMsg a f ms { tags := m.tags, req := m.reqTags, fmapOK := true, flat := m.flat } = [] :=
  C19_monitor_msg_accepts a wf fuel f d (buildWithS_ok h) mt ms hm

theorem C19_monitor_load_accepts_checked (a : Ast ν) (wf : WFNames a) (fuel : Nat) (mk : List Part → MDef)
    (d : Dict ν) (h : buildWithS a fuel mk = .ok d) :
    monLoad a (.loaded (d.msgs.map (·.1)) d.header.isSome d.trailer.isSome) = [] :=
  monLoad_loaded_silent wf (buildWithS_ok h)

theorem C19_monitor_refused_accepts_checked (a : Ast ν) (e : BErr) (h : buildS a = .error e) :
    monLoad a .refused = [] := by
  unfold monLoad
  simp only
  split
  · rename_i hwf
    simp only [Bool.and_eq_true, Bool.not_eq_true'] at hwf
    obtain ⟨⟨h1, h2⟩, h3⟩ := hwf
    obtain ⟨d, hd⟩ := C19_loads_wellformed_checked a ((wfNamesB_iff a).1 h1)
      (fun hdg => by rw [(danglingB_iff a).2 hdg] at h2; cases h2) h3
    rw [hd] at h; cases h
  · rfl

end

/-! ## closed witness: two components referring to each other -/

/-- component 1 = [required component 2]; component 2 = [optional component 1]; one field, one message -/
def C19_a4 : Ast Nat :=
  { fields := [{ name := 20, num := 100, type := 0, enums := [] }]
    comps := [(1, [.comp 2 true]), (2, [.comp 1 false])]
    msgs := [(0, [.field 20 true])]
    header := none
    trailer := none }

/-- the fixed tree refuses the file as circular; the unchanged tree recursed until the stack was exhausted -/
theorem C19_cycle_witness :
    buildS C19_a4 = .error .cycle ∧ build C19_a4 = .error .overflow ∧
    WFNames C19_a4 ∧ ¬ Dangling C19_a4 ∧ acyclicB C19_a4 = false := by
  refine ⟨obsErrIs_iff.1 (by decide), obsErrIs_iff.1 (by decide), by constructor <;> decide, fun hd => ?_, by decide⟩
  have := (danglingB_iff C19_a4).2 hd
  revert this
  decide
