import Qfx.Spec.Dict
open Qfx.Dict

theorem C19_placeholder : True := trivial
