/-
  Framer part of C09 ("no bytes from the wire … can crash the engine"), as a fragment for whoever assembles
  Qfx/Props/C09.lean: `import Qfx.Props.C09Framer` there.  Proofs are the C12 ones.
-/
import Qfx.Props.C12
open Qfx Qfx.Framer Qfx.Spec

/-- DESIGN §5 C09 `C09_framer_total`: for every reader (chunks, EOF convention, final error) `readLoop` over the stream
    parser never panics / never issues a zero-length read; it ends with an error value of `ReadMessage`.
    Termination for every finite chunk list is the totality of `framesRead` (well-founded recursion, no fuel). -/
theorem C09_framer_total (rd : Reader) : ∃ c, (framesRead rd).end_ = .err c := C12_ends_with_error rd

theorem C09_framer_no_fault (rd : Reader) (w : String) : (framesRead rd).end_ ≠ .fault w := C12_no_fault_reader rd w

/-- the tree before `fix: jumpLength rejects a BodyLength whose end offset overflows int` did panic:
    the end offset of `9=9223372036854775807` wraps negative and a negative offset faults in `p.buffer[offset:]` -/
theorem C09_framer_orig_witness :
    wrap64 ((15 : Int) + 9223372036854775807) < 0 ∧
    ∀ (d : Bytes) (p : P), findIndexAfterOffset (wrap64 ((15 : Int) + 9223372036854775807)) d p = .fault "slice bounds out of range" :=
  ⟨C12_orig_overflow_witness, fun d p => C12_orig_negative_offset_faults _ C12_orig_overflow_witness d p⟩
