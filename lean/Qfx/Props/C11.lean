/-
  C11 — "Parsing exposes exactly what is on the wire and rejects mis-framed messages".
  Property theorems only.  Theorems quantify over every `Fixes` setting unless they name `Fixes.cur`.
-/
import Qfx.Lemmas.CodecParse
import Qfx.Lemmas.CodecParseD
import Qfx.Lemmas.CodecTotal
import Qfx.Lemmas.CodecBody
import Qfx.Lemmas.CodecXml
import Qfx.Lemmas.CodecDictSegs
import Qfx.Lemmas.CodecDictStack
import Qfx.Lemmas.CodecDictNest
import Qfx.Lemmas.CodecAnyDict
import Qfx.Lemmas.CodecTenWitness
import Qfx.Lemmas.CodecDictItems
import Qfx.Lemmas.CodecScanBridge
import Qfx.Lemmas.CodecScanWitness
import Qfx.Lemmas.CodecDictExample
open Qfx Qfx.Spec

/-- the field extracted from a buffer is exactly the bytes up to and including the first SOH; the rest is what follows -/
theorem C11_extractField_slices (b rem : Bytes) (tv : TagValue) (h : extractField b = (rem, .ok tv)) :
    ∃ e, indexByte b SOH = some e ∧ tv.bytes = b.take (e + 1) ∧ rem = b.drop (e + 1) := by
  unfold extractField at h
  split at h
  · simp at h
  · rename_i e he
    refine ⟨e, he, ?_⟩
    split at h
    · rename_i raw hraw
      simp only [Prod.mk.injEq] at h
      obtain ⟨h1, h2⟩ := h
      unfold sliceR at hraw
      split at hraw
      · injection hraw with hraw
        subst hraw
        unfold TagValue.parse at h2
        repeat (split at h2 <;> try (cases h2; done))
        injection h2 with h2
        subst h2
        exact ⟨by simp, h1.symm⟩
      · cases hraw
    · simp at h
    · simp at h

/-- `extractSpecificField`: success means the extracted field carries the expected tag -/
theorem C11_extractSpecific_tag (fx : Fixes) (t : Tag) (fields : List TagValue) (idx : Nat) (raw : Bytes) (hd : FieldMap)
    (r : List TagValue × Bytes × FieldMap) (h : extractSpecific fx t fields idx raw hd = .ok r) :
    ∃ tv, extractField raw = (r.2.1, .ok tv) ∧ tv.tag = t ∧ r.1 = fields.set idx tv := by
  unfold extractSpecific at h
  split at h
  · split at h
    · cases h
    · cases h
    · rename_i rem tv hex
      split at h
      · cases h
      · rename_i hne
        injection h with h; subst h
        exact ⟨tv, hex, by simpa using hne, rfl⟩
  · split at h <;> cases h

/-- "A message whose first three fields are not 8, 9, 35 in that order … is rejected with an error":
    whenever parsing succeeds (any dictionaries, fixed or unchanged code), the first three extracted fields carry the
    tags 8, 9 and 35, and they are the first three entries of `Message.fields`. -/
theorem C11_rejects_order (fx : Fixes) (d : Dicts) (w : Bytes) (m : Message) (h : parseMessage fx d w = .ok m) :
    ∃ f1 f2 f3 r1 r2 r3, extractField w = (r1, .ok f1) ∧ f1.tag = 8 ∧ extractField r1 = (r2, .ok f2) ∧ f2.tag = 9 ∧
      extractField r2 = (r3, .ok f3) ∧ f3.tag = 35 := by
  simp only [parseMessage] at h
  split at h
  · cases h
  · split at h
    · cases h
    · cases h
    · rename_i f1 r1 h1 e1
      split at h
      · cases h
      · cases h
      · rename_i f2 r2 h2 e2
        split at h
        · cases h
        · cases h
        · rename_i f3 r3 h3 e3
          obtain ⟨t1, x1, y1, _⟩ := C11_extractSpecific_tag _ _ _ _ _ _ _ e1
          obtain ⟨t2, x2, y2, _⟩ := C11_extractSpecific_tag _ _ _ _ _ _ _ e2
          obtain ⟨t3, x3, y3, _⟩ := C11_extractSpecific_tag _ _ _ _ _ _ _ e3
          exact ⟨t1, t2, t3, r1, r2, r3, x1, y1, x2, y2, x3, y3⟩

/-- the length check at the end of `doParsing`: a result is only produced when BodyLength (read through the header
    map) equals the summed length of every field except 8, 9, 10 — or the message carried XMLData -/
theorem C11_finish_checks_length (fields : List TagValue) (c : PCore) (r : List TagValue × PCore)
    (h : finishParse fields c = .ok r) :
    r.1 = fields ∧ ∃ bl, r.2.header.getInt fields 9 = .ok bl ∧ (bl = (fieldsLength fields : Nat) ∨ c.xmlDataMsg = true) := by
  have hx : (finishAdjust c).xmlDataMsg = c.xmlDataMsg := by
    unfold finishAdjust; simp only []; split <;> split <;> rfl
  simp only [finishParse] at h
  split at h
  · rename_i bl hbl
    split at h
    · cases h
    · rename_i hc
      injection h with h; subst h
      refine ⟨rfl, bl, hbl, ?_⟩
      by_cases hxx : c.xmlDataMsg = true
      · exact Or.inr hxx
      · left
        by_cases hne : bl = (fieldsLength fields : Nat)
        · exact hne
        · exfalso; apply hc
          exact ⟨fun e => hne e.symm, by rw [hx]; simpa using hxx⟩
  · cases h
  · cases h

/-- running out of fields succeeds only through the final length check (in `parseGroup`, when the field parsed last is CheckSum) -/
theorem outOfFields_ends (fx : Fixes) (mode : Mode) (fields : List TagValue) (idx : Nat) (c : PCore) (r : List TagValue × PCore)
    (h : outOfFields fx mode fields idx c = .ok r) : ∃ fs c0, finishParse fs c0 = .ok r := by
  unfold outOfFields at h
  split at h
  · cases mode with
    | main => cases h
    | grp dm t g =>
      simp only [] at h
      split at h
      · split at h
        · split at h
          · exact ⟨_, _, h⟩
          · cases h
        · cases h
      · cases h
      · cases h
  · cases h

/-- every successful run of the parse loop (main loop and `parseGroup`, any dictionaries) ends in the final length check -/
theorem C11_loop_ends_in_length_check (fx : Fixes) (d : Dicts) (mode : Mode) (fields : List TagValue) (idx : Nat) (c : PCore)
    (r : List TagValue × PCore) (h : parseLoop fx d mode fields idx c = .ok r) :
    ∃ fs c0, finishParse fs c0 = .ok r := by
  fun_induction parseLoop fx d mode fields idx c
  all_goals (first | (cases h; done) | (exact ⟨_, _, h⟩) | (exact outOfFields_ends _ _ _ _ _ _ h) | (rename_i ih; exact ih h) | (rename_i ih _; exact ih h))

/-- "… or whose BodyLength disagrees with its content, is rejected with an error": whenever parsing succeeds, the
    BodyLength read back from the parsed header equals the summed length of all fields except 8, 9, 10 — unless the
    parser saw XMLData (`xmlDataMsg`), for which the Go code skips the comparison. -/
theorem C11_rejects_length (fx : Fixes) (d : Dicts) (w : Bytes) (m : Message) (h : parseMessage fx d w = .ok m) :
    ∃ bl, m.header.getInt m.fields 9 = .ok bl ∧
      (bl = (fieldsLength m.fields : Nat) ∨ ∃ c0 : PCore, c0.xmlDataMsg = true ∧ (finishParse m.fields c0).isOk = true) := by
  simp only [parseMessage] at h
  split at h
  · cases h
  · split at h
    · cases h
    · cases h
    · split at h
      · cases h
      · cases h
      · split at h
        · cases h
        · cases h
        · split at h
          · cases h
          · cases h
          · rename_i fields c' hl
            injection h with h; subst h
            obtain ⟨fs, c0, hf⟩ := C11_loop_ends_in_length_check _ _ _ _ _ _ _ hl
            obtain ⟨hfs, bl, hbl, hor⟩ := C11_finish_checks_length fs c0 _ hf
            simp only at hfs hbl
            subst hfs
            refine ⟨bl, hbl, ?_⟩
            rcases hor with hor | hor
            · exact Or.inl hor
            · exact Or.inr ⟨c0, hor, by rw [hf]; rfl⟩

/-- FIDELITY (no dictionary).  "For every message that starts with BeginString, BodyLength, MsgType, ends with CheckSum and has a
    correct BodyLength, parsing succeeds, … the field order is preserved for validation, and the message's raw bytes are
    returned unchanged."  For every well-formed wire message `8, 9, 35, pre…, 10` — arbitrary tag texts that `atoi` reads
    (`IsWire`: non-empty, free of `=` and SOH), arbitrary SOH-free values, no further 9 / 10 and no XMLDataLen among `pre` —
    whose BodyLength value is the summed length of all fields but 8, 9, 10: the parse succeeds, `Message.fields` is exactly
    the wire's field list in order, `Bytes()` is the wire.  Holds for the unchanged and the fixed code (`fx` arbitrary). -/
theorem C11_faithful_nodict (fx : Fixes) (t8 t9 t35 : TagValue) (pre : List TagValue) (t10 : TagValue)
    (hw : WireMsg t8 t9 t35 pre t10)
    (hbl : atoi t9.value = .ok ((fieldsLength (t8 :: t9 :: t35 :: (pre ++ [t10])) : Nat) : Int)) :
    ∃ m, parseMessage fx Dicts.none (wireOf (t8 :: t9 :: t35 :: (pre ++ [t10]))) = .ok m ∧
      m.fields = t8 :: t9 :: t35 :: (pre ++ [t10]) ∧
      m.bytes fx = .ok (wireOf (t8 :: t9 :: t35 :: (pre ++ [t10])), m) :=
  ⟨_, parse_wire_nodict fx t8 t9 t35 pre t10 hw hbl, rfl, rfl⟩

/-- RETRIEVABILITY (no dictionary).  "every field is retrievable from the section its tag belongs to with exactly its wire
    value": in the message parsed from such a wire, every field whose tag occurs once on the wire is returned by `GetBytes`
    on the section of its tag (header for `IsHeader` tags, trailer for `IsTrailer` tags, body otherwise) with its wire value. -/
theorem C11_retrievable_nodict (fx : Fixes) (t8 t9 t35 : TagValue) (pre : List TagValue) (t10 : TagValue)
    (hw : WireMsg t8 t9 t35 pre t10)
    (hbl : atoi t9.value = .ok ((fieldsLength (t8 :: t9 :: t35 :: (pre ++ [t10])) : Nat) : Int))
    (j : Nat) (tv : TagValue) (hj : (t8 :: t9 :: t35 :: (pre ++ [t10]))[j]? = some tv)
    (huniq : ∀ j' tv', (t8 :: t9 :: t35 :: (pre ++ [t10]))[j']? = some tv' → j' ≠ j → tv'.tag ≠ tv.tag) :
    ∃ m, parseMessage fx Dicts.none (wireOf (t8 :: t9 :: t35 :: (pre ++ [t10]))) = .ok m ∧
      (m.sec (secOf Dicts.none tv.tag)).getBytes m.fields tv.tag = .ok tv.value := by
  refine ⟨_, parse_wire_nodict fx t8 t9 t35 pre t10 hw hbl, ?_⟩
  have hfind := ndFinal_find t8 t9 t35 pre t10 hw j tv hj huniq
  rw [secOf_none]
  have hsec : ∀ s, (ndMessage t8 t9 t35 pre t10).sec s = (ndFinal t8 t9 t35 pre t10).sec s := by
    intro s; cases s <;> rfl
  rw [hsec]
  exact getBytes_view _ _ _ j tv hfind hj

/-- FIDELITY AND RETRIEVABILITY WITH DICTIONARIES (application dictionary, or transport + application dictionaries), for
    messages none of whose fields starts a repeating group under the application dictionary (`NoGroupTag`: the dictionary
    lists no member fields under that tag, for any message type) — e.g. every message whose fields are plain fields of the
    dictionary or unknown to it.  Header / trailer membership then comes from `IsHeader` / `IsTrailer` AND the transport
    dictionary (`secOf d`); the transport dictionary must not list CheckSum in its header.  The parse succeeds, `Message.fields`
    is the wire's field list in order, `Bytes()` is the wire, and every field with a unique tag is returned by `GetBytes`
    from the section `secOf d` assigns to its tag. -/
theorem C11_faithful_dict_nogroups (fx : Fixes) (d : Dicts) (t8 t9 t35 : TagValue) (pre : List TagValue) (t10 : TagValue)
    (hw : WireMsg t8 t9 t35 pre t10)
    (hbl : atoi t9.value = .ok ((fieldsLength (t8 :: t9 :: t35 :: (pre ++ [t10])) : Nat) : Int))
    (hng : ∀ tv ∈ pre, NoGroupTag d tv.tag) (hng10 : NoGroupTag d 10) (hh10 : isHeaderField d 10 = false) :
    ∃ m, parseMessage fx d (wireOf (t8 :: t9 :: t35 :: (pre ++ [t10]))) = .ok m ∧
      m.fields = t8 :: t9 :: t35 :: (pre ++ [t10]) ∧
      m.bytes fx = .ok (wireOf (t8 :: t9 :: t35 :: (pre ++ [t10])), m) ∧
      ∀ (j : Nat) (tv : TagValue), (t8 :: t9 :: t35 :: (pre ++ [t10]))[j]? = some tv →
        (∀ j' tv', (t8 :: t9 :: t35 :: (pre ++ [t10]))[j']? = some tv' → j' ≠ j → tv'.tag ≠ tv.tag) →
        (m.sec (secOf d tv.tag)).getBytes m.fields tv.tag = .ok tv.value := by
  refine ⟨_, parse_wire_D fx t8 t9 t35 pre t10 hw hbl hng hng10 hh10, rfl, rfl, ?_⟩
  intro j tv hj huniq
  have hfind := ndFinalD_find (d := d) t8 t9 t35 pre t10 hw j tv hj huniq
  have hsec : ∀ s, (ndMessageD d t8 t9 t35 pre t10).sec s = (ndFinalD d t8 t9 t35 pre t10).sec s := by
    intro s; cases s <;> rfl
  rw [hsec]
  exact getBytes_view _ _ _ j tv hfind hj

/-- FIDELITY UNDER ANY DICTIONARIES WHATSOEVER, EVERY WELL-FORMED WIRE MESSAGE (fixed code; the corrected `C11_faithful_full`).
    `d` is arbitrary — no dictionary, an application dictionary, transport + application dictionaries, repeating groups of any depth,
    adjacent groups, groups followed by header or trailer fields, user-defined header/trailer tags, fields unknown to the dictionary,
    duplicated tags, a MsgType the dictionary does not know, even a dictionary that lists CheckSum inside a group.  For every wire message
    `8, 9, 35, pre…, 10` (`WireMsg`: tag texts that `atoi` reads, SOH-free values, no further field whose NUMERIC tag is 9 / 10 / 212,
    BodyLength = Σ field lengths) the parse succeeds, `Message.fields` is exactly the wire's field list in order and `Bytes()` returns
    the wire.  (A loop invariant that does not depend on what the dictionaries make of the fields: `wire_step`, `wire_loop` in
    Lemmas/CodecAnyDict.lean.) -/
theorem C11_faithful_anydict (d : Dicts) (t8 t9 t35 : TagValue) (pre : List TagValue) (t10 : TagValue)
    (hw : WireMsg t8 t9 t35 pre t10)
    (hbl : atoi t9.value = .ok ((fieldsLength (t8 :: t9 :: t35 :: (pre ++ [t10])) : Nat) : Int)) :
    ∃ m, parseMessage Fixes.cur d (wireOf (t8 :: t9 :: t35 :: (pre ++ [t10]))) = .ok m ∧
      m.fields = t8 :: t9 :: t35 :: (pre ++ [t10]) ∧
      m.bytes Fixes.cur = .ok (wireOf (t8 :: t9 :: t35 :: (pre ++ [t10])), m) := by
  obtain ⟨c', h⟩ := parse_wire_anydict (d := d) t8 t9 t35 pre t10 hw hbl
  exact ⟨_, h, rfl, rfl⟩

/-- WHAT "THE SECTION ITS TAG BELONGS TO" CANNOT PROMISE UNDER AN ARBITRARY DICTIONARY: under the dictionary `tenD` — message type D with
    a repeating group 453 whose members are 448 and CheckSum (10) — the well-formed message `8=F 9=17 35=D 453=1 448=a 10=000` parses
    with all its fields, but `parseGroup` takes `10=` for a member of the group: the body's field for 453 covers `453=1 448=a 10=000` and
    the TRAILER HAS NO CheckSum.  (`parseGroup` runs out of fields, adds the group to the body and returns; `doParsing` ends its loop
    because the field parsed last is CheckSum; before the fix of D2 the same input indexed past the field array.)  This path was found
    by the codec family replaying this witness on the real parser (`junk.checksum-member`, dictionary `@TEN` loaded by
    `datadictionary.Parse`): the model used to answer "message ends without CheckSum" there and was corrected (`outOfFields`). -/
theorem C11_checksum_member_swallowed :
    ∃ (d : Dicts) (t8 t9 t35 : TagValue) (pre : List TagValue) (t10 : TagValue) (m : Message),
      WireMsg t8 t9 t35 pre t10 ∧ atoi t9.value = .ok ((fieldsLength (t8 :: t9 :: t35 :: (pre ++ [t10])) : Nat) : Int) ∧
      parseMessage Fixes.cur d (wireOf (t8 :: t9 :: t35 :: (pre ++ [t10]))) = .ok m ∧
      m.fields = t8 :: t9 :: t35 :: (pre ++ [t10]) ∧ alFind m.trailer.lookup 10 = none ∧
      alFind m.body.lookup 453 = some (.view 3 3) := by
  obtain ⟨m, h1, h2, h3, h4⟩ := ten_swallowed
  exact ⟨tenD, w8, w9, w35, [w453, w448], w10, m, ten_wireMsg, ten_bodyLength, h1, h2, h3, h4⟩

/-- WITH DICTIONARIES, MESSAGES WITH ANY NUMBER OF REPEATING GROUPS (fixed code): the wire
    `8, 9, 35, (plain…, G=<n>, <members>, z)…, plain…, 10` — every run `Seg` = plain fields, the count field of a group `G` of the
    message type, its member fields in any arrangement of two nesting levels (`Walk2`), a plain body field `z` behind it that belongs to
    no level of the group — parses; `Message.fields` is the wire's field list in order (members included), `Bytes()` is the wire, and every
    group whose tag is not set again later is found in the body as the field holding exactly its count field and member fields. -/
theorem C11_faithful_dict_groups (d : Dicts) (mt : Bytes) (t8 t9 t35 t10 : TagValue) (segs : List Seg) (post : List TagValue)
    (hw8 : IsWire t8) (hw9 : IsWire t9) (hw35 : IsWire t35) (hw10 : IsWire t10)
    (h8 : t8.tag = 8) (h9 : t9.tag = 9) (h35 : t35.tag = 35) (h10 : t10.tag = 10) (hv : t35.value = mt)
    (hsegs : ∀ s ∈ segs, SegOK d mt s) (hpost : PlainFields d post)
    (hng10 : NoGroupTag d 10) (hh10 : isHeaderField d 10 = false)
    (hbl : atoi t9.value = .ok ((fieldsLength (t8 :: t9 :: t35 :: (segs.flatMap Seg.flat ++ (post ++ [t10]))) : Nat) : Int)) :
    ∃ m, parseMessage Fixes.cur d (wireOf (t8 :: t9 :: t35 :: (segs.flatMap Seg.flat ++ (post ++ [t10])))) = .ok m ∧
      m.fields = t8 :: t9 :: t35 :: (segs.flatMap Seg.flat ++ (post ++ [t10])) ∧
      m.bytes Fixes.cur = .ok (wireOf (t8 :: t9 :: t35 :: (segs.flatMap Seg.flat ++ (post ++ [t10]))), m) ∧
      ∀ (A : List Seg) (s : Seg) (B : List Seg), segs = A ++ s :: B →
        (∀ tv ∈ s.z0 :: (B.flatMap Seg.adds ++ post), tv.tag ≠ s.g0.tag) →
        ∃ f, alFind m.body.lookup s.g0.tag = some f ∧ f.items m.fields = s.g0 :: s.M := by
  obtain ⟨m, hparse, hfields, hraw, hgrp⟩ := parse_dict_segs (d := d) t8 t9 t35 t10 segs post hw8 hw9 hw35 hw10 h8 h9 h35 h10 hv hsegs hpost
    hng10 hh10 hbl
  refine ⟨m, hparse, hfields, by simp [Message.bytes, hraw], ?_⟩
  intro A s B hsplit huniq
  refine ⟨_, hgrp A s B hsplit huniq, ?_⟩
  rw [hfields, hsplit]
  have hL : t8 :: t9 :: t35 :: ((A ++ s :: B).flatMap Seg.flat ++ (post ++ [t10])) =
      (t8 :: t9 :: t35 :: (A.flatMap Seg.flat ++ s.pre)) ++ ((s.g0 :: s.M) ++ (s.z0 :: (B.flatMap Seg.flat ++ (post ++ [t10])))) := by
    simp [Seg.flat, List.flatMap_append]
  have e : 3 + (A.flatMap Seg.flat).length + s.pre.length = (t8 :: t9 :: t35 :: (A.flatMap Seg.flat ++ s.pre)).length := by
    simp; omega
  have e2 : 1 + s.M.length = (s.g0 :: s.M).length := by simp; omega
  simp only [Field.items]
  rw [hL, e, List.drop_left, e2, List.take_left]

/-- THE SAME FOR REPEATING GROUPS WITH NESTED GROUPS OF ANY DEPTH (fixed code): `fs` the application dictionary's field list of the
    message type (`AppMsg`); every run (`SegOKN`) = plain fields, the count field of a group of `fs`, member fields that move the
    parser's tag stack as `stepSpec` says — stay, push a nested group, pop to the enclosing level that lists the tag (any number of levels,
    the D6 pop), pop and push (`WalkN`) —, and a plain body field `z` that no level of the stack lists.  The parse succeeds,
    `Message.fields` = the wire's field list, `Bytes()` = the wire, every group whose tag is not set again later is in the body as exactly
    its count field and all its member fields, and every such `z` whose tag is not set again later is returned by `Body.GetBytes`. -/
theorem C11_faithful_dict_groups_anydepth (d : Dicts) (mt : Bytes) (fs : List DNode) (ha : AppMsg d mt fs)
    (t8 t9 t35 t10 : TagValue) (segs : List Seg) (post : List TagValue)
    (hw8 : IsWire t8) (hw9 : IsWire t9) (hw35 : IsWire t35) (hw10 : IsWire t10)
    (h8 : t8.tag = 8) (h9 : t9.tag = 9) (h35 : t35.tag = 35) (h10 : t10.tag = 10) (hv : t35.value = mt)
    (hsegs : ∀ s ∈ segs, SegOKN d mt fs s) (hpost : PlainFields d post)
    (hng10 : NoGroupTag d 10) (hh10 : isHeaderField d 10 = false)
    (hbl : atoi t9.value = .ok ((fieldsLength (t8 :: t9 :: t35 :: (segs.flatMap Seg.flat ++ (post ++ [t10]))) : Nat) : Int)) :
    ∃ m, parseMessage Fixes.cur d (wireOf (t8 :: t9 :: t35 :: (segs.flatMap Seg.flat ++ (post ++ [t10])))) = .ok m ∧
      m.fields = t8 :: t9 :: t35 :: (segs.flatMap Seg.flat ++ (post ++ [t10])) ∧
      m.bytes Fixes.cur = .ok (wireOf (t8 :: t9 :: t35 :: (segs.flatMap Seg.flat ++ (post ++ [t10]))), m) ∧
      (∀ (A : List Seg) (s : Seg) (B : List Seg), segs = A ++ s :: B →
        (∀ tv ∈ s.z0 :: (B.flatMap Seg.adds ++ post), tv.tag ≠ s.g0.tag) →
        ∃ f, alFind m.body.lookup s.g0.tag = some f ∧ f.items m.fields = s.g0 :: s.M) ∧
      (∀ (A : List Seg) (s : Seg) (B : List Seg), segs = A ++ s :: B →
        (∀ tv ∈ B.flatMap Seg.adds ++ post, tv.tag ≠ s.z0.tag) → m.body.getBytes m.fields s.z0.tag = .ok s.z0.value) := by
  obtain ⟨m, hparse, hfields, hraw, hgrp, hzf⟩ := parse_dict_segsN (d := d) ha t8 t9 t35 t10 segs post hw8 hw9 hw35 hw10 h8 h9 h35 h10 hv
    hsegs hpost hng10 hh10 hbl
  refine ⟨m, hparse, hfields, by simp [Message.bytes, hraw], ?_, ?_⟩
  · intro A s B hsplit huniq
    refine ⟨_, hgrp A s B hsplit huniq, ?_⟩
    rw [hfields, hsplit]
    have hL : t8 :: t9 :: t35 :: ((A ++ s :: B).flatMap Seg.flat ++ (post ++ [t10])) =
        (t8 :: t9 :: t35 :: (A.flatMap Seg.flat ++ s.pre)) ++ ((s.g0 :: s.M) ++ (s.z0 :: (B.flatMap Seg.flat ++ (post ++ [t10])))) := by
      simp [Seg.flat, List.flatMap_append]
    have e : 3 + (A.flatMap Seg.flat).length + s.pre.length = (t8 :: t9 :: t35 :: (A.flatMap Seg.flat ++ s.pre)).length := by
      simp; omega
    have e2 : 1 + s.M.length = (s.g0 :: s.M).length := by simp; omega
    simp only [Field.items]
    rw [hL, e, List.drop_left, e2, List.take_left]
  · intro A s B hsplit huniq
    apply getBytes_view _ _ _ _ s.z0 (hzf A s B hsplit huniq)
    rw [hfields, hsplit]
    have hL : t8 :: t9 :: t35 :: ((A ++ s :: B).flatMap Seg.flat ++ (post ++ [t10])) =
        (t8 :: t9 :: t35 :: (A.flatMap Seg.flat ++ (s.pre ++ s.g0 :: s.M))) ++ (s.z0 :: (B.flatMap Seg.flat ++ (post ++ [t10]))) := by
      simp [Seg.flat, List.flatMap_append]
    rw [hL, List.getElem?_append_right (by simp; omega)]
    have : 3 + (A.flatMap Seg.flat).length + s.pre.length + 1 + s.M.length -
        (t8 :: t9 :: t35 :: (A.flatMap Seg.flat ++ (s.pre ++ s.g0 :: s.M))).length = 0 := by simp; omega
    rw [this]; rfl

/-- THE SAME WITH THE RUNS DESCRIBED FROM THE DICTIONARY ALONE (`SegNested`): the member fields of every group are WELL NESTED w.r.t. the
    dictionary (`GroupWalk`: leaf members of the level, count fields of groups nested in it each followed by a well-nested sequence for
    that group — entries, delimiters and member order are free), the dictionary tree under the group lists no tag at two levels of one
    branch and none that is a header / trailer field or a top-level group (`TreeOK`), and the field behind the group is listed nowhere in
    that tree.  No reference to the parser's stack moves: `groupWalk_walkN` shows the fixed `parseGroup` walks such a sequence along
    its nesting. -/
theorem C11_faithful_dict_wellnested (d : Dicts) (mt : Bytes) (fs : List DNode) (ha : AppMsg d mt fs)
    (t8 t9 t35 t10 : TagValue) (segs : List Seg) (post : List TagValue)
    (hw8 : IsWire t8) (hw9 : IsWire t9) (hw35 : IsWire t35) (hw10 : IsWire t10)
    (h8 : t8.tag = 8) (h9 : t9.tag = 9) (h35 : t35.tag = 35) (h10 : t10.tag = 10) (hv : t35.value = mt)
    (hsegs : ∀ s ∈ segs, SegNested d fs s) (hpost : PlainFields d post)
    (hng10 : NoGroupTag d 10) (hh10 : isHeaderField d 10 = false)
    (hbl : atoi t9.value = .ok ((fieldsLength (t8 :: t9 :: t35 :: (segs.flatMap Seg.flat ++ (post ++ [t10]))) : Nat) : Int)) :
    ∃ m, parseMessage Fixes.cur d (wireOf (t8 :: t9 :: t35 :: (segs.flatMap Seg.flat ++ (post ++ [t10])))) = .ok m ∧
      m.fields = t8 :: t9 :: t35 :: (segs.flatMap Seg.flat ++ (post ++ [t10])) ∧
      m.bytes Fixes.cur = .ok (wireOf (t8 :: t9 :: t35 :: (segs.flatMap Seg.flat ++ (post ++ [t10]))), m) ∧
      (∀ (A : List Seg) (s : Seg) (B : List Seg), segs = A ++ s :: B →
        (∀ tv ∈ s.z0 :: (B.flatMap Seg.adds ++ post), tv.tag ≠ s.g0.tag) →
        ∃ f, alFind m.body.lookup s.g0.tag = some f ∧ f.items m.fields = s.g0 :: s.M) ∧
      (∀ (A : List Seg) (s : Seg) (B : List Seg), segs = A ++ s :: B →
        (∀ tv ∈ B.flatMap Seg.adds ++ post, tv.tag ≠ s.z0.tag) → m.body.getBytes m.fields s.z0.tag = .ok s.z0.value) :=
  C11_faithful_dict_groups_anydepth d mt fs ha t8 t9 t35 t10 segs post hw8 hw9 hw35 hw10 h8 h9 h35 h10 hv
    (fun s hs => (hsegs s hs).ok) hpost hng10 hh10 hbl

/-- THE SECTION MAPS UNDER DICTIONARIES, ANY ARRANGEMENT OF PLAIN FIELDS AND REPEATING GROUPS (the corrected `C11_retrievable_full` with
    dictionaries; fixed code).  `fs` = the application dictionary's field list of the message type; the message is `8, 9, 35, items…, 10`
    where `items` is ANY sequence (`ItemsN`, described from the dictionaries alone) of
      * plain fields (tag ≠ 9, 10, 35, 212; not the count field of a group), and
      * repeating groups of `fs`: count field + member fields that are well nested w.r.t. the dictionary (`GroupWalk`, any depth) over a
        tag-disjoint tree (`TreeOK`),
    a group being followed by ANYTHING whose tag its dictionary tree does not list: a plain body field, a HEADER or TRAILER field — built-in
    or defined by the TRANSPORT dictionary only (user-defined tags; this is where the seeded change C11-m1 lives) —, DIRECTLY the count
    field of another group, or CheckSum.  Then the parse succeeds, `Message.fields` = the wire's fields, `Bytes()` = the wire, and the three
    section maps are EXACTLY the additions in wire order (`itmAdds`): every plain field added to the section `secOf d` assigns its tag
    (transport dictionary ∪ built-in lists) as a one-field view, every group added to the body as ONE view over its count field and all its
    member fields, CheckSum to the trailer; the member fields add nothing. -/
theorem C11_sections_dict_items (d : Dicts) (mt : Bytes) (fs : List DNode) (ha : AppMsg d mt fs)
    (t8 t9 t35 t10 : TagValue) (items : List Itm) (s' : Option (List DNode))
    (hw8 : IsWire t8) (hw9 : IsWire t9) (hw35 : IsWire t35) (hw10 : IsWire t10)
    (h8 : t8.tag = 8) (h9 : t9.tag = 9) (h35 : t35.tag = 35) (h10 : t10.tag = 10) (hv : t35.value = mt)
    (hok : ItemsN d fs none items s') (hclose : ClosesN s') (hh10 : isHeaderField d 10 = false)
    (hbl : atoi t9.value = .ok ((fieldsLength (t8 :: t9 :: t35 :: (flatItms items ++ [t10])) : Nat) : Int)) :
    ∃ m, parseMessage Fixes.cur d (wireOf (t8 :: t9 :: t35 :: (flatItms items ++ [t10]))) = .ok m ∧
      m.fields = t8 :: t9 :: t35 :: (flatItms items ++ [t10]) ∧
      m.bytes Fixes.cur = .ok (wireOf (t8 :: t9 :: t35 :: (flatItms items ++ [t10])), m) ∧
      ∀ s, m.sec s = applyAdds s (itmAdds d 3 items ++ [(Sec.t, 10, Field.view (3 + (flatItms items).length) 1)]) (initSec t8 t9 t35 s) := by
  obtain ⟨so', hok', hso'⟩ := itemsN_ok hok none trivial
  obtain ⟨m, h1, h2, h3, h4⟩ := parse_dict_items (d := d) ha t8 t9 t35 t10 items so' hw8 hw9 hw35 hw10 h8 h9 h35 h10 hv hok'
    (closesN_ok hclose hso') hh10 hbl
  exact ⟨m, h1, h2, by simp [Message.bytes, h3], h4⟩

/-- RETRIEVABILITY, from the above: (a) a plain field at wire position `3 + |A|` is returned by `GetBytes` from the section of its tag with its
    wire value, provided nothing later is added under the same tag to the same section (a later plain field with that tag in that
    section, or — for body tags — a later group with that tag); (b) a group is found in the body as the field holding exactly its count
    field and all its member fields, under the same proviso. -/
theorem C11_retrievable_dict_items (d : Dicts) (mt : Bytes) (fs : List DNode) (ha : AppMsg d mt fs)
    (t8 t9 t35 t10 : TagValue) (items : List Itm) (s' : Option (List DNode))
    (hw8 : IsWire t8) (hw9 : IsWire t9) (hw35 : IsWire t35) (hw10 : IsWire t10)
    (h8 : t8.tag = 8) (h9 : t9.tag = 9) (h35 : t35.tag = 35) (h10 : t10.tag = 10) (hv : t35.value = mt)
    (hok : ItemsN d fs none items s') (hclose : ClosesN s') (hh10 : isHeaderField d 10 = false)
    (hbl : atoi t9.value = .ok ((fieldsLength (t8 :: t9 :: t35 :: (flatItms items ++ [t10])) : Nat) : Int)) :
    ∃ m, parseMessage Fixes.cur d (wireOf (t8 :: t9 :: t35 :: (flatItms items ++ [t10]))) = .ok m ∧
      (∀ (A B : List Itm) (tv : TagValue), items = A ++ .plain tv :: B → tv.tag ≠ 10 →
        (∀ a ∈ itmAdds d (3 + (flatItms A).length + 1) B, ¬ (a.1 = secOf d tv.tag ∧ a.2.1 = tv.tag)) →
        (m.sec (secOf d tv.tag)).getBytes m.fields tv.tag = .ok tv.value) ∧
      (∀ (A B : List Itm) (g0 : TagValue) (M : List TagValue), items = A ++ .group g0 M :: B → g0.tag ≠ 10 →
        (∀ a ∈ itmAdds d (3 + (flatItms A).length + 1 + M.length) B, ¬ (a.1 = Sec.b ∧ a.2.1 = g0.tag)) →
        ∃ f, alFind m.body.lookup g0.tag = some f ∧ f.items m.fields = g0 :: M) := by
  obtain ⟨m, h1, h2, _, h4⟩ := C11_sections_dict_items d mt fs ha t8 t9 t35 t10 items s' hw8 hw9 hw35 hw10 h8 h9 h35 h10 hv hok hclose hh10 hbl
  refine ⟨m, h1, ?_, ?_⟩
  · intro A B tv hsplit hn10 hlater
    have hadds : itmAdds d 3 items ++ [(Sec.t, (10 : Tag), Field.view (3 + (flatItms items).length) 1)] =
        itmAdds d 3 A ++ (secOf d tv.tag, tv.tag, Field.view (3 + (flatItms A).length) 1) ::
          (itmAdds d (3 + (flatItms A).length + 1) B ++ [(Sec.t, (10 : Tag), Field.view (3 + (flatItms items).length) 1)]) := by
      rw [hsplit, itmAdds_append]; simp [itmAdds, List.append_assoc]
    have hfind : alFind (m.sec (secOf d tv.tag)).lookup tv.tag = some (.view (3 + (flatItms A).length) 1) := by
      rw [h4, hadds]
      apply applyAdds_find_last
      intro a ha'
      simp only [List.mem_append, List.mem_singleton] at ha'
      rcases ha' with e | e
      · exact hlater a e
      · subst e; intro h; exact hn10 h.2.symm
    apply getBytes_view _ _ _ _ tv hfind
    rw [h2, hsplit]
    have hL : t8 :: t9 :: t35 :: (flatItms (A ++ .plain tv :: B) ++ [t10]) =
        (t8 :: t9 :: t35 :: flatItms A) ++ tv :: (flatItms B ++ [t10]) := by
      simp [flatItms, Itm.flat, List.flatMap_append]
    rw [hL, List.getElem?_append_right (by simp; omega)]
    have : 3 + (flatItms A).length - (t8 :: t9 :: t35 :: flatItms A).length = 0 := by simp; omega
    rw [this]; rfl
  · intro A B g0 M hsplit hn10 hlater
    have hadds : itmAdds d 3 items ++ [(Sec.t, (10 : Tag), Field.view (3 + (flatItms items).length) 1)] =
        itmAdds d 3 A ++ (Sec.b, g0.tag, Field.view (3 + (flatItms A).length) (1 + M.length)) ::
          (itmAdds d (3 + (flatItms A).length + 1 + M.length) B ++ [(Sec.t, (10 : Tag), Field.view (3 + (flatItms items).length) 1)]) := by
      rw [hsplit, itmAdds_append]; simp [itmAdds, List.append_assoc]
    have hfind : alFind (m.sec .b).lookup g0.tag = some (.view (3 + (flatItms A).length) (1 + M.length)) := by
      rw [h4, hadds]
      apply applyAdds_find_last
      intro a ha'
      simp only [List.mem_append, List.mem_singleton] at ha'
      rcases ha' with e | e
      · exact hlater a e
      · subst e; intro h; cases h.1
    refine ⟨_, hfind, ?_⟩
    rw [h2, hsplit]
    have hL : t8 :: t9 :: t35 :: (flatItms (A ++ .group g0 M :: B) ++ [t10]) =
        (t8 :: t9 :: t35 :: flatItms A) ++ ((g0 :: M) ++ (flatItms B ++ [t10])) := by
      simp [flatItms, Itm.flat, List.flatMap_append]
    have e : 3 + (flatItms A).length = (t8 :: t9 :: t35 :: flatItms A).length := by simp; omega
    have e2 : 1 + M.length = (g0 :: M).length := by simp; omega
    simp only [Field.items]
    rw [hL, e, List.drop_left, e2, List.take_left]

/-! non-vacuity of `SegOKN` (three nesting levels, a pop over two levels): Qfx/Lemmas/CodecDictExample.lean -/
example := @exSegOKN
example := @exSegNested
/-! non-vacuity of `ItemsN`: a three-level group, DIRECTLY another group, DIRECTLY a user-defined trailer tag of the transport dictionary -/
example := @exItemsN

/-! non-vacuity of `SegOK` (a run with a two-entry NoPartyIDs group, nested NoPartySubIDs): Qfx/Lemmas/CodecDictExample.lean -/
example := @exSegOK

/-- `bodyBytes` (what the resend rebuild `buildWithBodyBytes` re-emits; byte layer of C03): for a wire message whose fields come as
    8, 9, 35, further header fields (at least one), body fields (at least one), trailer fields, 10 — parsed without dictionary —
    `Message.bodyBytes` is exactly the bytes of the body fields: it starts behind the last header field and ends in front of
    the first trailer field / CheckSum. -/
theorem C11_bodyBytes_nodict (fx : Fixes) (t8 t9 t35 t10 : TagValue) (H B T : List TagValue)
    (hw : WireMsg t8 t9 t35 (H ++ (B ++ T)) t10)
    (hbl : atoi t9.value = .ok ((fieldsLength (t8 :: t9 :: t35 :: ((H ++ (B ++ T)) ++ [t10])) : Nat) : Int))
    (hH : ∀ tv ∈ H, secOf Dicts.none tv.tag = .h) (hHne : H ≠ []) (hB : ∀ tv ∈ B, secOf Dicts.none tv.tag = .b) (hBne : B ≠ [])
    (hT : ∀ tv ∈ T, secOf Dicts.none tv.tag = .t) :
    ∃ m, parseMessage fx Dicts.none (wireOf (t8 :: t9 :: t35 :: ((H ++ (B ++ T)) ++ [t10]))) = .ok m ∧ m.bodyBytes = wireOf B := by
  refine ⟨_, parse_wire_nodict fx t8 t9 t35 _ t10 hw hbl, ?_⟩
  apply ndMessage_bodyBytes t8 t9 t35 t10 H B T hw.tag10
  · intro tv h; rw [← secOf_none]; exact hH tv h
  · exact hHne
  · intro tv h; rw [← secOf_none]; exact hB tv h
  · exact hBne
  · intro tv h
    obtain ⟨tt, hne, _, _, hb, _⟩ := (hw.wpre tv (by simp [h])).1
    rw [hb]; simp
  · intro tv h; rw [← secOf_none]; exact hT tv h

/-- XMLData CARRIED WITH ITS LENGTH ("including XMLData carried with its length").  For every wire message
    `8, 9, 35, plain…, 212=<n>, 213=<data>, plain…, 10` in which `data` is ANY `n > 0` bytes (SOH, `=`, anything), with any
    dictionaries under which the plain fields start no group: the parse succeeds, `Message.fields` is the wire's field list in
    order — the 213 field with exactly the `n` data bytes as its value — followed by one unused (zero) entry per SOH byte inside
    the data (Go sizes the array by counting SOH), and `Bytes()` is the wire.  (For such messages Go skips the BodyLength
    comparison; BodyLength only has to be an integer.) -/
theorem C11_faithful_xml (fx : Fixes) (d : Dicts) (t8 t9 t35 x212 x213 t10 : TagValue) (preA postB : List TagValue) (bl : Int)
    (hw8 : IsWire t8) (hw9 : IsWire t9) (hw35 : IsWire t35) (hw10 : IsWire t10)
    (h8 : t8.tag = 8) (h9 : t9.tag = 9) (h35 : t35.tag = 35) (h10 : t10.tag = 10)
    (hpre : PlainFields d preA) (hpost : PlainFields d postB)
    (hw212 : IsWire x212) (h212 : x212.tag = 212) (hlen : atoi x212.value = .ok (x213.value.length : Int)) (hpos : 0 < x213.value.length)
    (hw213 : IsXmlWire x213) (h213 : x213.tag = 213)
    (hng10 : NoGroupTag d 10) (hh10 : isHeaderField d 10 = false) (hbl : atoi t9.value = .ok bl) :
    ∃ m, parseMessage fx d (wireOf (t8 :: t9 :: t35 :: (preA ++ x212 :: x213 :: (postB ++ [t10])))) = .ok m ∧
      m.fields = t8 :: t9 :: t35 :: (preA ++ x212 :: x213 :: (postB ++ [t10])) ++ List.replicate (countByte x213.value SOH) TagValue.zero ∧
      m.raw = some (wireOf (t8 :: t9 :: t35 :: (preA ++ x212 :: x213 :: (postB ++ [t10])))) :=
  parse_xml fx t8 t9 t35 x212 x213 t10 preA postB bl hw8 hw9 hw35 hw10 h8 h9 h35 h10 hpre hpost hw212 h212 hlen hpos hw213 h213 hng10 hh10 hbl

/-- PANIC FREEDOM OF THE PARSER (codec part of C09; `C09_parse_total` of DESIGN §5).  After the fixes of D2 and D3, for EVERY
    byte string and EVERY dictionaries (transport and application, any content), `ParseMessageWithDataDictionary` into a
    fresh message returns a message or an error: none of the Go index / slice expressions of `doParsing`, `parseGroup`,
    `extractField`, `extractXMLDataField`, `TagValue.parse`, `atoi`, the header lookups (`getIntNoLock` of 9 / 212,
    `msgTypeNoLock`) is ever out of range.  On the unchanged code the statement is false (C11_orig_no_checksum_faults,
    C11_orig_xml_len_faults). -/
theorem C11_parse_total (d : Dicts) (w : Bytes) : ∀ x, parseMessage Fixes.cur d w ≠ .fault x :=
  parseMessage_nofault d w

/-- GETTERS ON A PARSED MESSAGE NEVER PANIC (`C09_getters_total`, codec part).  In every message the fixed parser returns —
    any input, any dictionaries — each section map holds only non-empty views inside `Message.fields`; hence `GetBytes`,
    `GetInt` and `GetGroup` (any template, any nesting) on any section and any tag return a value or an error, never an
    index / slice fault. -/
theorem C11_getters_total (d : Dicts) (w : Bytes) (m : Message) (hm : parseMessage Fixes.cur d w = .ok m) (s : Sec) (t : Tag) :
    (∀ x, (m.sec s).getBytes m.fields t ≠ .fault x) ∧ (∀ x, (m.sec s).getInt m.fields t ≠ .fault x) ∧
    ∀ (f : Field) (tmpl : List Item), alFind (m.sec s).lookup t = some f → ∀ x, getGroup tmpl (f.full m.fields) ≠ .fault x := by
  obtain ⟨vh, vb, vt⟩ := parseMessage_views d w m hm
  have hv : ViewsOK m.fields (m.sec s) := by cases s <;> assumption
  exact ⟨getBytes_nofault hv t, getInt_nofault' hv t, fun f tmpl hf => getGroup_nofault hv t f hf tmpl⟩

/-! ## the statements in the vocabulary of the independent scanner (`Qfx.Spec.scanFields` / `wfScanned` / `tagNum`) -/

/-- the statement as it used to stand here (a scanner that compares tag TEXTS against `8`, `9`, `10`; any dictionaries) -/
def C11_faithful_full : Prop :=
  ∀ (d : Dicts) (w : Bytes) (fs : List WField), scanFields w = some fs → wfScanned fs = true →
    (fs.all fun f => (tagNum f.tagText).isSome && tagNum f.tagText != some 212) →
    ∃ m, parseMessage Fixes.cur d w = .ok m ∧ m.raw = some w ∧
      m.fields = fs.map (fun f => { tag := (tagNum f.tagText).getD 0, value := f.val, bytes := f.raw })

/-- … IS FALSE AS WRITTEN: `8=F 9=11 35=D 010=x 10=198` is well-formed for the scanner (the tag text `010` is not `10`, BodyLength and CheckSum
    are right), all tag texts are numeric and none reads 212 — but the parser reads `010` as CheckSum, ends its loop there, leaves the
    last slot of the field array empty and rejects the message with "incorrect message length" (`z_rejected`; replayed on the real parser
    by the codec family, `junk.leadzero-checksum`: implementation and model both answer err).  The same happens with `09`, `08`, `0212`:
    the side condition must be about NUMERIC tags (`C11_faithful_scanned`). -/
theorem C11_faithful_full_false : ¬ C11_faithful_full := by
  intro h
  obtain ⟨m, hm, _, _⟩ := h Dicts.none zWire zScanned z_scan z_wf z_tags
  rw [z_rejected Dicts.none rfl] at hm
  cases hm

/-- THE CORRECTED STATEMENT, ANY DICTIONARIES (fixed code): every byte string that the independent scanner splits into fields
    (`scanFields`) and finds well-formed (`wfScanned`: 8, 9, 35 first, 10 last, BodyLength = bytes between the BodyLength field and the
    CheckSum field, CheckSum right), all tag texts numeric (`tagNum`: optional '-', 1–18 digits), and NO FIELD BETWEEN MsgType AND CheckSum
    WHOSE NUMERIC TAG IS 8, 9, 10 OR 212, of less than 2^63 bytes — parses under ANY dictionaries `d`; `Message.fields` is exactly the
    scanned field list (tag = the number, value, raw bytes) in order, and the raw bytes are kept.  (`scanLoop_wire`: what the scanner
    accepts is a concatenation of wire-form fields; `atoi_of_tagNum`: the scanner's number is `atoi`'s; `parse_wire_anydict`.) -/
theorem C11_faithful_scanned (d : Dicts) (w : Bytes) (fs : List WField) (hscan : scanFields w = some fs) (hwf : wfScanned fs = true)
    (hnum : ∀ f ∈ fs, (tagNum f.tagText).isSome)
    (hmid : ∀ f ∈ (fs.drop 3).dropLast, ∀ t, tagNum f.tagText = some t → t ≠ 8 ∧ t ≠ 9 ∧ t ≠ 10 ∧ t ≠ 212)
    (hsmall : w.length < 9223372036854775808) :
    ∃ m, parseMessage Fixes.cur d w = .ok m ∧ m.raw = some w ∧
      m.fields = fs.map (fun f => { tag := (tagNum f.tagText).getD 0, value := f.val, bytes := f.raw }) :=
  faithful_scanned d w fs hscan hwf hnum hmid hsmall

/-- RETRIEVABILITY IN THE SCANNER'S VOCABULARY (no dictionary; any `Fixes`): under the same conditions, the field at position `j` of the
    scan whose numeric tag `t` no other field of the scan carries is returned by `GetBytes` from the section of `t` with its scanned value. -/
theorem C11_retrievable_scanned (fx : Fixes) (w : Bytes) (fs : List WField) (hscan : scanFields w = some fs) (hwf : wfScanned fs = true)
    (hnum : ∀ f ∈ fs, (tagNum f.tagText).isSome)
    (hmid : ∀ f ∈ (fs.drop 3).dropLast, ∀ t, tagNum f.tagText = some t → t ≠ 8 ∧ t ≠ 9 ∧ t ≠ 10 ∧ t ≠ 212)
    (hsmall : w.length < 9223372036854775808)
    (j : Nat) (f : WField) (t : Int) (hj : fs[j]? = some f) (ht : tagNum f.tagText = some t)
    (huniq : ∀ j' g, fs[j']? = some g → j' ≠ j → tagNum g.tagText ≠ some t) :
    ∃ m, parseMessage fx Dicts.none w = .ok m ∧ (m.sec (secOf Dicts.none t)).getBytes m.fields t = .ok f.val := by
  obtain ⟨f8, f9, f35, mid, f10, hfs, hwm, hwire, hbl, htag⟩ := scanned_wireMsg w fs hscan hwf hnum hmid hsmall
  have hL : tvOf f8 :: tvOf f9 :: tvOf f35 :: (mid.map tvOf ++ [tvOf f10]) = fs.map tvOf := by rw [hfs]; simp
  have hjL : (tvOf f8 :: tvOf f9 :: tvOf f35 :: (mid.map tvOf ++ [tvOf f10]))[j]? = some (tvOf f) := by
    rw [hL, List.getElem?_map, hj]; rfl
  have hft : (tvOf f).tag = t := htag f (List.mem_of_getElem? hj) t ht
  obtain ⟨m, hm, hget⟩ := C11_retrievable_nodict fx _ _ _ _ _ hwm hbl j (tvOf f) hjL (by
    intro j' tv' hj' hne
    rw [hL, List.getElem?_map] at hj'
    cases hg : fs[j']? with
    | none => rw [hg] at hj'; cases hj'
    | some g =>
      rw [hg] at hj'
      simp only [Option.map_some, Option.some.injEq] at hj'
      subst hj'
      have hgs := hnum g (List.mem_of_getElem? hg)
      cases htg : tagNum g.tagText with
      | none => rw [htg] at hgs; cases hgs
      | some tg =>
        rw [htag g (List.mem_of_getElem? hg) tg htg, hft]
        intro e; subst e
        exact huniq j' g hg hne htg)
  rw [← hwire] at hm
  rw [hft] at hget
  exact ⟨m, hm, hget⟩

/-- the retrievability statement as it used to stand here.  It differs from `C11_retrievable_scanned` only on scans that contain, between
    MsgType and CheckSum, a field whose tag text reads 8, 9, 10 or 212 without being the text `8` / `9` / `10` (leading zeros), or real
    XMLData (`212=<n>` followed by data with SOH inside): for those the parser usually rejects the message (then the statement holds
    vacuously — its hypothesis is a successful parse), but e.g. `… 09=<the right length> …` is accepted with the later BodyLength in force.
    Whether the statement holds for ALL such inputs is not decided here; it stays a `def`.  The monitor (`Spec.monParse`, `expectGet`)
    uses numeric tags like the theorem. -/
def C11_retrievable_full : Prop :=
  ∀ (w : Bytes) (fs : List WField) (m : Message), scanFields w = some fs → wfScanned fs = true →
    parseMessage Fixes.cur Dicts.none w = .ok m →
    ∀ f ∈ fs, ∀ t, tagNum f.tagText = some t → (fs.filter (fun g => tagNum g.tagText = some t)).length = 1 →
      (m.sec (secOf Dicts.none t)).getBytes m.fields t = .ok f.val

/-- D2 on the unchanged code: a message without CheckSum runs past the field array (`Fixes.orig`), and is a parse error now -/
theorem C11_orig_no_checksum_faults (fields : List TagValue) (c : PCore) (d : Dicts) :
    parseLoop Fixes.orig d .main fields fields.length c = .fault "index out of range (fields[fieldIndex])" ∧
    parseLoop Fixes.cur d .main fields fields.length c = .err "message ends without CheckSum" := by
  constructor <;> (unfold parseLoop; simp [Fixes.orig, Fixes.cur, outOfFields])

/-- D3 on the unchanged code: an XMLDataLen beyond the buffer is a slice panic (`Fixes.orig`), a parse error now -/
theorem C11_orig_xml_len_faults (b : Bytes) (e : Nat) (n : Int) (he : indexByte b cEq = some e) (hn : (e : Int) + n + 2 > b.length) :
    (extractXMLDataField Fixes.orig b n).2 = .fault "slice bounds out of range" ∧
    (extractXMLDataField Fixes.cur b n).2 = .err "xml data length beyond the message" := by
  have hc : (e : Int) + n + 1 + 1 > (b.length : Int) ∨ (e : Int) + n + 1 < 0 := Or.inl (by omega)
  constructor <;> simp [extractXMLDataField, he, hc, Fixes.orig, Fixes.cur]

/-! non-vacuity -/
example : NoGroupTag { transport := some ([1128], []), app := some [([68], [DNode.mk 55 [], DNode.mk 453 [DNode.mk 448 []]])] } 55 := by
  intro msgs h p hp
  injection h with h; subst h
  simp only [List.mem_singleton] at hp; subst hp
  rfl
example : ¬ NoGroupTag { transport := none, app := some [([68], [DNode.mk 55 [], DNode.mk 453 [DNode.mk 448 []]])] } 453 := by
  intro h
  have := h _ rfl ([68], [DNode.mk 55 [], DNode.mk 453 [DNode.mk 448 []]]) (by simp)
  simp [pathWalk, dfind, DNode.tag, DNode.children] at this
example : (extractField [56, 61, 70, 1, 57, 61, 53, 1]).1 = [57, 61, 53, 1] := by decide

/- Clause checklist (properties.jsonl C11):
   "parsing succeeds … every field retrievable … order preserved … raw bytes unchanged"   no dictionary: C11_faithful_nodict,
        C11_retrievable_nodict; app / transport+app dictionaries, messages without dictionary groups: C11_faithful_dict_nogroups;
        XMLData with its length (any dictionaries without groups): C11_faithful_xml; any number of dictionary groups with up to two
        nesting levels, plain fields between: C11_faithful_dict_groups (one group: C13_dict_flat_group_*, C13_dict_depth2_group_*);
        ANY dictionaries, every well-formed wire message (fields, raw): C11_faithful_anydict (C11_checksum_member_swallowed: what an
        absurd dictionary does); section maps = additions in wire order for any arrangement of plain fields and groups, incl. adjacent groups
        and header/trailer fields (also user-defined transport tags) directly behind a group: C11_sections_dict_items, C11_retrievable_dict_items;
        any nesting depth: C11_faithful_dict_wellnested (runs described from the dictionary alone), C11_faithful_dict_groups_anydepth; groups directly adjacent / directly followed by a header or trailer
        field: C11_faithful_full, C11_retrievable_full (monitor)
        (monitor clauses accepts_wf, fields_faithful, parsed_sections, retrievable, raw_unchanged); field slicing: C11_extractField_slices
   "first three fields are not 8, 9, 35 … rejected"                                          C11_rejects_order
   (byte layer of C03: bodyBytes)                                                             C11_bodyBytes_nodict
   "BodyLength disagrees with its content … rejected"                                        C11_rejects_length, C11_finish_checks_length,
                                                                                              C11_loop_ends_in_length_check (+ monitor rejects_length)
   "rejected with an error" = never a panic (C09 codec part)                                 C11_parse_total, C11_getters_total (all inputs, all dictionaries, fixed code);
                                                                                              unchanged code: C11_orig_no_checksum_faults, C11_orig_xml_len_faults -/
