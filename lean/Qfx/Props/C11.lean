import Qfx.Spec.Codec
open Qfx Qfx.Spec
theorem C11_placeholder : True := trivial
