/-
  C14 — "Field value types convert canonically and reject everything else".
  Property theorems only; helper lemmas are in Qfx/Lemmas.  Clause checklist at the end.
-/
import Qfx.Lemmas.Values
import Qfx.Lemmas.TsShape
import Qfx.Lemmas.TsRoundTrip
import Qfx.Lemmas.Decimal
import Qfx.Lemmas.Float
import Qfx.Lemmas.FloatWrite
open Qfx Qfx.Spec

/-! ## int -/

theorem atoi_digits (ds : Bytes) (hne : ds ≠ []) (h : ds.all isDigit = true) :
    atoi ds = .ok (wrap64 (digitsVal ds)) := by
  cases ds with
  | nil => exact absurd rfl hne
  | cons c cs =>
    have hc : c ≠ cMinus := by
      have := (isDigit_iff c).1 (by simp only [List.all_cons, Bool.and_eq_true] at h; exact h.1)
      unfold cMinus; omega
    simp only [atoi, hc, if_false]
    exact parseUInt_digits _ hne h

theorem atoi_minus (ds : Bytes) (hne : ds ≠ []) (h : ds.all isDigit = true) :
    atoi (45 :: ds) = .ok (wrap64 (-(digitsVal ds : Int))) := by
  simp only [atoi, cMinus, if_true, parseUInt_digits ds hne h, wrap64_neg_wrap]

/-- "writing a value and reading it back returns the same value" — every Go `int` (64 bit), including
    the minimum, whose magnitude only fits by wrap-around. -/
theorem C14_int_write_read (v : Int) (h : inInt64 v) : readInt (writeInt v) = .ok v := by
  unfold readInt writeInt fmtInt
  split
  · rw [show cMinus = 45 from rfl, atoi_minus _ (fmtNat_ne_nil _) (fmtNat_all_digits _), digitsVal_fmtNat]
    have : -((v.natAbs : Nat) : Int) = v := by omega
    rw [this, wrap64_of_in v h]
  · rw [atoi_digits _ (fmtNat_ne_nil _) (fmtNat_all_digits _), digitsVal_fmtNat]
    have : ((v.natAbs : Nat) : Int) = v := by omega
    rw [this, wrap64_of_in v h]

/-- "exactly the texts of the FIX grammar are accepted" (after the `fix:` that guards the empty slice) -/
theorem C14_int_accept_iff_grammar (b : Bytes) : (readInt b).isOk = IntGrammar b := by
  unfold readInt
  cases b with
  | nil => simp [atoi, parseUInt, Res.isOk, IntGrammar, allDigitsNE]
  | cons c cs =>
    by_cases hc : c = 45
    · subst hc
      have := parseUInt_isOk_iff cs
      simp only [atoi, cMinus, if_true, IntGrammar]
      rw [← this]; cases parseUInt cs <;> simp [Res.isOk]
    · have h2 : IntGrammar (c :: cs) = allDigitsNE (c :: cs) := by
        unfold IntGrammar; split
        · rename_i heq; simp at heq; exact absurd heq.1 hc
        · rfl
      rw [h2, ← parseUInt_isOk_iff]
      simp [atoi, cMinus, hc]

/-- an accepted text of at most 18 digits is read as its mathematical value (no silent wrap) -/
theorem C14_int_value (b : Bytes) (hg : IntGrammar b = true) (hd : numDigits b ≤ 18) :
    readInt b = .ok (intVal b) := by
  have key : ∀ ds : Bytes, allDigitsNE ds = true → ds.length ≤ 18 →
      inInt64 (digitsVal ds : Int) ∧ inInt64 (-(digitsVal ds : Int)) := by
    intro ds hds hl
    have hall : ds.all isDigit = true := by simp [allDigitsNE] at hds; simpa using hds.2
    have h1 := digitsVal_lt ds hall
    have h2 : 10 ^ ds.length ≤ 10 ^ 18 := Nat.pow_le_pow_right (by decide) hl
    have h3 : (10 : Nat) ^ 18 = 1000000000000000000 := by decide
    unfold inInt64; omega
  have flen : ∀ ds : Bytes, ds.all isDigit = true → (ds.filter isDigit).length = ds.length := by
    intro ds h; rw [List.filter_eq_self.2]; simpa using h
  unfold readInt
  cases b with
  | nil => simp [IntGrammar, allDigitsNE] at hg
  | cons c cs =>
    by_cases hc : c = 45
    · subst hc
      have hg' : allDigitsNE cs = true := by simpa [IntGrammar] using hg
      have hall : cs.all isDigit = true := by simp [allDigitsNE] at hg'; simpa using hg'.2
      have hne : cs ≠ [] := by intro h; simp [allDigitsNE, h] at hg'
      have hl : cs.length ≤ 18 := by
        have : numDigits (45 :: cs) = cs.length := by
          simp [numDigits, List.filter_cons, isDigit, flen cs hall]
        omega
      rw [atoi_minus cs hne hall, wrap64_of_in _ (key cs hg' hl).2]; rfl
    · have h2 : IntGrammar (c :: cs) = allDigitsNE (c :: cs) := by
        unfold IntGrammar; split
        · rename_i heq; simp at heq; exact absurd heq.1 hc
        · rfl
      rw [h2] at hg
      have hall : (c :: cs).all isDigit = true := by simp [allDigitsNE] at hg; simpa using hg
      have hl : (c :: cs).length ≤ 18 := by
        have : numDigits (c :: cs) = (c :: cs).length := flen _ hall
        omega
      rw [atoi_digits _ (by simp) hall, wrap64_of_in _ (key _ hg hl).1]
      unfold intVal; split
      · rename_i heq; simp at heq; exact absurd heq.1 hc
      · rfl

/-- the pinned original `atoi` faults on the empty slice and nowhere else -/
theorem C14_int_original_faults_only_on_empty (b : Bytes) :
    (atoiUnguarded b).isFault = b.isEmpty := by
  cases b with
  | nil => rfl
  | cons c cs => simp only [atoiUnguarded, List.isEmpty_cons]; exact atoi_not_fault _

/-- canonical texts are exactly the outputs of `write` -/
def IntCanonical (b : Bytes) : Prop := ∃ w, inInt64 w ∧ b = writeInt w

/-- "reading a canonical text and writing it back returns the same text" -/
theorem C14_int_read_write (b : Bytes) (hc : IntCanonical b) (v : Int) (hr : readInt b = .ok v) :
    writeInt v = b := by
  obtain ⟨w, hw, rfl⟩ := hc
  rw [C14_int_write_read w hw] at hr
  cases hr; rfl

/-! ## boolean -/
theorem C14_bool_write_read (v : Bool) : readBool (writeBool v) = .ok v := by
  cases v <;> simp [readBool, writeBool]

theorem C14_bool_read_write (b : Bytes) (v : Bool) (h : readBool b = .ok v) : writeBool v = b := by
  unfold readBool at h
  split at h
  · cases h; simp_all [writeBool]
  · split at h
    · cases h; simp_all [writeBool]
    · cases h

theorem C14_bool_accept_iff_grammar (b : Bytes) : (readBool b).isOk = BoolGrammar b := by
  unfold readBool BoolGrammar
  by_cases h1 : b = [89]
  · simp [h1, Res.isOk]
  · by_cases h2 : b = [78]
    · simp [h2, Res.isOk]
    · simp [h1, h2, Res.isOk]

/-! ## string / bytes -/
theorem C14_string_identity (b : Bytes) : readStr (writeStr b) = .ok b ∧ ∀ v, readStr b = .ok v → writeStr v = b := by
  constructor
  · rfl
  · intro v h; cases h; rfl

/-! ## float (acceptance) -/

theorem floatScan_afterDot (cs : Bytes) (d : Bool) :
    floatScan cs d true = (cs.all isDigit && (d || !cs.isEmpty)) := by
  induction cs generalizing d with
  | nil => simp [floatScan]
  | cons c cs ih =>
    simp only [floatScan, cDot]
    by_cases h46 : c = 46
    · subst h46; simp [isDigit]
    · by_cases hd : isDigit c = true
      · simp [h46, hd, ih]
      · simp [h46, hd]

/-- `floatBody` generalised over "digits already seen" -/
def floatBodyG (d : Bool) (b : Bytes) : Bool :=
  let ip := b.takeWhile isDigit
  match b.dropWhile isDigit with
  | [] => d || !ip.isEmpty
  | c :: fp => c == 46 && fp.all isDigit && (d || !ip.isEmpty || !fp.isEmpty)

theorem floatScan_beforeDot (cs : Bytes) (d : Bool) : floatScan cs d false = floatBodyG d cs := by
  induction cs generalizing d with
  | nil => simp [floatScan, floatBodyG]
  | cons c cs ih =>
    simp only [floatScan, cDot]
    by_cases h46 : c = 46
    · subst h46
      have : isDigit 46 = false := by simp [isDigit]
      simp [floatBodyG, List.takeWhile_cons, List.dropWhile_cons, this, floatScan_afterDot, Bool.and_comm]
    · by_cases hd : isDigit c = true
      · simp only [h46, hd, if_true, if_false, ih]
        simp [floatBodyG, List.takeWhile_cons, List.dropWhile_cons, hd]
      · simp [h46, hd, floatBodyG, List.takeWhile_cons, List.dropWhile_cons]

theorem floatBodyG_false (b : Bytes) : floatBodyG false b = floatBody b := by
  unfold floatBodyG floatBody; cases h : List.dropWhile isDigit b <;> simp

/-- `FIXFloat.Read` accepts exactly the FIX float grammar (below the strconv range limit, see DESIGN §5 C14) -/
theorem C14_float_accept_iff_grammar (b : Bytes) : acceptFloat b = FloatGrammar b := by
  unfold acceptFloat FloatGrammar
  cases b with
  | nil => simp [floatBody]
  | cons c cs =>
    by_cases hc : c = 45
    · subst hc; simp [cMinus, floatScan_beforeDot, floatBodyG_false]
    · simp only [cMinus, hc, if_false]
      rw [floatScan_beforeDot, floatBodyG_false]
      split
      · rename_i heq; simp at heq; exact absurd heq.1 hc
      · rfl

/-! ## float (values): binary64 as exact arithmetic (Model/Float.lean), `Nearest` = the declarative reading (Spec/Float.lean) -/
section FloatValues
open Qfx.F64

/-- the model's rounding function returns a nearest double (ties to even) of every non-negative rational -/
theorem C14_float_round_nearest (num den : Nat) (hd : 0 < den) : Nearest num den (roundOrd num den) :=
  roundOrd_nearest num den hd

/-- whatever `Read` returns for a byte string: the string is in the FIX float grammar, and the bits are the correctly
    rounded (nearest, ties to even) finite double of the rational the text denotes — integer part plus decimals, the
    sign of the text kept (also on zero).  For EVERY byte string; in particular `10000000000000000000` is never read
    as a negative number. -/
theorem C14_float_read_nearest (b : Bytes) (bits : Nat) (h : readFloat b = .ok bits) :
    FloatGrammar b = true ∧ IsNearestBits (floatNeg b) (floatNum b) (floatDen b) bits := by
  cases hacc : acceptFloat b with
  | false => rw [readFloat_reject b hacc] at h; cases h
  | true =>
    have hg : FloatGrammar b = true := by rw [← C14_float_accept_iff_grammar]; exact hacc
    refine ⟨hg, ?_⟩
    by_cases hfin : roundOrd (floatNum b) (floatDen b) < infOrd
    · rw [readFloat_fin b hacc hg hfin] at h
      cases h
      unfold IsNearestBits
      rw [ordOf_mkBits _ _ hfin]
      exact ⟨rfl, hfin, roundOrd_nearest _ _ (floatDen_pos b)⟩
    · rw [readFloat_inf b hacc hg hfin] at h; cases h

/-- two bit patterns that are both correct readings of the same signed rational are equal
    (the sign is part of the reading, so +0 and −0 are told apart by the sign of the text) -/
theorem C14_float_nearest_unique (neg : Bool) (num den b1 b2 : Nat) (hd : 0 < den)
    (h1 : IsNearestBits neg num den b1) (h2 : IsNearestBits neg num den b2) : b1 = b2 := by
  obtain ⟨e1, _, n1⟩ := h1
  obtain ⟨e2, _, n2⟩ := h2
  rw [e1, e2, nearest_unique num den _ _ hd n1 n2]

/-- the same on magnitudes (ordinals), exponent range unbounded above -/
theorem C14_float_nearest_unique_ord (num den a b : Nat) (hd : 0 < den)
    (ha : Nearest num den a) (hb : Nearest num den b) : a = b := nearest_unique num den a b hd ha hb

/-- write→read on the model: for ANY text of the grammar (whatever writer produced it), if some bits are a correct
    reading of it in the declarative sense — which is what the monitor checks on every `float write` of the
    implementation — then `Read` returns exactly those bits -/
theorem C14_float_write_read_model (t : Bytes) (bits : Nat) (hg : FloatGrammar t = true)
    (h : IsNearestBits (floatNeg t) (floatNum t) (floatDen t) bits) : readFloat t = .ok bits := by
  obtain ⟨e, hfin, hn⟩ := h
  have hd := floatDen_pos t
  have hu := nearest_unique _ _ _ _ hd (roundOrd_nearest (floatNum t) (floatDen t) hd) hn
  have hacc : acceptFloat t = true := by rw [C14_float_accept_iff_grammar]; exact hg
  rw [← hu] at hfin
  rw [readFloat_fin t hacc hg hfin, hu, ← e]

/-- "texts outside the FIX grammar for the type are rejected": `Read` succeeds exactly on the texts of the float grammar
    whose value is below the midpoint of the largest finite double and 2^1024 (beyond it ParseFloat reports a range
    error); in particular it never faults -/
theorem C14_float_ok_iff (b : Bytes) :
    (readFloat b).isOk = (FloatGrammar b && !Overflows (floatNum b) (floatDen b)) := by
  cases hacc : acceptFloat b with
  | false =>
    have hg : FloatGrammar b = false := by rw [← C14_float_accept_iff_grammar]; exact hacc
    rw [readFloat_reject b hacc, hg]; rfl
  | true =>
    have hg : FloatGrammar b = true := by rw [← C14_float_accept_iff_grammar]; exact hacc
    have hiff := nearest_inf_iff _ _ _ (floatDen_pos b) (roundOrd_nearest (floatNum b) (floatDen b) (floatDen_pos b))
    by_cases hfin : roundOrd (floatNum b) (floatDen b) < infOrd
    · have : Overflows (floatNum b) (floatDen b) = false := by
        cases h : Overflows (floatNum b) (floatDen b) with
        | false => rfl
        | true => exact absurd hfin (hiff.2 h)
      rw [readFloat_fin b hacc hg hfin, hg, this]; rfl
    · rw [readFloat_inf b hacc hg hfin, hg, hiff.1 hfin]; rfl

/-! non-vacuity and landmarks, evaluated (the same inputs are replayed on the implementation by the val family):
    2^53+1 is halfway and goes to the even neighbour; 10^19 ≥ 2^63 stays positive; "-0" keeps its sign;
    the largest finite double and the first text that is out of range; shortest positional output. -/
#guard readFloat (asciiOf "9007199254740993") == .ok 0x4340000000000000
#guard readFloat (asciiOf "9007199254740995") == .ok 0x4340000000000002
#guard readFloat (asciiOf "10000000000000000000") == .ok 0x43e158e460913d00
#guard readFloat (asciiOf "-0") == .ok 0x8000000000000000 && readFloat (asciiOf "0.0") == .ok 0
#guard readFloat (asciiOf "0.1") == .ok 0x3fb999999999999a && readFloat (asciiOf "-1.5") == .ok 0xbff8000000000000
#guard readFloat (asciiOf "1" ++ List.replicate 308 48) == .ok 0x7fe1ccf385ebc8a0
#guard (readFloat (asciiOf "1" ++ List.replicate 309 48)).isOk == false
#guard readFloat (asciiOf "0." ++ List.replicate 323 48 ++ asciiOf "5") == .ok 1
#guard readFloat (asciiOf "0." ++ List.replicate 323 48 ++ asciiOf "2") == .ok 0
#guard decide (IsNearestBits false 9007199254740993 1 0x4340000000000000) && !decide (IsNearestBits false 9007199254740993 1 0x4340000000000001)
#guard !decide (IsNearestBits false 10000000000000000000 1 0xc3dd83c94fb6d2ac)   -- what an int64 wrap-around would give
#guard decide (IsNearestBits true 0 1 0x8000000000000000) && !decide (IsNearestBits true 0 1 0)
#guard Overflows (10 ^ 309) 1 && !Overflows (10 ^ 308) 1
#guard writeFloat 0x3fb999999999999a == asciiOf "0.1" && writeFloat 0x8000000000000000 == asciiOf "-0"
#guard writeFloat 0x444b1ae4d6e2ef50 == asciiOf "1000000000000000000000" && writeFloat 0x4340000000000001 == asciiOf "9007199254740994"
#guard writeFloat 1 == asciiOf "0." ++ List.replicate 323 48 ++ asciiOf "5"
#guard monFloatRead (asciiOf "10000000000000000000") ["ok", "c3dd83c94fb6d2ac"] == ["float_value_wrong_sign"]
#guard monFloatRead (asciiOf "9007199254740993") ["ok", "4340000000000001"] == ["float_value_not_nearest{whole}"]
#guard monFloatWrite 0x3fb999999999999a [toHex (asciiOf "0.10000000000000001")] == ["float_write_not_shortest"]
#guard monFloatWrite 0x3fb999999999999a [toHex (asciiOf "0.1")] == [] && monFloatWrite 0x3fb999999999999a [toHex (asciiOf "0.10")] == ["float_write_not_canonical"]
#guard monFloatWrite 0x3fb999999999999a [toHex (asciiOf "0.100000")] != [] && monFloatWrite 0x3ff0000000000000 [toHex (asciiOf "1e+00")] == ["float_write_nongrammar"]

/-- "writing a value and reading the text back yields the same value", on the model, for EVERY finite 64-bit pattern
    (both signs, zeros, subnormals, up to the largest finite double): the shortest-digits positional text that the
    model's writer produces is read back by the model's reader as exactly the same bits -/
theorem C14_float_write_read (bits : Nat) (h64 : bits < 18446744073709551616) (hfin : ordOf bits < infOrd) :
    readFloat (writeFloat bits) = .ok bits := writeFloat_read bits h64 hfin

/-- the written text is in the FIX float grammar (no exponent, no "+", no Inf/NaN) and, declaratively, denotes a rational
    whose nearest double is the value written -/
theorem C14_float_write_grammar (bits : Nat) (h64 : bits < 18446744073709551616) (hfin : ordOf bits < infOrd) :
    FloatGrammar (writeFloat bits) = true ∧
    IsNearestBits (floatNeg (writeFloat bits)) (floatNum (writeFloat bits)) (floatDen (writeFloat bits)) bits :=
  C14_float_read_nearest _ _ (writeFloat_read bits h64 hfin)

/-- canonical texts are exactly the outputs of `Write` on finite values -/
def FloatCanonical (b : Bytes) : Prop := ∃ bits, bits < 18446744073709551616 ∧ ordOf bits < infOrd ∧ b = writeFloat bits

/-- "reading a canonical text and writing it back yields the same text" -/
theorem C14_float_read_write (b : Bytes) (hc : FloatCanonical b) (v : Nat) (hr : readFloat b = .ok v) : writeFloat v = b := by
  obtain ⟨bits, h64, hfin, rfl⟩ := hc
  rw [writeFloat_read bits h64 hfin] at hr
  cases hr; rfl

/-! non-vacuity of `FloatCanonical` (evaluated: `Nat.log2` does not reduce in the kernel) -/
#guard writeFloat 0 == asciiOf "0" && writeFloat 0x4059000000000000 == asciiOf "100" && writeFloat 0xbfe0000000000000 == asciiOf "-0.5"
#guard [0, 1, 0x8000000000000000, 0x3fb999999999999a, 0x7fefffffffffffff, 0x0010000000000000, 0xc340000000000001].all
  fun bits => readFloat (writeFloat bits) == .ok bits

/-- not proved (full statement): the model's writer emits the SHORTEST text that reads back — no text of the grammar with
    fewer significant digits has the value as its nearest double — and of those the closest.  `tryK`/`shortestFrom`
    search candidates in increasing length, so this needs that the two candidates per length are the only possible
    ones (convexity of the set of rationals reading back to one double) and that 17 digits always suffice.  On the
    implementation the clauses float_write_not_shortest / float_write_not_closest check it per generated value. -/
def sigDigits (t : Bytes) : Nat := (fmtNat (stripT t.length (floatNum t) 0).1).length

def C14_float_write_shortest_full : Prop :=
  ∀ bits : Nat, bits < 18446744073709551616 → ordOf bits < infOrd →
    ∀ t : Bytes, FloatGrammar t = true → IsNearestBits (floatNeg t) (floatNum t) (floatDen t) bits →
      sigDigits (writeFloat bits) ≤ sigDigits t

#guard sigDigits (asciiOf "0.10000000000000001") == 17 && sigDigits (asciiOf "1200.0") == 2 && sigDigits (writeFloat 0x3fb999999999999a) == 1

end FloatValues

/-! ## UTC timestamp -/

theorem isDigit_d (x : Nat) : isDigit (48 + x % 10) = true := isDigit_add _ (Nat.mod_lt _ (by decide))

theorem daysIn_le (mo y : Nat) : daysIn mo y ≤ 31 := by
  unfold daysIn; split <;> (try split) <;> omega

/-- "writing a value and reading it back returns the same value (timestamps truncated to the written precision)",
    for every calendar-valid instant of years 0–9999 and each of the four precisions -/
theorem C14_ts_write_read (p : Prec) (t : Ts) (hv : t.valid = true) :
    readTs (writeTs p t) = .ok (t.trunc p, p) := by
  simp only [Ts.valid, Bool.and_eq_true, decide_eq_true_eq] at hv
  obtain ⟨⟨⟨⟨⟨⟨⟨⟨hy, hmo1⟩, hmo2⟩, hd1⟩, hd2⟩, hh⟩, hmi⟩, hs⟩, hns⟩ := hv
  have hd3 := daysIn_le t.mo t.y
  have e1 : 10 * (t.mo / 10 % 10) + t.mo % 10 = t.mo := by omega
  have e2 : 10 * (t.d / 10 % 10) + t.d % 10 = t.d := by omega
  have e3 : 10 * (t.h / 10 % 10) + t.h % 10 = t.h := by omega
  have e4 : 10 * (t.mi / 10 % 10) + t.mi % 10 = t.mi := by omega
  have e5 : 10 * (t.s / 10 % 10) + t.s % 10 = t.s := by omega
  have e6 : 10 * (10 * (10 * (t.y / 10 / 10 / 10 % 10) + t.y / 10 / 10 % 10) + t.y / 10 % 10) + t.y % 10 = t.y := by omega
  cases p <;>
  · simp [writeTs, readTs, readTsWith, pad, digitsW, Prec.fracDigits, precOfLen, fixedNum, isDigit_d, digitsVal,
      e1, e2, e3, e4, e5, e6, Ts.trunc, Prec.unit]
    have : ¬ (12 < t.mo) := by omega
    have : ¬ (24 ≤ t.h) := by omega
    have : ¬ (60 ≤ t.mi) := by omega
    have : ¬ (60 ≤ t.s) := by omega
    have : ¬ (t.d = 0 ∨ daysIn t.mo t.y < t.d) := by omega
    have : ¬ (t.mo = 0) := by omega
    simp [*]
    omega

/-- non-vacuity: a concrete leap-day instant meets the hypothesis -/
example : ({ y := 2024, mo := 2, d := 29, h := 23, mi := 59, s := 59, ns := 123456789 } : Ts).valid = true := by decide

/-- "reading a canonical text and writing it back returns the same text": every accepted timestamp text is canonical —
    writing the value read, at the precision read, reproduces the text byte for byte (all four precisions) -/
theorem C14_ts_read_write (b : Bytes) (t : Ts) (p : Prec) (hr : readTs b = .ok (t, p)) : writeTs p t = b :=
  ts_read_write b t p hr

/-- the pinned original accepted a text outside the grammar (D11): witness, replayed by the val family -/
theorem C14_ts_original_accepts_comma :
    (readTsOrig (asciiOf "20060102-15:04:05,000")).isOk = true ∧ TsGrammar 60 (asciiOf "20060102-15:04:05,000") = false := by
  decide

/-- acceptance = the strict FIX UTCTimestamp grammar (seconds 00–59), all four precisions, every byte string -/
theorem C14_ts_accept_iff_grammar (b : Bytes) : (readTs b).isOk = TsGrammar 59 b := by
  by_cases h17 : b.length = 17
  · exact ts_accept_17 b h17
  · by_cases h21 : b.length = 21
    · exact ts_accept_21 b h21
    · by_cases h24 : b.length = 24
      · exact ts_accept_24 b h24
      · by_cases h27 : b.length = 27
        · exact ts_accept_27 b h27
        · simp [readTs, readTsWith, precOfLen, TsGrammar, tsLenOK, h17, h21, h24, h27, Res.isOk]





/-! ### decimals (fix_decimal.go / fix_udecimal.go; values ± mag / 10^scale, no exponent notation) -/
section Decimals
open Qfx.Dec

/-- write→read: what `FIXDecimal.Write` produces at scale `s` reads back as the value rounded to `s` decimals
    (the sign of a zero is dropped: `big.Int` has no negative zero) -/
theorem C14_dec_write_read (d : Dec) (s : Nat) : readDec (writeDec d s) = .ok (normDec (roundDec d s)) :=
  render_read _

/-- the rounding `Write` applies is round-half-away-from-zero to exactly `s` decimals, for every value and scale -/
theorem C14_dec_write_rounds_half_away (d : Dec) (s : Nat) : IsRoundHalfAway d (roundDec d s) s := roundDec_spec d s

/-- a value that already has `s` decimals is written and read back unchanged (up to the sign of zero) -/
theorem C14_dec_write_read_exact (d : Dec) : readDec (writeDec d d.scale) = .ok (normDec d) := by
  rw [C14_dec_write_read, roundDec_self]

/-- unsigned decimals: `FIXUDecimal.Write` truncates toward zero to exactly `s` decimals and the text reads back as that -/
theorem C14_udec_write_read (d : Dec) (s : Nat) :
    readDec (writeUDec d s) = .ok (normDec (truncDec d s)) ∧ IsTruncTowardZero d (truncDec d s) s :=
  ⟨render_read _, truncDec_spec d s⟩

/-- read→write: a canonical text (one that `Write` can produce) is reproduced byte for byte by reading it and writing
    the result at its own scale -/
theorem C14_dec_read_write (d d' : Dec) (h : readDec (render d) = .ok d') : writeDec d' d'.scale = render d := by
  rw [render_read] at h
  injection h with h; subst h
  unfold writeDec; rw [roundDec_self, render_normDec]

#guard (readDec (asciiOf "-12.50")).isOk && writeDec { neg := true, mag := 12345, scale := 3 } 2 == asciiOf "-12.35"
#guard writeDec { neg := false, mag := 5, scale := 3 } 2 == asciiOf "0.01" && writeUDec { neg := false, mag := 19, scale := 1 } 0 == asciiOf "1"
end Decimals

/-!
Clause checklist (properties.jsonl C14 → theorems)
* write→read, int:        C14_int_write_read            * read→write, int:  C14_int_read_write
* int grammar exactly:    C14_int_accept_iff_grammar, C14_int_value (no wrong value up to 18 digits)
* original code's panic:  C14_int_original_faults_only_on_empty (D1)
* boolean:                C14_bool_write_read, C14_bool_read_write, C14_bool_accept_iff_grammar
* float grammar exactly:  C14_float_accept_iff_grammar, C14_float_ok_iff (grammar ∧ in range ⇔ accepted; never a fault)
* float value read:       C14_float_read_nearest (every accepted text is read as the correctly rounded double of its rational, sign kept),
                          C14_float_round_nearest, C14_float_nearest_unique(_ord) (the declarative reading determines the bits)
* float write→read:       C14_float_write_read (model: every finite bit pattern; all 2^64 − 2^53 of them), C14_float_write_grammar,
                          C14_float_write_read_model (ANY text whose declarative reading is `bits` is read as `bits`; the monitor clause
                          float_write_read establishes the premise for the implementation's writer on every generated value)
* float read→write:       C14_float_read_write (canonical = what Write produces); that strconv's digits are the model writer's digits
                          (shortest, then closest, then even; %f-canonical form): monitor clauses float_write_not_shortest /
                          _not_closest / _not_canonical + correspondence; C14_float_write_shortest_full (def, not proved)
* timestamp write→read:   C14_ts_write_read; exactly the grammar: C14_ts_accept_iff_grammar; read→write: C14_ts_read_write
* string/bytes:           C14_string_identity
* decimal:                C14_dec_write_read, C14_dec_write_rounds_half_away, C14_dec_write_read_exact, C14_udec_write_read,
                          C14_dec_read_write (no exponent notation; udecimal's 19-digit limit: correspondence only)
-/
