/- C06 — the session-level gate. First theorems (order of checks, reaction selection); more in progress (DESIGN §5 C06). -/
import Qfx.Spec.Session
open Qfx Qfx.Sess

/-- a wrong BeginString stops verification before anything else, whatever was asked for -/
theorem C06_beginstring_first (s : Sess) (m : InMsg) (r : Rej) (a b c : Bool) (h : checkBeginString s m = some r) :
    verifySelect s m a b c = (s, some r) := by
  simp [verifySelect, h]

/-- CompIDs are checked next -/
theorem C06_compid_second (s : Sess) (m : InMsg) (r : Rej) (a b c : Bool) (h0 : checkBeginString s m = none) (h : checkCompID s m = some r) :
    verifySelect s m a b c = (s, some r) := by
  simp [verifySelect, h0, h]

/-- reactions FIX mandates: wrong BeginString ⇒ Logout only; the expected number is not touched -/
theorem C06_reaction_beginstring (s : Sess) (m : InMsg) : processReject s m .badBeginString = (initiateLogout s, .logout) := rfl

/-- CompID problem (9) / SendingTime accuracy problem (10) ⇒ Reject with that reason, then Logout -/
theorem C06_reaction_compid (s : Sess) (m : InMsg) (t : Option Nat) (b : Bool) :
    processReject s m (.plain 9 t b) = (initiateLogout (doReject s m 9 t b), .logout) := by
  simp [processReject]
theorem C06_reaction_sendingtime (s : Sess) (m : InMsg) (t : Option Nat) (b : Bool) :
    processReject s m (.plain 10 t b) = (initiateLogout (doReject s m 10 t b), .logout) := by
  simp [processReject]

/-- a missing / empty / malformed field ⇒ a plain Reject naming it, and the message's number is consumed -/
theorem C06_reaction_plain (s : Sess) (m : InMsg) (reason : Nat) (t : Option Nat) (b : Bool) (h9 : reason ≠ 9) (h10 : reason ≠ 10) :
    processReject s m (.plain reason t b) = (incrTarget (doReject s m reason t b), .inSession) := by
  simp [processReject, h9, h10]

/-- Rejects quote the offending MsgSeqNum -/
theorem C06_reject_refseq (cfg : Cfg) (m : InMsg) (reason : Nat) (t : Option Nat) (n : Int) (h : getInt m 34 = .val n) :
    (45, toString n) ∈ (rejectMsg cfg m reason t false).f := by
  unfold rejectMsg
  simp only [h]
  split
  · split <;> simp [mkOut]
  · simp [mkOut]
