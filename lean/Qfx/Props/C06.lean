/-
  C06 — "Messages failing session-level checks never reach the application".
  Property theorems only (helpers: Qfx/Lemmas/SessC06.lean, SessPool.lean, SessRun.lean, SessC06H.lean; predicates:
  Qfx/Spec/SessionTypedC06.lean; the string-level monitor run on implementation traces: Qfx/Spec/Session.lean `c06`).

  properties.jsonl: "An inbound application message reaches the application, an administrative message other than Logon
  reaches the administrative callback, and a Logon establishes the session, only if the message's BeginString equals the
  session's, its SenderCompID/TargetCompID mirror the session identity, its SendingTime lies within the configured latency
  window (when checking is enabled and no replay is in progress) and it passes message validation. In a logged-on session a
  message carrying a wrong BeginString, wrong CompIDs or an out-of-window SendingTime gets the reaction FIX mandates (Logout;
  Reject with reason 9 then Logout; Reject with reason 10 then Logout, respectively) and, like a too-low number without
  PossDup (Logout), does not advance the expected inbound number, whereas a message in which such a field is missing, empty
  or malformed is answered with a plain Reject naming the field. Rejects quote the offending MsgSeqNum and travel back with
  the sender's routing fields reversed."

  The gate, as facts about the fields of the message `m` (Spec/SessionTypedC06.lean):
    BeginOK cfg m  : m.f.get? 8 = some (bsName cfg.bs)
    CompOK cfg m   : 49 = cfg.target, 56 = cfg.sender, both non-empty
    TimeOK m       : 52 is a timestamp d with -120 < d < 120 (seconds relative to the clock)
    Valid cfg m    : validate cfg m = none — the configured validator (`cfg.validator`: ValidateFieldsOutOfOrder,
                     RejectInvalidMessage, AllowUnknownMsgFields, ValidateUserDefinedFields, ValidateFieldsHaveValues and the
                     data dictionaries, if any) has no objection.  `validate` runs the validator model of C15
                     (Qfx/Model/Validate.lean `validate` / `validateFieldContent`) on the parsed message (`toPMsg`: the wire
                     fields with BodyLength and CheckSum, filed into header / body / trailer by tag class as the parser does).
    GateMsg cfg m  = BeginOK ∧ CompOK ∧ Valid;   TimeGate s m = skipLatency ∨ replay in progress (curResend s) ∨ TimeOK m
-/
import Qfx.Lemmas.SessC06T
import Qfx.Lemmas.SessValid
open Qfx Qfx.Sess Qfx.SessSpec

/-! ## the gate -/

/-- **gate, delivery site.**  Any state, any message, any combination of requested sequence checks: if the verification
    pipeline (with the callbacks on) emitted anything, then BeginString, CompIDs, validation (`GateMsg`), the SendingTime
    clause (`TimeGate`) and the requested sequence checks (`SeqGate`) all hold, and what was emitted is exactly the one
    callback observation of `m` (FromAdmin for administrative kinds, FromApp otherwise). -/
theorem C06_gate_verify (s : Sess) (m : InMsg) (th tl : Bool) (h : (verifySelect s m th tl true).1.log ≠ s.log) :
    GateMsg s.cfg m ∧ TimeGate s m ∧ SeqGate s m th tl
      ∧ verifySelect s m th tl true = (s.emit (cbObs s m), callbackVerdict m) := by
  rcases verifySelect_cases s m th tl true with h1 | ⟨_, hg, ht, hs, he⟩
  · rw [h1] at h; exact absurd rfl h
  · exact ⟨hg, ht, hs, he⟩

/-- contrapositive form: a message failing any part of the gate leaves the session untouched by the pipeline (no callback,
    no observation at all); only the reject class is reported -/
theorem C06_gate_verify_blocked (s : Sess) (m : InMsg) (th tl : Bool)
    (h : ¬ (GateMsg s.cfg m ∧ TimeGate s m ∧ SeqGate s m th tl)) : (verifySelect s m th tl true).1 = s := by
  rcases verifySelect_cases s m th tl true with h1 | ⟨_, hg, ht, hs, _⟩
  · exact h1
  · exact absurd ⟨hg, ht, hs⟩ h

/-- the gate is exactly the condition (so the theorem above is not vacuous and nothing else is demanded) -/
theorem C06_gate_verify_passes (s : Sess) (m : InMsg) (th tl : Bool) (hg : GateMsg s.cfg m) (ht : TimeGate s m)
    (hs : SeqGate s m th tl) : verifySelect s m th tl true = (s.emit (cbObs s m), callbackVerdict m) := by
  rw [verifySelect_complete s m th tl true hg.begin hg.comp ht hs]
  exact verifyAppImpl_pass s m hg.valid

/-- **gate, Logon site.**  `handleLogon` notifies OnLogon only if the Logon passes validation, the administrative callback
    accepted it, BeginString / CompIDs / SendingTime hold and its MsgSeqNum is not below the expected number (read after
    the reset the Logon itself may cause). -/
theorem C06_gate_logon (s : Sess) (m : InMsg) (h0 : Obs.onLogon ∉ s.log) (h : Obs.onLogon ∈ (handleLogon s m).1.log) :
    GateMsg s.cfg m ∧ TimeGate s m ∧ callbackVerdict m = none ∧
      ∃ n, getInt m 34 = .val n ∧ (if logonResets s m then 1 else s.store.target) ≤ n :=
  gate_logon s m h0 h

/-- **gate, every history (validation included).**  Every configuration — every validator setting, with or without data
    dictionaries —, initial counters and finite event history: each FromApp, FromAdmin and OnLogon observation of the whole
    trace is about some inbound message of that history (same MsgSeqNum text, same kind) that has the session's BeginString,
    mirrored non-empty CompIDs and that the configured validator accepts (`GateMsg`, whose third component is
    `Valid cfg m`); a FromAdmin for a Logon is only guaranteed validation (it precedes the session-level checks, as
    properties.jsonl exempts).  The SendingTime clause
    depends on the state at the moment of delivery (replay in progress), which observations do not record: it is proved for
    every state at the two delivery sites (`C06_gate_verify`, `C06_gate_logon`), which are the only places that emit these
    observations (this theorem's proof goes through every model function). -/
theorem C06_gate_all_histories (cfg : Cfg) (s0 t0 : Int) (evs : List Ev) :
    ∀ o ∈ traceOf (initSess cfg s0 t0) evs, gateObs cfg (· ∈ msgsOf evs) o :=
  gate_all_histories cfg s0 t0 evs

/-- corollary in the words of the property: if no inbound message of the history passes the message-level gate, nothing
    ever reaches the application, no non-Logon administrative message reaches FromAdmin and no session is established -/
theorem C06_nothing_without_gate (cfg : Cfg) (s0 t0 : Int) (evs : List Ev) (h : ∀ m ∈ msgsOf evs, ¬ GateMsg cfg m) :
    ∀ o ∈ traceOf (initSess cfg s0 t0) evs,
      (∀ q t, o ≠ .fromApp q t) ∧ (∀ k q, o = .fromAdmin k q → k = "A") ∧ o ≠ .onLogon := by
  intro o ho
  have hq := C06_gate_all_histories cfg s0 t0 evs o ho
  refine ⟨?_, ?_, ?_⟩
  · rintro q t rfl
    obtain ⟨m, hm, _, _, hg⟩ := hq
    exact h m hm hg
  · rintro k q rfl
    obtain ⟨m, hm, _, _, _, hg⟩ := hq
    by_cases hk : k = "A"
    · exact hk
    · exact absurd (hg hk) (h m hm)
  · rintro rfl
    obtain ⟨m, hm, _, hg, _⟩ := hq
    exact h m hm hg

/-- **SendingTime, every history** (contrapositive form; observations do not record whether a replay was in progress, so
    the clause is stated for histories in which replay cannot start).  Latency checking enabled and every inbound message
    of the history has a SendingTime that is missing, unreadable or outside the ±120 s window: then in every configuration,
    from any initial counters and for every event history nothing reaches the application, no administrative message other
    than a Logon reaches FromAdmin, and no Logon ever establishes the session — whatever the messages' other fields are. -/
theorem C06_time_gate_all_histories (cfg : Cfg) (s0 t0 : Int) (evs : List Ev) (hl : cfg.skipLatency = false)
    (h : ∀ m ∈ msgsOf evs, ¬ TimeOK m) :
    ∀ o ∈ traceOf (initSess cfg s0 t0) evs,
      (∀ q t, o ≠ .fromApp q t) ∧ (∀ k q, o = .fromAdmin k q → k = "A") ∧ o ≠ .onLogon := by
  intro o ho
  have hc := (cold_run (initSess cfg s0 t0) evs (cold_init cfg s0 t0 hl) (lateEv_of_mem evs h)).1 o ho
  refine ⟨?_, ?_, ?_⟩
  · rintro q t rfl; exact hc
  · rintro k q rfl; exact hc
  · rintro rfl; exact hc


/-! ## the validation gate (the configured validator: five settings, data dictionaries)

`validate cfg m` is the verdict of `s.Validator.Validate(msg)`: `none`, or the validator's `(reason, RefTagID)` as a plain
session-level reject.  `verifyMsgAgainstAppImpl` runs it before `FromAdmin` / `FromApp`, on every path that ends in a
callback (`verifySelect … true` for every kind but Logon, `handleLogon` for a Logon). -/

/-- **gate, validation, delivery site.**  A message the validator rejects leaves the session untouched by the
    verification pipeline, whatever the other checks say: no callback, no observation at all. -/
theorem C06_gate_validation_site (s : Sess) (m : InMsg) (th tl : Bool) (h : validate s.cfg m ≠ none) :
    (verifySelect s m th tl true).1 = s :=
  C06_gate_verify_blocked s m th tl (fun hg => h hg.1.valid)

/-- and when the checks in front of it pass, the verdict handed to `processReject` is the validator's own -/
theorem C06_gate_validation_verdict (s : Sess) (m : InMsg) (th tl : Bool) (r : Rej) (hb : BeginOK s.cfg m) (hc : CompOK s.cfg m)
    (ht : TimeGate s m) (hs : SeqGate s m th tl) (hv : validate s.cfg m = some r) :
    verifySelect s m th tl true = (s, some r) := by
  rw [verifySelect_complete s m th tl true hb hc ht hs]
  simp only [if_true]
  unfold verifyAppImpl
  rw [hv]

/-- **gate, validation, Logon site.**  A Logon the validator rejects is not shown to FromAdmin and establishes nothing:
    `handleLogon` reports the validator's verdict and the session is untouched (but for the store refresh of an acceptor
    with RefreshOnLogon, which precedes validation in the code). -/
theorem C06_gate_validation_logon (s : Sess) (m : InMsg) (r : Rej) (hv : validate s.cfg m = some r) :
    ((handleLogon s m).1 = s ∨ (handleLogon s m).1 = s.emit .refresh)
    ∧ ((handleLogon s m).2 = some (.rej r) ∨ (handleLogon s m).2 = some .other) := by
  unfold handleLogon
  split
  · exact ⟨Or.inl rfl, Or.inr rfl⟩
  · generalize hs1 : (if (!s.cfg.initiator && s.cfg.refreshOnLogon) = true then s.emit Obs.refresh else s) = s1
    have hc1 : s1.cfg = s.cfg := by rw [← hs1]; split <;> rfl
    have h1 : s1 = s ∨ s1 = s.emit .refresh := by rw [← hs1]; split; exact Or.inr rfl; exact Or.inl rfl
    simp only []
    unfold verifyAppImpl
    rw [hc1, hv]
    exact ⟨h1, Or.inl rfl⟩

/-- **gate, validation, every history.**  Every configuration (validator settings and dictionaries included), initial
    counters and finite event history: each FromApp, each FromAdmin — a Logon's too — and each OnLogon of the whole trace is
    about an inbound message of that history (same MsgSeqNum text, same kind) on which the validator has no objection.
    Contrapositive: a message on which the validator model rejects yields no callback observation for it. -/
theorem C06_gate_validation (cfg : Cfg) (s0 t0 : Int) (evs : List Ev) :
    ∀ o ∈ traceOf (initSess cfg s0 t0) evs,
      (∀ q t, o = .fromApp q t → ∃ m ∈ msgsOf evs, seqText m = q ∧ isAdminKind (kindOf m) = false ∧ validate cfg m = none) ∧
      (∀ k q, o = .fromAdmin k q → ∃ m ∈ msgsOf evs, seqText m = q ∧ kindOf m = k ∧ validate cfg m = none) ∧
      (o = .onLogon → ∃ m ∈ msgsOf evs, kindOf m = "A" ∧ validate cfg m = none) := by
  intro o ho
  have hq := C06_gate_all_histories cfg s0 t0 evs o ho
  refine ⟨?_, ?_, ?_⟩
  · rintro q t rfl
    obtain ⟨m, hm, h1, h2, hg⟩ := hq
    exact ⟨m, hm, h1, h2, hg.valid⟩
  · rintro k q rfl
    obtain ⟨m, hm, h1, h2, hv, _⟩ := hq
    exact ⟨m, hm, h1, h2, hv⟩
  · rintro rfl
    obtain ⟨m, hm, h1, hg, _⟩ := hq
    exact ⟨m, hm, h1, hg.valid⟩

/-- in the words of the property: when the validator rejects every inbound message of a history, nothing reaches the
    application or the administrative callback (not even a Logon) and no session is established, ever -/
theorem C06_nothing_without_validation (cfg : Cfg) (s0 t0 : Int) (evs : List Ev) (h : ∀ m ∈ msgsOf evs, validate cfg m ≠ none) :
    ∀ o ∈ traceOf (initSess cfg s0 t0) evs, isCb o = false := by
  intro o ho
  obtain ⟨h1, h2, h3⟩ := C06_gate_validation cfg s0 t0 evs o ho
  cases o with
  | fromApp q t => obtain ⟨m, hm, _, _, hv⟩ := h1 q t rfl; exact absurd hv (h m hm)
  | fromAdmin k q => obtain ⟨m, hm, _, _, hv⟩ := h2 k q rfl; exact absurd hv (h m hm)
  | onLogon => obtain ⟨m, hm, _, hv⟩ := h3 rfl; exact absurd hv (h m hm)
  | _ => rfl

/-- **reaction to a validator reject.**  Every state, every kind but Logon (a SequenceReset: readable GapFillFlag): a message
    whose BeginString, CompIDs and SendingTime are in order, carrying the expected MsgSeqNum, on which the validator reports
    `(reason, refTag)` is answered with a session-level Reject carrying exactly that reason and tag, and its sequence number
    is consumed (the validator's reasons are 0 1 2 4 5 6 11 13 14 16, never the two that end the session with a Logout:
    `validate_reason_ok`, proved through every stage of the validator model). -/
theorem C06_reaction_validation (s : Sess) (m : InMsg) (reason : Nat) (refTag : Option Nat) (hk : kindOf m ≠ "A")
    (h4 : kindOf m = "4" → getBool m 123 ≠ .garbled) (hb : BeginOK s.cfg m) (hc : CompOK s.cfg m) (ht : TimeGate s m)
    (hn : getInt m 34 = .val s.store.target) (hv : validate s.cfg m = some (.plain reason refTag false)) :
    inSessionFixMsgIn s m = (incrTarget (doReject s m reason refTag false), .inSession) := by
  have hr := validate_reason_ok hv
  have hs : ∀ th tl, SeqGate s m th tl := fun _ _ => ⟨fun _ => ⟨_, hn, Int.le_refl _⟩, fun _ => ⟨_, hn, Int.le_refl _⟩⟩
  rw [inSession_of_reject s m _ hk h4 (fun th tl => C06_gate_validation_verdict s m th tl _ hb hc ht (hs th tl) hv)]
  unfold processReject
  have h910 : (reason == 9 || reason == 10) = false := by simp [hr.1, hr.2]
  simp only [h910, Bool.false_eq_true, if_false]

/-- what the validator objects to is always a plain session-level reject (never a business reject, never a sequence or
    Logon verdict): the hypothesis `hv` of `C06_reaction_validation` covers every rejection -/
theorem C06_validation_verdict_shape (cfg : Cfg) (m : InMsg) (r : Rej) (h : validate cfg m = some r) :
    ∃ reason refTag, r = .plain reason refTag false :=
  validate_plain h

/-- without a data dictionary the validator is `validateFieldContent` alone — under ITS two settings -/
theorem C06_validation_default (cfg : Cfg) (m : InMsg) (h : cfg.validator.app = none) :
    validate cfg m = rejOfV (
      if !(toPMsg cfg.validator.tr m).hdr.contains 35 then Validate.rej 1 35
      else Validate.validateFieldContent (toPMsg cfg.validator.tr m) cfg.validator.settings.checkHaveValues cfg.validator.settings.checkOrder) :=
  validate_noDict cfg m h

/-- with a data dictionary it is the validator of C15 on the parsed message, under all five settings -/
theorem C06_validation_dictionary (cfg : Cfg) (m : InMsg) (app : Validate.VDict) (h : cfg.validator.app = some app) :
    validate cfg m = rejOfV (Validate.validate app cfg.validator.tr cfg.validator.settings (toPMsg cfg.validator.tr m)) := by
  unfold validate runValidator
  rw [h]

/-! ## the reactions (decision table, one theorem per row)

`inSessionFixMsgIn s m` is the handler of every logged-on state (InSession, Pending; Resend and Logout wrap it).  The
identity / time rows hold for every kind but Logon (for a SequenceReset: with a readable GapFillFlag), in EVERY state `s`;
the sequence rows hold for the kinds whose MsgSeqNum is checked for "too low" (`SeqChecked`: everything but Logon, Logout,
ResendRequest and a SequenceReset-Reset).  Each row gives the exact result; `C06_obs_*` below turn the result into the
observations of a live session (logged on, connected, nothing queued) and the effect on the expected number. -/

/-- wrong BeginString ⇒ Logout only -/
theorem C06_reaction_beginstring (s : Sess) (m : InMsg) (b : String) (hk : kindOf m ≠ "A")
    (h4 : kindOf m = "4" → getBool m 123 ≠ .garbled) (h8 : m.f.get? 8 = some b) (hb : b ≠ bsName s.cfg.bs) :
    inSessionFixMsgIn s m = (initiateLogout s, .logout) := by
  rw [inSession_of_reject s m _ hk h4 (fun th tl => verifySelect_early s m _ (early_begin_wrong s m b h8 hb) th tl true)]
  rfl

/-- CompID mismatch (both present and non-empty) ⇒ Reject with reason 9, then Logout -/
theorem C06_reaction_compid (s : Sess) (m : InMsg) (a b : String) (hk : kindOf m ≠ "A")
    (h4 : kindOf m = "4" → getBool m 123 ≠ .garbled) (hb : BeginOK s.cfg m)
    (h49 : m.f.get? 49 = some a) (h56 : m.f.get? 56 = some b) (ha : a.isEmpty = false) (hbb : b.isEmpty = false)
    (hne : a ≠ s.cfg.target ∨ b ≠ s.cfg.sender) :
    inSessionFixMsgIn s m = (initiateLogout (doReject s m 9 none false), .logout) := by
  rw [inSession_of_reject s m _ hk h4
    (fun th tl => verifySelect_early s m _ (early_comp_mismatch s m hb a b h49 h56 ha hbb hne) th tl true)]
  rfl

/-- SendingTime out of the ±120 s window (checking enabled, no replay in progress) ⇒ Reject with reason 10, then Logout -/
theorem C06_reaction_sendingtime (s : Sess) (m : InMsg) (d : Int) (hk : kindOf m ≠ "A")
    (h4 : kindOf m = "4" → getBool m 123 ≠ .garbled) (hb : BeginOK s.cfg m) (hc : CompOK s.cfg m)
    (hl : s.cfg.skipLatency = false) (hr : curResend s = none) (h52 : getTime m 52 = .val d) (hd : d ≤ -120 ∨ 120 ≤ d) :
    inSessionFixMsgIn s m = (initiateLogout (doReject s m 10 none false), .logout) := by
  have he : earlyCheck s m = some (.plain 10 none false) := by
    rw [early_time s m hb hc hl hr, h52]
    simp only []
    rw [if_pos]; simpa using hd
  rw [inSession_of_reject s m _ hk h4 (fun th tl => verifySelect_early s m _ he th tl true)]
  rfl

/-- MsgSeqNum below the expected number without PossDupFlag=Y (everything else in order) ⇒ Logout only -/
theorem C06_reaction_toolow (s : Sess) (m : InMsg) (n : Int) (hk : SeqChecked m) (hb : BeginOK s.cfg m) (hc : CompOK s.cfg m)
    (ht : TimeGate s m) (h34 : getInt m 34 = .val n) (hn : n < s.store.target)
    (h43 : getBool m 43 = .missing ∨ getBool m 43 = .val false) :
    inSessionFixMsgIn s m = (initiateLogout s, .logout) := by
  have h0 := (earlyCheck_none_iff s m).2 ⟨hb, hc, ht⟩
  have hlow : checkTooLow s m = some (.tooLow n s.store.target) := by
    unfold checkTooLow; rw [h34]; simp only []; rw [if_pos hn]
  rw [inSession_of_reject_seq s m _ hk (fun th => verifySelect_low s m _ h0 hlow th true)]
  exact processReject_tooLow_noPossDup s m _ _ h43

/-- SenderCompID (49) missing ⇒ plain Reject, reason 1, RefTagID 49; the message's number is consumed -/
theorem C06_reaction_49_missing (s : Sess) (m : InMsg) (hk : kindOf m ≠ "A") (h4 : kindOf m = "4" → getBool m 123 ≠ .garbled)
    (hb : BeginOK s.cfg m) (h49 : m.f.get? 49 = none) :
    inSessionFixMsgIn s m = (incrTarget (doReject s m 1 (some 49) false), .inSession) := by
  rw [inSession_of_reject s m _ hk h4 (fun th tl => verifySelect_early s m _ (early_49_missing s m hb h49) th tl true)]
  rfl

/-- TargetCompID (56) missing ⇒ plain Reject, reason 1, RefTagID 56 -/
theorem C06_reaction_56_missing (s : Sess) (m : InMsg) (a : String) (hk : kindOf m ≠ "A")
    (h4 : kindOf m = "4" → getBool m 123 ≠ .garbled) (hb : BeginOK s.cfg m) (h49 : m.f.get? 49 = some a) (h56 : m.f.get? 56 = none) :
    inSessionFixMsgIn s m = (incrTarget (doReject s m 1 (some 56) false), .inSession) := by
  rw [inSession_of_reject s m _ hk h4 (fun th tl => verifySelect_early s m _ (early_56_missing s m hb a h49 h56) th tl true)]
  rfl

/-- SenderCompID (49) empty ⇒ plain Reject, reason 4 (tag specified without a value), RefTagID 49 -/
theorem C06_reaction_49_empty (s : Sess) (m : InMsg) (b : String) (hk : kindOf m ≠ "A")
    (h4 : kindOf m = "4" → getBool m 123 ≠ .garbled) (hb : BeginOK s.cfg m) (h49 : m.f.get? 49 = some "")
    (h56 : m.f.get? 56 = some b) (hbb : b.isEmpty = false) :
    inSessionFixMsgIn s m = (incrTarget (doReject s m 4 (some 49) false), .inSession) := by
  rw [inSession_of_reject s m _ hk h4 (fun th tl => verifySelect_early s m _ (early_49_empty s m hb b h49 h56 hbb) th tl true)]
  rfl

/-- TargetCompID (56) empty ⇒ plain Reject, reason 4, RefTagID 56 -/
theorem C06_reaction_56_empty (s : Sess) (m : InMsg) (a : String) (hk : kindOf m ≠ "A")
    (h4 : kindOf m = "4" → getBool m 123 ≠ .garbled) (hb : BeginOK s.cfg m) (h49 : m.f.get? 49 = some a) (h56 : m.f.get? 56 = some "") :
    inSessionFixMsgIn s m = (incrTarget (doReject s m 4 (some 56) false), .inSession) := by
  rw [inSession_of_reject s m _ hk h4 (fun th tl => verifySelect_early s m _ (early_56_empty s m hb a h49 h56) th tl true)]
  rfl

/-- SendingTime (52) missing ⇒ plain Reject, reason 1, RefTagID 52 -/
theorem C06_reaction_52_missing (s : Sess) (m : InMsg) (hk : kindOf m ≠ "A") (h4 : kindOf m = "4" → getBool m 123 ≠ .garbled)
    (hb : BeginOK s.cfg m) (hc : CompOK s.cfg m) (hl : s.cfg.skipLatency = false) (hr : curResend s = none)
    (h52 : getTime m 52 = .missing) :
    inSessionFixMsgIn s m = (incrTarget (doReject s m 1 (some 52) false), .inSession) := by
  have he : earlyCheck s m = some (reqMissing 52) := by rw [early_time s m hb hc hl hr, h52]
  rw [inSession_of_reject s m _ hk h4 (fun th tl => verifySelect_early s m _ he th tl true)]
  rfl

/-- SendingTime (52) not a timestamp (this includes an empty value) ⇒ plain Reject, reason 6, RefTagID 52 -/
theorem C06_reaction_52_garbled (s : Sess) (m : InMsg) (hk : kindOf m ≠ "A") (h4 : kindOf m = "4" → getBool m 123 ≠ .garbled)
    (hb : BeginOK s.cfg m) (hc : CompOK s.cfg m) (hl : s.cfg.skipLatency = false) (hr : curResend s = none)
    (h52 : getTime m 52 = .garbled) :
    inSessionFixMsgIn s m = (incrTarget (doReject s m 6 (some 52) false), .inSession) := by
  have he : earlyCheck s m = some (badFormat 52) := by rw [early_time s m hb hc hl hr, h52]
  rw [inSession_of_reject s m _ hk h4 (fun th tl => verifySelect_early s m _ he th tl true)]
  rfl

/-- MsgSeqNum (34) missing ⇒ plain Reject, reason 1, RefTagID 34 -/
theorem C06_reaction_34_missing (s : Sess) (m : InMsg) (hk : SeqChecked m) (hb : BeginOK s.cfg m) (hc : CompOK s.cfg m)
    (ht : TimeGate s m) (h34 : getInt m 34 = .missing) :
    inSessionFixMsgIn s m = (incrTarget (doReject s m 1 (some 34) false), .inSession) := by
  have h0 := (earlyCheck_none_iff s m).2 ⟨hb, hc, ht⟩
  have hlow : checkTooLow s m = some (reqMissing 34) := by unfold checkTooLow; rw [h34]
  rw [inSession_of_reject_seq s m _ hk (fun th => verifySelect_low s m _ h0 hlow th true)]
  rfl

/-- MsgSeqNum (34) not a number ⇒ plain Reject, reason 6, RefTagID 34 -/
theorem C06_reaction_34_garbled (s : Sess) (m : InMsg) (hk : SeqChecked m) (hb : BeginOK s.cfg m) (hc : CompOK s.cfg m)
    (ht : TimeGate s m) (h34 : getInt m 34 = .garbled) :
    inSessionFixMsgIn s m = (incrTarget (doReject s m 6 (some 34) false), .inSession) := by
  have h0 := (earlyCheck_none_iff s m).2 ⟨hb, hc, ht⟩
  have hlow : checkTooLow s m = some (badFormat 34) := by unfold checkTooLow; rw [h34]
  rw [inSession_of_reject_seq s m _ hk (fun th => verifySelect_low s m _ h0 hlow th true)]
  rfl

/-! ## the reactions as observations of a live session (logged on, connected, nothing queued: `Live s`) -/

/-- the Logout reaction in a live session: exactly one Logout is written, numbered with the next outbound number; the
    expected inbound number is unchanged -/
theorem C06_obs_logout (s : Sess) (hs : Live s) :
    (initiateLogout s).log = .wire { stamp s (mkOut "5" []) with seq := s.store.sender }
      :: savedObs s s.store.sender { stamp s (mkOut "5" []) with seq := s.store.sender } :: s.log
    ∧ (initiateLogout s).store.target = s.store.target := by
  have := sendInReplyTo_live s (mkOut "5" []) hs plainAdmin_logout
  exact ⟨this.1, this.2.1⟩

/-- the Reject-then-Logout reaction in a live session: the Reject (numbered S) then the Logout (numbered S+1), nothing else;
    the expected inbound number is unchanged -/
theorem C06_obs_reject_logout (s : Sess) (m : InMsg) (r : Nat) (t : Option Nat) (hs : Live s) :
    (initiateLogout (doReject s m r t false)).log =
      .wire { stamp s (mkOut "5" []) with seq := s.store.sender + 1 }
      :: savedObs s (s.store.sender + 1) { stamp s (mkOut "5" []) with seq := s.store.sender + 1 }
      :: .wire { stamp s ((rejectMsg s.cfg m r t false).inReplyTo m) with seq := s.store.sender }
      :: savedObs s s.store.sender { stamp s ((rejectMsg s.cfg m r t false).inReplyTo m) with seq := s.store.sender } :: s.log
    ∧ (initiateLogout (doReject s m r t false)).store.target = s.store.target := by
  obtain ⟨a1, a2, a3, a4, a5, a6⟩ := sendInReplyTo_live s ((rejectMsg s.cfg m r t false).inReplyTo m) hs (plainAdmin_reject _ _ _ _)
  have a6' : Live (doReject s m r t false) := a6
  obtain ⟨b1, b2, _⟩ := sendInReplyTo_live (doReject s m r t false) (mkOut "5" []) a6' plainAdmin_logout
  have hst : stamp (doReject s m r t false) (mkOut "5" []) = stamp s (mkOut "5" []) := stamp_congr _ _ _ a5 a2
  refine ⟨?_, ?_⟩
  · show (sendInReplyTo (doReject s m r t false) (mkOut "5" [])).log = _
    rw [b1, hst]
    show _ :: _ :: (sendInReplyTo s ((rejectMsg s.cfg m r t false).inReplyTo m)).log = _
    rw [a1]
    show _ :: savedObs (sendInReplyTo s _) (sendInReplyTo s _).store.sender _ :: _ = _
    rw [a3]
    unfold savedObs
    have a3' : (doReject s m r t false).store.sender = s.store.sender + 1 := a3
    have a5' : (doReject s m r t false).cfg = s.cfg := a5
    rw [a5, a3']
  · show (sendInReplyTo (doReject s m r t false) (mkOut "5" [])).store.target = _
    rw [b2]; exact a2

/-- the plain-Reject reaction in a live session: one Reject is written and the expected inbound number advances by one -/
theorem C06_obs_reject (s : Sess) (m : InMsg) (r : Nat) (t : Option Nat) (hs : Live s) :
    (incrTarget (doReject s m r t false)).log =
      .incT :: .wire { stamp s ((rejectMsg s.cfg m r t false).inReplyTo m) with seq := s.store.sender }
      :: savedObs s s.store.sender { stamp s ((rejectMsg s.cfg m r t false).inReplyTo m) with seq := s.store.sender } :: s.log
    ∧ (incrTarget (doReject s m r t false)).store.target = s.store.target + 1 := by
  obtain ⟨a1, a2, _⟩ := sendInReplyTo_live s ((rejectMsg s.cfg m r t false).inReplyTo m) hs (plainAdmin_reject _ _ _ _)
  refine ⟨?_, ?_⟩
  · show Obs.incT :: (sendInReplyTo s ((rejectMsg s.cfg m r t false).inReplyTo m)).log = _
    rw [a1]
  · show (sendInReplyTo s ((rejectMsg s.cfg m r t false).inReplyTo m)).store.target + 1 = _
    rw [a2]

/-! ## the shape of a Reject

`rejectMsg cfg m reason refTag business` is the message `doReject` hands to the sender (numbered and written by
`sendInReplyTo`, see `C06_obs_*`: the wire observation is `{ stamp s ((rejectMsg …).inReplyTo m) with seq := … }`: same kind and
fields, header tag 369 = the rejected message's MsgSeqNum when EnableLastMsgSeqNumProcessed is on).  49/56 of the outbound
header are the session's own identity (not observed as fields of `OutMsg`; the string-level monitor checks them). -/

/-- a Reject quotes the offending MsgSeqNum (RefSeqNum, 45) whenever the inbound one is readable, and only then -/
theorem C06_reject_refseq (cfg : Cfg) (m : InMsg) (reason : Nat) (refTag : Option Nat) (business : Bool) :
    (rejectMsg cfg m reason refTag business).f.get? 45 = match getInt m 34 with | .val n => some (toString n) | _ => none := by
  rw [rejectMsg_get_tail cfg m reason refTag business 45 (by decide)]
  exact rejTail_get45 cfg m reason refTag business

/-- routing fields are exactly the reversal of the inbound ones: for each pair of `reversePairs` (50→57, 57→50, 142→143,
    143→142, 115→128, 128→115, 116→129, 129→116 — the list the monitor uses) the Reject carries the destination tag iff the
    inbound message has the source tag with a non-empty value, and then with that value -/
theorem C06_reject_routing (cfg : Cfg) (m : InMsg) (reason : Nat) (refTag : Option Nat) (business : Bool) (src dst : Nat)
    (h : (src, dst) ∈ reversePairs) :
    (rejectMsg cfg m reason refTag business).f.get? dst = (m.f.get? src).filter (fun v => !v.isEmpty) := by
  have hd : dst ∉ [373, 371, 372, 380, 45] := by
    simp only [reversePairs, List.mem_cons, Prod.mk.injEq, List.not_mem_nil, or_false] at h
    rcases h with ⟨_, rfl⟩ | ⟨_, rfl⟩ | ⟨_, rfl⟩ | ⟨_, rfl⟩ | ⟨_, rfl⟩ | ⟨_, rfl⟩ | ⟨_, rfl⟩ | ⟨_, rfl⟩ <;> decide
  rw [rejectMsg_get_routing cfg m reason refTag business dst hd, routingOf_get m src dst h]
  rfl

/-- the FIX.4.1+ pairs (144→145, 145→144) are reversed the same way unless the inbound BeginString is FIX.4.0 (or absent),
    in which case they are not copied -/
theorem C06_reject_routing41 (cfg : Cfg) (m : InMsg) (reason : Nat) (refTag : Option Nat) (business : Bool) (src dst : Nat)
    (h : (src, dst) ∈ reversePairs41) :
    (rejectMsg cfg m reason refTag business).f.get? dst =
      match m.f.get? 8 with
      | some b => if b != "FIX.4.0" then (m.f.get? src).filter (fun v => !v.isEmpty) else none
      | none => none := by
  have hd : dst ∉ [373, 371, 372, 380, 45] := by
    simp only [reversePairs41, List.mem_cons, Prod.mk.injEq, List.not_mem_nil, or_false] at h
    rcases h with ⟨_, rfl⟩ | ⟨_, rfl⟩ <;> decide
  rw [rejectMsg_get_routing cfg m reason refTag business dst hd, routingOf_get41 m src dst h]
  unfold revVal41 revVal
  cases m.f.get? 8 <;> rfl

/-- nothing else travels in the routing part: any other tag of the Reject is one of 373 / 371 / 372 / 380 / 45 -/
theorem C06_reject_no_other_fields (cfg : Cfg) (m : InMsg) (reason : Nat) (refTag : Option Nat) (business : Bool) (t : Nat)
    (h : t ∉ [57, 143, 50, 142, 128, 129, 115, 116, 145, 144, 373, 371, 372, 380, 45]) :
    (rejectMsg cfg m reason refTag business).f.get? t = none := by
  rw [rejectMsg_get_routing cfg m reason refTag business t (by simp at h ⊢; omega)]
  exact routingOf_get_none m t (by simp at h ⊢; omega)

/-- MsgType and reason fields per BeginString: before FIX.4.2 a bare Reject (35=3, no 373/371/372/380); from FIX.4.2 a
    session Reject carries 373 = reason (suppressed for FIX.4.2 when the reason is above 11), 371 = the offending tag when
    there is one, 372 = the rejected MsgType; a business reject is 35=j with 380 = reason and 372 -/
theorem C06_reject_reason_fields (cfg : Cfg) (m : InMsg) (reason : Nat) (refTag : Option Nat) (business : Bool) :
    let r := rejectMsg cfg m reason refTag business
    r.kind = (if cfg.bs ≥ 2 ∧ business = true then "j" else "3")
    ∧ r.f.get? 373 = (if cfg.bs ≥ 2 ∧ business = false ∧ ¬ (reason > 11 ∧ cfg.bs = 2) then some (toString reason) else none)
    ∧ r.f.get? 371 = (if cfg.bs ≥ 2 ∧ business = false then refTag.map toString else none)
    ∧ r.f.get? 372 = (if cfg.bs ≥ 2 then some (kindOf m) else none)
    ∧ r.f.get? 380 = (if cfg.bs ≥ 2 ∧ business = true then some (toString reason) else none) := by
  intro r
  have h := rejTail_get_reason cfg m reason refTag business
  refine ⟨rejectMsg_kind cfg m reason refTag business, ?_, ?_, ?_, ?_⟩
  · exact (rejectMsg_get_tail cfg m reason refTag business 373 (by decide)).trans h.1
  · exact (rejectMsg_get_tail cfg m reason refTag business 371 (by decide)).trans h.2.1
  · exact (rejectMsg_get_tail cfg m reason refTag business 372 (by decide)).trans h.2.2.1
  · exact (rejectMsg_get_tail cfg m reason refTag business 380 (by decide)).trans h.2.2.2

/-- **the Reject written carries the validator's reason and tag**: 35=3, from FIX.4.2 on 373 = reason (left out by FIX.4.2
    itself above 11: 13 "tag appears more than once", 14 "tag specified out of required order", 16 "incorrect NumInGroup") and
    371 = the tag the validator names; 372 = the rejected MsgType; 45 = the rejected MsgSeqNum -/
theorem C06_reaction_validation_reject (cfg : Cfg) (m : InMsg) (reason : Nat) (refTag : Option Nat) :
    let r := rejectMsg cfg m reason refTag false
    r.kind = "3"
    ∧ r.f.get? 373 = (if cfg.bs ≥ 2 ∧ ¬ (reason > 11 ∧ cfg.bs = 2) then some (toString reason) else none)
    ∧ r.f.get? 371 = (if cfg.bs ≥ 2 then refTag.map toString else none)
    ∧ r.f.get? 45 = (match getInt m 34 with | .val n => some (toString n) | _ => none) := by
  intro r
  obtain ⟨h1, h2, h3, _, _⟩ := C06_reject_reason_fields cfg m reason refTag false
  refine ⟨by simpa using h1, by simpa using h2, by simpa using h3, C06_reject_refseq cfg m reason refTag false⟩

/-! ## non-vacuity (evaluated by the interpreter at build time; String functions do not reduce in the kernel) -/

/-- a live session: acceptor FIX.4.2 SND←TGT after connect and an accepted Logon (expected inbound 2, next outbound 2) -/
def c06Live : Sess := runEvents (initSess {} 1 1) [.connect, .incomingMsg (some demoLogon)]
def c06WiresOf (l : List Obs) : List (String × Int × Fields) :=
  l.filterMap fun o => match o with | .wire m => some (m.kind, m.seq, m.f) | _ => none
/-- reaction of the live session to one message: (wires, callbacks, expected number afterwards, state afterwards) -/
def c06React (f : Fields) : List (String × Int × Fields) × List Obs × Int × String :=
  let r := step c06Live (.incomingMsg (some { f := f }))
  (c06WiresOf r.2.1, r.2.1.filter isCb, r.1.store.target, r.1.st.name)

#guard c06Live.st.name == "InSession" && c06Live.out && c06Live.toSend.isEmpty && c06Live.st.loggedOn   -- `Live c06Live`
-- clean message: delivered
#guard c06React [(8, "FIX.4.2"), (35, "D"), (49, "TGT"), (56, "SND"), (34, "2"), (52, "@0")] == ([], [.fromApp "2" 2], 3, "InSession")
-- wrong BeginString: Logout only, nothing delivered, expected number unchanged
#guard c06React [(8, "FIX.4.1"), (35, "D"), (49, "TGT"), (56, "SND"), (34, "2"), (52, "@0")] == ([("5", 2, [])], [], 2, "Logout")
-- wrong SenderCompID: Reject 9 (sub / location ids reversed, RefSeqNum quoted) then Logout
#guard c06React [(8, "FIX.4.2"), (35, "D"), (49, "XXX"), (56, "SND"), (34, "2"), (52, "@0"), (50, "sub"), (142, "loc")]
  == ([("3", 2, [(57, "sub"), (143, "loc"), (373, "9"), (372, "D"), (45, "2")]), ("5", 3, [])], [], 2, "Logout")
-- stale SendingTime: Reject 10 then Logout
#guard c06React [(8, "FIX.4.2"), (35, "D"), (49, "TGT"), (56, "SND"), (34, "2"), (52, "@500")]
  == ([("3", 2, [(373, "10"), (372, "D"), (45, "2")]), ("5", 3, [])], [], 2, "Logout")
-- too low without PossDup: Logout only
#guard c06React [(8, "FIX.4.2"), (35, "D"), (49, "TGT"), (56, "SND"), (34, "1"), (52, "@0")] == ([("5", 2, [])], [], 2, "Logout")
-- 49 missing / 56 empty / 52 garbled / 34 garbled: plain Reject naming the tag, number consumed, still InSession
#guard c06React [(8, "FIX.4.2"), (35, "D"), (56, "SND"), (34, "2"), (52, "@0")]
  == ([("3", 2, [(373, "1"), (371, "49"), (372, "D"), (45, "2")])], [], 3, "InSession")
#guard c06React [(8, "FIX.4.2"), (35, "D"), (49, "TGT"), (56, ""), (34, "2"), (52, "@0")]
  == ([("3", 2, [(373, "4"), (371, "56"), (372, "D"), (45, "2")])], [], 3, "InSession")
#guard c06React [(8, "FIX.4.2"), (35, "D"), (49, "TGT"), (56, "SND"), (34, "2"), (52, "garb")]
  == ([("3", 2, [(373, "6"), (371, "52"), (372, "D"), (45, "2")])], [], 3, "InSession")
#guard c06React [(8, "FIX.4.2"), (35, "D"), (49, "TGT"), (56, "SND"), (34, "x"), (52, "@0")]
  == ([("3", 2, [(373, "6"), (371, "34"), (372, "D")])], [], 3, "InSession")
-- C06_time_gate_all_histories is about real behaviour: a Logon 500 s off is shown to FromAdmin and then refused (no OnLogon,
-- nothing delivered afterwards), the same Logon in the window establishes the session
#guard (traceOf (initSess {} 1 1) [.connect, .incomingMsg (some { f := [(8, "FIX.4.2"), (35, "A"), (49, "TGT"), (56, "SND"),
          (34, "1"), (52, "@500"), (98, "0"), (108, "30")] }), .incomingMsg (some { f := [(8, "FIX.4.2"), (35, "D"), (49, "TGT"),
          (56, "SND"), (34, "2"), (52, "@500")] })]).filter isCb == [.fromAdmin "A" "1"]
#guard (traceOf (initSess {} 1 1) [.connect, .incomingMsg (some demoLogon)]).filter isCb == [.fromAdmin "A" "1", .onLogon]
-- ### the validation gate is about real behaviour (a hand-built dictionary: header, trailer, Logon, Heartbeat, NewOrderSingle
-- with Symbol (55) required, Side (54) enumerated 1/2, the scripted verdict 9001)
def c06Dict : Validate.VDict :=
  let fld (t : Nat) (req : Bool) : Dict.Part := .fld (.mk t req [] [])
  let hdr := Dict.newMessageDef ([8, 9, 35, 49, 56, 34, 52].map (fld · true) ++ [43, 122, 50].map (fld · false))
  let trl := Dict.newMessageDef [fld 10 true]
  let msgD := Dict.newMessageDef [fld 55 true, fld 54 false, fld 9001 false]
  let msgA := Dict.newMessageDef [fld 98 true, fld 108 true]
  let msg0 := Dict.newMessageDef [fld 112 false]
  { msg? := fun mt => if mt == [68] then some msgD else if mt == [65] then some msgA else if mt == [48] then some msg0 else none
    header := some hdr
    trailer := some trl
    ftype := fun t =>
      if t == 54 then some { proto := some .str, enums := [[49], [50]] }
      else if [9, 34, 98, 108].contains t then some { proto := some .int, enums := [] }
      else if [52, 122].contains t then some { proto := some .ts, enums := [] }
      else if t == 43 then some { proto := some .bool, enums := [] }
      else if [8, 35, 49, 56, 10, 55, 112, 50, 9001].contains t then some { proto := some .str, enums := [] }
      else none }
def c06CfgV (st : Validate.Settings := Validate.defaultSettings) (dict : Bool := true) : Cfg :=
  { validator := { app := if dict then some c06Dict else none, settings := st } }
def c06LiveV (cfg : Cfg) : Sess := runEvents (initSess cfg 1 1) [.connect, .incomingMsg (some demoLogon)]
def c06ReactV (cfg : Cfg) (f : Fields) : List (String × Int × Fields) × List Obs × Int × String :=
  let r := step (c06LiveV cfg) (.incomingMsg (some { f := f }))
  (c06WiresOf r.2.1, r.2.1.filter isCb, r.1.store.target, r.1.st.name)
def c06Hdr (kind : String) (seq : String := "2") : Fields := [(8, "FIX.4.2"), (35, kind), (49, "TGT"), (56, "SND"), (34, seq), (52, "@0")]

#guard (c06LiveV (c06CfgV)).st.name == "InSession"      -- the Logon (98, 108) conforms to the dictionary
-- a conforming order is delivered; the same order without the required Symbol, with a Side outside the enumeration, with a
-- tag the dictionary does not know, with a tag not defined for the type, with a repeated tag: Reject naming (reason, tag),
-- nothing delivered, the number consumed
#guard c06ReactV c06CfgV (c06Hdr "D" ++ [(55, "IBM"), (54, "1")]) == ([], [.fromApp "2" 2], 3, "InSession")
#guard c06ReactV c06CfgV (c06Hdr "D" ++ [(54, "1")])
  == ([("3", 2, [(373, "1"), (371, "55"), (372, "D"), (45, "2")])], [], 3, "InSession")
#guard c06ReactV c06CfgV (c06Hdr "D" ++ [(55, "IBM"), (54, "9")])
  == ([("3", 2, [(373, "5"), (371, "54"), (372, "D"), (45, "2")])], [], 3, "InSession")
#guard c06ReactV c06CfgV (c06Hdr "D" ++ [(55, "IBM"), (207, "zz")])
  == ([("3", 2, [(373, "0"), (371, "207"), (372, "D"), (45, "2")])], [], 3, "InSession")
#guard c06ReactV c06CfgV (c06Hdr "D" ++ [(55, "IBM"), (112, "x")])
  == ([("3", 2, [(373, "2"), (371, "112"), (372, "D"), (45, "2")])], [], 3, "InSession")
#guard c06ReactV c06CfgV (c06Hdr "D" ++ [(55, "IBM"), (55, "IBM")])
  == ([("3", 2, [(371, "55"), (372, "D"), (45, "2")])], [], 3, "InSession")          -- reason 13: no 373 at FIX.4.2
-- the scripted callback is only asked when validation passed: 9001=rej on a conforming order is the application's reject …
#guard c06ReactV c06CfgV (c06Hdr "D" ++ [(55, "IBM"), (9001, "rej")])
  == ([("3", 2, [(373, "5"), (371, "9001"), (372, "D"), (45, "2")])], [.fromApp "2" 2], 3, "InSession")
-- … and is not even asked on a defective one
#guard c06ReactV c06CfgV (c06Hdr "D" ++ [(54, "1"), (9001, "rej")])
  == ([("3", 2, [(373, "1"), (371, "55"), (372, "D"), (45, "2")])], [], 3, "InSession")
-- the settings matter: RejectInvalidMessage=N lets the bad Side through, AllowUnknownMsgFields=Y the unknown tag
#guard c06ReactV (c06CfgV { Validate.defaultSettings with rejectInvalid := false }) (c06Hdr "D" ++ [(55, "IBM"), (54, "9")])
  == ([], [.fromApp "2" 2], 3, "InSession")
#guard c06ReactV (c06CfgV { Validate.defaultSettings with allowUnknown := true }) (c06Hdr "D" ++ [(55, "IBM"), (207, "zz")])
  == ([], [.fromApp "2" 2], 3, "InSession")
-- without a dictionary: a header field behind a body field is refused under ValidateFieldsOutOfOrder (reason 14) and passes
-- without it; an empty value likewise under ValidateFieldsHaveValues
#guard c06ReactV (c06CfgV Validate.defaultSettings false) (c06Hdr "D" ++ [(55, "IBM"), (50, "sub")])
  == ([("3", 2, [(57, "sub"), (371, "50"), (372, "D"), (45, "2")])], [], 3, "InSession")
#guard c06ReactV (c06CfgV { Validate.defaultSettings with checkOrder := false } false) (c06Hdr "D" ++ [(55, "IBM"), (50, "sub")])
  == ([], [.fromApp "2" 2], 3, "InSession")
#guard c06ReactV (c06CfgV Validate.defaultSettings false) (c06Hdr "D" ++ [(55, "")])
  == ([("3", 2, [(373, "4"), (371, "55"), (372, "D"), (45, "2")])], [], 3, "InSession")
#guard c06ReactV (c06CfgV { Validate.defaultSettings with checkHaveValues := false } false) (c06Hdr "D" ++ [(55, "")])
  == ([], [.fromApp "2" 2], 3, "InSession")
-- a Logon the validator refuses (HeartBtInt missing) is not shown to FromAdmin and establishes nothing
#guard (traceOf (initSess c06CfgV 1 1) [.connect, .incomingMsg (some { f := c06Hdr "A" "1" ++ [(98, "0")] })]).filter isCb == []
#guard (traceOf (initSess c06CfgV 1 1) [.connect, .incomingMsg (some { f := c06Hdr "A" "1" ++ [(98, "0"), (108, "30")] })]).filter isCb
  == [.fromAdmin "A" "1", .onLogon]
-- the hypotheses of C06_reaction_validation hold of the live session and the order without Symbol
#guard validate c06CfgV { f := c06Hdr "D" ++ [(54, "1")] } matches some (.plain 1 (some 55) false)
-- the hypotheses of the table rows are satisfiable together (kernel-checked on a symbolic message)
example : SeqChecked { f := [(35, "D")] } := by
  refine ⟨?_, ?_, ?_, ?_⟩ <;> simp [kindOf, Fields.get?]
-- the whole-history monitor really rejects a trace: a delivery with no inbound message behind it
example : ¬ gateObs {} (· ∈ msgsOf []) (.fromApp "2" 2) := by
  rintro ⟨m, hm, _⟩; cases hm

/-!
Clause checklist (properties.jsonl C06 → theorems)
* app message reaches the application / admin (non-Logon) reaches FromAdmin only if BeginString equals, CompIDs mirror,
  SendingTime in window (checking enabled, no replay), validation passes
      : C06_gate_verify (every state, every message, every requested sequence check; exact emitted observation),
        C06_gate_verify_blocked (contrapositive: state untouched), C06_gate_verify_passes (the gate is exactly the condition),
        C06_gate_all_histories + C06_nothing_without_gate (every cfg / counters / history: each callback is about an inbound
        message of the history passing BeginString, CompIDs, validation), C06_time_gate_all_histories (SendingTime)
* … and it passes message validation (every validator setting, with and without data dictionaries)
      : `GateMsg.valid` in all of the above is `validate cfg m = none`, the verdict of the configured validator (C15's model);
        C06_gate_validation_site / _verdict (delivery site), C06_gate_validation_logon (Logon site: not even FromAdmin),
        C06_gate_validation + C06_nothing_without_validation (every history: each callback is about a message the validator
        accepts), C06_reaction_validation + C06_reaction_validation_reject + C06_obs_reject (the Reject carries the
        validator's reason and tag, the number is consumed), C06_validation_verdict_shape, C06_validation_default /
        _dictionary (what `validate` is in the two kinds of configuration); `#guard`s on a hand-built dictionary
* a Logon establishes the session only if …                          : C06_gate_logon (+ OnLogon clause of C06_gate_all_histories)
* wrong BeginString ⇒ Logout, expected number unchanged              : C06_reaction_beginstring + C06_obs_logout
* wrong CompIDs ⇒ Reject 9 then Logout, unchanged                    : C06_reaction_compid + C06_obs_reject_logout
* SendingTime out of window ⇒ Reject 10 then Logout, unchanged       : C06_reaction_sendingtime + C06_obs_reject_logout
* too low without PossDup ⇒ Logout, unchanged                        : C06_reaction_toolow + C06_obs_logout
* field missing / empty / malformed ⇒ plain Reject naming the field  : C06_reaction_49_missing, _56_missing, _49_empty, _56_empty,
                                                                        _52_missing, _52_garbled, _34_missing, _34_garbled + C06_obs_reject
                                                                        (reasons 1 / 4 / 6; the number is consumed: target + 1)
* Rejects quote the offending MsgSeqNum                              : C06_reject_refseq
* … and travel back with the sender's routing fields reversed        : C06_reject_routing, C06_reject_routing41, C06_reject_no_other_fields
* 373 / 371 / 372 / 380 per BeginString                              : C06_reject_reason_fields
* quantifier "every inbound message, every logged-on state, every BeginString, latency and validator setting":
  all theorems are ∀ s m (cfg inside s); the reaction rows need no hypothesis on the state at all (they hold in InSession,
  Pending, Resend — where `curResend` disables the time rows — and Logout alike).
* readings (DESIGN.md §5 C06): an empty BeginString is a wrong one (Logout); empty SendingTime is "garbled" (reason 6);
  a Logon inside a logged-on session goes through `handleLogon` (FromAdmin before the checks), hence `kindOf m ≠ "A"` in the rows;
  a SequenceReset with an unreadable GapFillFlag is rejected for that before anything else (`h4`).
* SendingTime over histories: C06_time_gate_all_histories (no in-window message ⇒ nothing delivered, no session, ever).
  The positive per-observation form ("… or a replay was in progress at that moment") is not expressible over `Obs`, which
  does not record the state at delivery; it is proved for every state at both emitting sites (C06_gate_verify, C06_gate_logon).
  `34=` with an empty value: the model's `getInt` yields `garbled` (row C06_reaction_34_garbled), the Go code panics in `atoi`
  (defect D1, recorded by C09/C14).
-/
