/-
  C12 — "Stream framing is independent of how the bytes arrive", and the framer part of C09
  ("no bytes from the wire can crash the engine": no panic, no hang in parser.go).
  Property theorems only; helper lemmas are in Qfx/Lemmas/Framer.lean.  Clause checklist at the end.

  Model: Qfx.Model.Framer (parser.go function by function: buffer window, bigBuffer, shift / grow, re-scan after
  every refill; the reader serves a list of chunks, a chunk larger than the room in several reads, an empty
  chunk as a (0, nil) read, io.EOF with or after the last bytes).
  Spec:  Qfx.Spec.Framer.framesWhole — frames and terminal error as a function of the whole byte stream.
-/
import Qfx.Lemmas.Framer
import Qfx.Lemmas.FramerExact
import Qfx.Lemmas.FramerMem
open Qfx Qfx.Framer Qfx.Spec

/-- "The sequence of message frames (and the terminal error) extracted from a byte stream depends only on the
    stream's content, not on how it is split into reads": for EVERY reader — any list of chunks (empty reads included, so
    the hypothesis `∀ c ∈ cs, c ≠ []` of the design is not needed), the final error delivered with or after the last
    bytes, ending with io.EOF or with any other error `endErr` — what `readLoop`/`ReadMessage` extract is the
    whole-stream function of the concatenation (and of the error the reader ends with). -/
theorem C12_chunk_independent_reader (rd : Reader) :
    framesRead rd = framesWholeE rd.endErr rd.chunks.flatten := by
  unfold framesRead framesReadG framesWholeE
  rw [runG_eq _ _ (inv_init _), abs_init]
  rfl

/-- the statement of the design: a reader that ends with io.EOF -/
theorem C12_chunk_independent (eofd : Bool) (cs : List Bytes) :
    framesChunked eofd cs = framesWhole cs.flatten :=
  C12_chunk_independent_reader { chunks := cs, eofd := eofd }

/-- the same for the tree before the `fix:` commit: framing was chunk-independent there too — including the panic -/
theorem C12_chunk_independent_orig (eofd : Bool) (cs : List Bytes) :
    framesChunkedOrig eofd cs = framesWholeG false "eof" cs.flatten := by
  unfold framesChunkedOrig framesChunkedG framesReadG
  rw [runG_eq _ _ (inv_init _), abs_init]
  rfl

/-- two partitions of one stream (and two EOF conventions) give the same frames and the same terminal error -/
theorem C12_any_two_partitions (e1 e2 : Bool) (cs1 cs2 : List Bytes) (h : cs1.flatten = cs2.flatten) :
    framesChunked e1 cs1 = framesChunked e2 cs2 := by
  rw [C12_chunk_independent, C12_chunk_independent, h]

/-- … and two readers that end with the same error -/
theorem C12_any_two_readers (r1 r2 : Reader) (h : r1.chunks.flatten = r2.chunks.flatten) (he : r1.endErr = r2.endErr) :
    framesRead r1 = framesRead r2 := by
  rw [C12_chunk_independent_reader, C12_chunk_independent_reader, h, he]

/-- "For a stream made of well-formed messages separated by arbitrary bytes that do not contain a BeginString marker,
    the frames are exactly those messages, in order and byte-identical" (and the stream ends with EOF).
    `ps.ok`: every message satisfies `wfFrame` ("8=" v SOH "9=" decimal |body| SOH body "10=" ck SOH, body ending with SOH,
    v and ck free of SOH — the CheckSum value itself is irrelevant to the framer), every separator — including the
    leading and the trailing one, each taken as a whole — has no "8=".  A separator may end with '8', contain SOH,
    "10=", "9=" …; bodies are arbitrary (they may contain "8=", SOH "10=", SOH "9="). -/
theorem C12_exact (ps : Parts) (h : ps.ok = true) :
    framesWhole ps.stream = { frames := ps.msgs, end_ := .err "eof" } :=
  framesWhole_parts "eof" ps.ms ps.j0 h

/-- … under every partition of that stream into reads -/
theorem C12_exact_chunked (ps : Parts) (h : ps.ok = true) (eofd : Bool) (cs : List Bytes) (hcs : cs.flatten = ps.stream) :
    framesChunked eofd cs = { frames := ps.msgs, end_ := .err "eof" } := by
  rw [C12_chunk_independent, hcs, C12_exact ps h]

/-- … for every reader of that stream, whatever error it ends with -/
theorem C12_exact_reader (ps : Parts) (h : ps.ok = true) (rd : Reader) (hcs : rd.chunks.flatten = ps.stream) :
    framesRead rd = { frames := ps.msgs, end_ := .err rd.endErr } := by
  rw [C12_chunk_independent_reader, hcs]
  exact framesWhole_parts rd.endErr ps.ms ps.j0 h

/-- `wfFrame` is exactly the stated grammar: "8=" v SOH "9=" ds SOH body' SOH "10=" ck SOH with v, ck free of SOH,
    ds a non-empty digit string whose value is the body length |body'|+1, offsets within Go's `int`
    (so the hypothesis of `C12_exact` is neither narrower nor wider than "well-formed" as far as a framer can tell) -/
theorem C12_wfFrame_iff (m : Bytes) :
    wfFrame m = true ↔
    ∃ v ds body' ck, m = frameThen v ds body' ck [] ∧ (∀ x ∈ v, x ≠ 1) ∧ ds ≠ [] ∧ ds.all isDigit = true ∧
      digitsVal ds = body'.length + 1 ∧ (∀ x ∈ ck, x ≠ 1) ∧ m.length < 9223372036854775807 := by
  constructor
  · exact wfFrame_shape m
  · rintro ⟨v, ds, body', ck, e, hv, hne, hdd, hval, hck, hlen⟩
    subst e
    exact wfFrame_of_shape v ds body' ck hv hne hdd hval hck hlen

/-- the search primitive of the whole-stream spec is "first occurrence at or after `off`" -/
theorem C12_findFrom_first_occurrence (off : Nat) (d s : Bytes) (i : Nat) :
    findFrom off d s = some i ↔
      (off ≤ i ∧ i ≤ s.length ∧ d <+: s.drop i ∧ ∀ k, off ≤ k → k < i → ¬ d <+: s.drop k) :=
  findFrom_some_iff off d s i

/-- the decomposition the monitor builds from the tokens of a `parts` op is a decomposition of the very stream read -/
theorem C12_parts_stream (toks : List (Bool × Bytes)) : (mkParts toks).stream = (toks.map (·.2)).flatten :=
  mkParts_stream toks

/-- framer part of C09: whatever the bytes and the chunking, the parser does not panic (no slice expression out of
    range, none reading stale bytes between len and cap) and never asks the reader for zero bytes (which would spin);
    termination of every loop is by construction (`findIdx`: well-founded on unread chunks, `runG`: on buffered +
    unread bytes) — `framesChunked` is a total function. -/
theorem C12_no_fault_reader (rd : Reader) (w : String) : (framesRead rd).end_ ≠ .fault w := by
  rw [C12_chunk_independent_reader]
  exact framesWhole_no_fault _ _ w

theorem C12_no_fault (eofd : Bool) (cs : List Bytes) (w : String) :
    (framesChunked eofd cs).end_ ≠ .fault w :=
  C12_no_fault_reader { chunks := cs, eofd := eofd } w

/-- …so every stream ends with an error value of `ReadMessage` (the reader's error or a BodyLength error) -/
theorem C12_ends_with_error (rd : Reader) : ∃ c, (framesRead rd).end_ = .err c := by
  cases h : (framesRead rd).end_ with
  | err c => exact ⟨c, rfl⟩
  | fault w => exact (C12_no_fault_reader rd w h).elim

/-- buffer management at the level of the backing array (`bigBuffer` with its stale bytes, `buffer` = window [lo, lo+len)):
    `readMore` — shift to the front by memmove, reallocation, read into `buffer[len:cap]` — acts on (window contents,
    spare capacity, len(bigBuffer)) exactly as `Qfx.Framer.readMore` does on the model state, and keeps the window inside
    the array; so the model's `buf`/`spare`/`big` are a faithful image of Go's slices. -/
theorem C12_readMore_refines_array (m : M) (h : m.Inv) :
    match fillM (growM m) with
    | .ok (n, e, m') => readMore m.toP = .ok (n, e, m'.toP) ∧ m'.Inv
    | .err x => readMore m.toP = .err x
    | .fault w => readMore m.toP = .fault w :=
  readMoreM_toP m h

/-- … and so does the re-slicing `p.buffer = p.buffer[k:]` (k ≤ len) -/
theorem C12_slice_refines_array (k : Nat) (m : M) (h : m.Inv) (hk : k ≤ m.len) :
    (sliceM k m).toP = { m.toP with buf := m.toP.buf.drop k } ∧ (sliceM k m).Inv :=
  sliceM_toP k m h hk

/-- the whole parser written on the backing array (`Qfx/Model/FramerMem.lean`: `findIdxM` … `runGM`, same control flow, the
    window `bigBuffer[lo:lo+len]` in place of the model's `buf`) extracts the same frames and terminal error — hence the
    whole-stream function of the content: shifting, growing and reading behind the window never corrupt a frame. -/
theorem C12_array_level (rd : Reader) : framesReadM rd = framesWholeE rd.endErr rd.chunks.flatten := by
  rw [framesReadM_eq]; exact C12_chunk_independent_reader rd

/-! non-vacuity: a Heartbeat is a well-formed frame; junk ending in '8' is a legal separator; two reads that cut
    the message inside "9=" give that message -/
example : wfFrame (asciiOf "8=FIX.4.2\x019=5\x0135=0\x0110=161\x01") = true := by decide
example : noBegin (asciiOf "\r\n=8 8") = true := by decide
example : noBegin (asciiOf "x8=") = false := by decide
example : framesChunked true [asciiOf "zz88=FIX.4.2\x019", asciiOf "=5\x0135=0\x0110=161\x01 8"] =
    { frames := [asciiOf "8=FIX.4.2\x019=5\x0135=0\x0110=161\x01"], end_ := .err "eof" } :=
  C12_exact_chunked ⟨asciiOf "zz8", [(asciiOf "8=FIX.4.2\x019=5\x0135=0\x0110=161\x01", asciiOf " 8")]⟩ (by decide) true _ (by decide)

/-- the defect repaired by the `fix:` commit: with the original arithmetic `offset + length` wraps negative … -/
theorem C12_orig_overflow_witness : wrap64 ((15 : Int) + 9223372036854775807) < 0 := by decide

/-- … and a negative offset passes the `offset > len(buffer)` test and panics in `p.buffer[offset:]` -/
theorem C12_orig_negative_offset_faults (off : Int) (h : off < 0) (d : Bytes) (p : P) :
    findIndexAfterOffset off d p = .fault "slice bounds out of range" := by
  simp [findIndexAfterOffset, h]

/-
  Clause checklist (property text → theorem)
  * "frames (and the terminal error) depend only on the stream's content, not on how it is split into reads"
        C12_chunk_independent_reader (all chunk lists, empty reads, both EOF conventions, any final error),
        C12_chunk_independent, C12_any_two_partitions, C12_any_two_readers
  * "for every partition … one byte at a time, split inside tags, lengths and checksums, chunks larger than the
     internal buffer, messages larger than the buffer"
        the same theorems: `cs` is arbitrary; a chunk larger than the room is served in pieces by `Reader.read`;
        the buffer grows by `grow` for frames larger than bigBuffer
  * "well-formed messages separated by arbitrary bytes without a BeginString marker ⇒ frames are exactly those
     messages, in order and byte-identical"
        C12_exact, C12_exact_chunked, C12_exact_reader (with C12_wfFrame_iff: what counts as well-formed; C12_findFrom_first_occurrence:
        the spec's search is declaratively the first occurrence)
  * C09 (framer part) "no panic / no hang"
        C12_no_fault_reader, C12_no_fault, C12_ends_with_error; termination: `findIdx`, `runG`, `framesWholeG` are total functions
        accepted by Lean's termination checker (well-founded on unread chunks / buffered+unread bytes)
  * model fidelity (buffer window inside bigBuffer, copy-to-front, growth): C12_readMore_refines_array,
    C12_slice_refines_array — the model's buffer primitives are images of the array-level operations;
    C12_array_level — the parser written on the backing array equals the whole-stream spec too
  * the tree before the fix: C12_chunk_independent_orig (still chunk independent), C12_orig_overflow_witness +
    C12_orig_negative_offset_faults (why it panicked)
-/
