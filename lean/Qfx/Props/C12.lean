/-
  C12 — "Stream framing is independent of how the bytes arrive", and the framer part of C09
  ("no bytes from the wire can crash the engine": no panic, no hang in parser.go).
  Property theorems only; helper lemmas are in Qfx/Lemmas/Framer.lean.  Clause checklist at the end.

  Model: Qfx.Model.Framer (parser.go function by function: buffer window, bigBuffer, shift / grow, re-scan after
  every refill; the reader serves a list of chunks, a chunk larger than the room in several reads, an empty
  chunk as a (0, nil) read, io.EOF with or after the last bytes).
  Spec:  Qfx.Spec.Framer.framesWhole — frames and terminal error as a function of the whole byte stream.
-/
import Qfx.Lemmas.Framer
open Qfx Qfx.Framer Qfx.Spec

/-- "The sequence of message frames (and the terminal error) extracted from a byte stream depends only on the
    stream's content, not on how it is split into reads": for EVERY list of chunks (empty reads included, so the
    hypothesis `∀ c ∈ cs, c ≠ []` of the design is not needed) and both ways a reader may report io.EOF,
    what `readLoop`/`ReadMessage` extract is `framesWhole` of the concatenation. -/
theorem C12_chunk_independent (eofd : Bool) (cs : List Bytes) :
    framesChunked eofd cs = framesWhole cs.flatten := by
  unfold framesChunked framesChunkedG framesWhole
  rw [runG_eq _ _ (inv_init _), abs_init]

/-- the same for the tree before the `fix:` commit: framing was chunk-independent there too — including the panic -/
theorem C12_chunk_independent_orig (eofd : Bool) (cs : List Bytes) :
    framesChunkedOrig eofd cs = framesWholeG false cs.flatten := by
  unfold framesChunkedOrig framesChunkedG
  rw [runG_eq _ _ (inv_init _), abs_init]

/-- two partitions of one stream (and two EOF conventions) give the same frames and the same terminal error -/
theorem C12_any_two_partitions (e1 e2 : Bool) (cs1 cs2 : List Bytes) (h : cs1.flatten = cs2.flatten) :
    framesChunked e1 cs1 = framesChunked e2 cs2 := by
  rw [C12_chunk_independent, C12_chunk_independent, h]

/-- framer part of C09: whatever the bytes and the chunking, the parser does not panic (no slice expression out of
    range, none reading stale bytes between len and cap) and never asks the reader for zero bytes (which would spin);
    termination of every loop is by construction (`findIdx`: well-founded on unread chunks, `runG`: on buffered +
    unread bytes) — `framesChunked` is a total function. -/
theorem C12_no_fault (eofd : Bool) (cs : List Bytes) (w : String) :
    (framesChunked eofd cs).end_ ≠ .fault w := by
  rw [C12_chunk_independent]
  exact framesWhole_no_fault _ w

/-- …so every stream ends with an error value of `ReadMessage` (EOF or a BodyLength error) -/
theorem C12_ends_with_error (eofd : Bool) (cs : List Bytes) : ∃ c, (framesChunked eofd cs).end_ = .err c := by
  cases h : (framesChunked eofd cs).end_ with
  | err c => exact ⟨c, rfl⟩
  | fault w => exact (C12_no_fault eofd cs w h).elim

/-- the defect repaired by the `fix:` commit: with the original arithmetic `offset + length` wraps negative … -/
theorem C12_orig_overflow_witness : wrap64 ((15 : Int) + 9223372036854775807) < 0 := by decide

/-- … and a negative offset passes the `offset > len(buffer)` test and panics in `p.buffer[offset:]` -/
theorem C12_orig_negative_offset_faults (off : Int) (h : off < 0) (d : Bytes) (p : P) :
    findIndexAfterOffset off d p = .fault "slice bounds out of range" := by
  simp [findIndexAfterOffset, h]
