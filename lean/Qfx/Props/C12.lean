/-
  C12 — "Stream framing is independent of how the bytes arrive" (and the framer part of C09).
  Property theorems only; helper lemmas are in Qfx/Lemmas/Framer.lean.
-/
import Qfx.Model.Framer
import Qfx.Spec.Framer
open Qfx Qfx.Framer Qfx.Spec

/-- non-vacuity: the overflow guard matters — the original arithmetic yields a negative search offset -/
theorem C12_orig_overflow_witness : wrap64 ((15 : Int) + 9223372036854775807) < 0 := by decide
