/-
  C08 — "Application traffic flows only inside a completed logon".
  Property theorems only (the automaton: Qfx/Spec/SessionTypedC08.lean; helper lemmas: Qfx/Lemmas/SessC08{,b,c,d}.lean,
  Qfx/Lemmas/SessFrame.lean).

  properties.jsonl: "On every connection the first message the engine transmits is a Logon or a Logout; no application
  message is transmitted for the first time before the logon handshake has completed or after the engine has sent its
  Logout (replays answering a ResendRequest remain possible until the connection ends), and none is delivered to the
  application outside the interval between the logon notification and the logout notification. Every logged-on period
  ends with exactly one logout notification when the connection ends, and after a disconnect nothing more is written to
  that connection."
-/
import Qfx.Lemmas.SessC08d
import Qfx.Props.C01
open Qfx Qfx.Sess

/-- the automaton state agrees with the session between two events: nothing violated so far; "connection open" is the
    session's connection; the notification flag is up exactly in the logged-on states and the logout state; no second
    logout notification is possible; an unwritten connection is an acceptor's in the logon state; what is queued may be
    written; no Logout has been written while the session is (or is about to be) logged on -/
def C08Good (g : G8) (s : Sess) : Prop := S g s ∧ s.log = []

theorem C08Good_init (cfg : Cfg) (s0 t0 : Int) : C08Good G8.init (initSess cfg s0 t0) := by
  refine ⟨⟨{ ok := rfl, conn := rfl, cb := rfl, hs := (fun h => by cases h), notif := (fun h => by cases h),
             fresh := (fun h => by cases h), queue := (fun h => by cases h), noconn := fun _ => rfl }, fun h => by cases h⟩, rfl⟩

/-- one event, any state, any event (the application sends application messages): the automaton accepts the event's
    marked observations and stays in agreement with the session -/
theorem C08_step (s : Sess) (e : Ev) (g : G8) (happ : appSend e = true) (h : C08Good g s) :
    C08Good ((obs8Of e (step s e)).foldl c8Step g) (step s e).1 := by
  obtain ⟨hS, hlog⟩ := h
  have hS' : S g s.clearLog := hS.congr rfl rfl rfl rfl rfl rfl
  have key := SK_stepCore g s.clearLog e rfl happ hS'
  have hfold : (obs8Of e (step s e)).foldl c8Step g = g8Of (g8Start g s.clearLog e) (stepCore s.clearLog e).1 := by
    unfold obs8Of step g8Of
    simp only [List.foldl_append, List.foldl_map]
    cases e <;> first
      | rfl
      | (show List.foldl _ (List.foldl c8Step g (if ((stepCore s.clearLog Ev.connect).2 == "ok") = true then [Obs8.connected] else [])) _ = _
         unfold g8Start
         have : (stepCore s.clearLog Ev.connect).2 = (connect s.clearLog).2 := rfl
         rw [this]
         split <;> rfl)
  rw [hfold]
  exact ⟨S.congr (s := (stepCore s.clearLog e).1) key rfl rfl rfl rfl rfl rfl, rfl⟩

theorem C08_run (s : Sess) (evs : List Ev) (g : G8) (happ : evs.all appSend = true) (h : C08Good g s) :
    C08Good ((traceOf8 s evs).foldl c8Step g) (runEvents s evs) := by
  induction evs generalizing s g with
  | nil => exact h
  | cons e es ih =>
    simp only [List.all_cons, Bool.and_eq_true] at happ
    simp only [traceOf8, runEvents, List.foldl_append]
    exact ih _ _ happ.2 (C08_step s e g happ.1 h)

/-- **C08**, every configuration (both roles, every BeginString, reset options, persistence …), every initial pair of
    counters, every finite history of connects, inbound messages (direct or buffered), application sends (also while
    disconnected), flushes, timer events of all four kinds, stop requests, disconnects and session-time checks, the
    application sending application messages: the automaton accepts the whole marked trace — on every connection the
    first write is a Logon or a Logout, a first-time application message is written only after the logon notification
    of that connection and not after a Logout was written on it, nothing is delivered to the application outside the
    interval between the logon and the logout notification, a connection is closed only with the notification flag
    down, at most one logout notification is given per connection, nothing is written without an open connection,
    and a connection starts only when none is open and the notification flag is down. -/
theorem C08_trace_shape (cfg : Cfg) (s0 t0 : Int) (evs : List Ev) (happ : evs.all appSend = true) :
    c08Accepts (traceOf8 (initSess cfg s0 t0) evs) = true :=
  (C08_run (initSess cfg s0 t0) evs G8.init happ (C08Good_init cfg s0 t0)).1.1.ok

/-- after every history the automaton state mirrors the session: the notification flag is up exactly in the
    logged-on states and the logout state — so a session that is not connected has had its logout notification —
    and the automaton's connection is the session's -/
theorem C08_flags_track_session (cfg : Cfg) (s0 t0 : Int) (evs : List Ev) (happ : evs.all appSend = true) :
    let g := (traceOf8 (initSess cfg s0 t0) evs).foldl c8Step G8.init
    let s := runEvents (initSess cfg s0 t0) evs
    g.cb = (s.st.loggedOn || s.st.isLogout) ∧ g.conn = s.out ∧ (s.st.connected = false → g.cb = false ∧ g.conn = false) := by
  intro g s
  have h := (C08_run (initSess cfg s0 t0) evs G8.init happ (C08Good_init cfg s0 t0)).1.1
  refine ⟨h.cb, h.conn, fun hc => ?_⟩
  have hd := W.toDown h hc
  exact ⟨hd.2.1, hd.2.2.1⟩

/-- the fuel of the model's mutual recursion is sufficient: the first drain of a disconnect leaves nothing pending, so
    the second one (what is left of the original code's single drain) never processes a message after the logout
    notification -/
theorem C08_first_drain_complete (fuel : Nat) (s : Sess) (h : pend s < fuel) :
    pend (drainIn fuel s) = 0 ∧ drainIn fuel (discMid (drainIn fuel s)) = discMid (drainIn fuel s) := by
  have h1 := drainIn_complete fuel s h
  exact ⟨h1, drainIn_idle fuel _ (by rw [pend_discMid]; exact h1)⟩

/-! ### the automaton is not vacuous: each clause rejects a trace that violates exactly it -/
private def wD : Obs8 := .obs (.wire { kind := "D", seq := 2, f := [] })
private def wDdup : Obs8 := .obs (.wire { kind := "D", seq := 2, f := [(43, "Y")] })
private def wA : Obs8 := .obs (.wire { kind := "A", seq := 1, f := [] })
private def w5 : Obs8 := .obs (.wire { kind := "5", seq := 3, f := [] })
#guard c08Accepts [.connected, wA, .obs .onLogon, wD, .obs (.fromApp "2" 2), w5, wDdup, .obs .onLogout, .obs .closed]
#guard !c08Accepts [.connected, wD]                                             -- first write not Logon / Logout
#guard !c08Accepts [.connected, wA, wD]                                         -- application message before the handshake
#guard !c08Accepts [.connected, wA, .obs .onLogon, w5, wD]                      -- … after the Logout
#guard !c08Accepts [.connected, wA, .obs (.fromApp "2" 2)]                      -- delivery before the logon notification
#guard !c08Accepts [.connected, wA, .obs .onLogon, .obs .onLogout, .obs (.fromApp "2" 2)]   -- … after the logout notification
#guard !c08Accepts [.connected, wA, .obs .onLogon, .obs .closed]                -- closed without logout notification
#guard !c08Accepts [.connected, wA, .obs .onLogon, .obs .onLogout, .obs .onLogout]          -- two logout notifications
#guard !c08Accepts [.connected, wA, .obs .onLogon, .obs .onLogout, .obs .closed, w5]        -- write after close
#guard !c08Accepts [wA]                                                         -- write without a connection
#guard !c08Accepts [.connected, wA, .obs .onLogon, .connected]                  -- new connection inside a logged-on period

/-! ### the theorem is not vacuous: a concrete history with traffic in both directions -/
private def lg : InMsg :=
  { f := [(8, "FIX.4.2"), (35, "A"), (49, "TGT"), (56, "SND"), (34, "1"), (52, "@0"), (98, "0"), (108, "30")] }
private def app (seq : Nat) : InMsg :=
  { f := [(8, "FIX.4.2"), (35, "D"), (49, "TGT"), (56, "SND"), (34, toString seq), (52, "@0")] }
private def ord : OutMsg := { kind := "D", seq := 0, f := [] }
private def demo : List Ev :=
  [.send ord, .connect, .send ord, .incomingMsg (some lg), .incomingMsg (some (app 2)), .send ord, .flush,
   .arrive (app 3), .timeout .peerTimeout, .timeout .peerTimeout, .send ord, .connect]
#guard demo.all appSend
#guard c08Accepts (traceOf8 (initSess {} 1 1) demo)
-- what the history shows: the messages queued before the logon are dropped, one application message goes out after it,
-- two are delivered (the second one from the buffer, during the disconnect, before the logout notification)
#guard ((traceOf8 (initSess {} 1 1) demo).filter fun o => match o with
          | .connected | .obs (.fromApp _ _) | .obs .onLogon | .obs .onLogout | .obs .closed => true
          | .obs (.wire m) => appFirst m
          | _ => false)
        == [.connected, .obs .onLogon, .obs (.fromApp "2" 2), .obs (.wire { kind := "D", seq := 4, f := [] }),
            .obs (.fromApp "3" 3), .obs .onLogout, .obs .closed, .connected]
-- the hypothesis on application sends is needed: an application that sends a Logout itself and then an order gets the
-- order transmitted after that Logout (outside the property's reading of "the engine has sent its Logout")
#guard !c08Accepts (traceOf8 (initSess {} 1 1)
          [.connect, .incomingMsg (some lg), .send { kind := "5", seq := 0, f := [] }, .flush, .send ord, .flush])

/-!
Clause checklist (properties.jsonl C08 → theorems)
* on every connection the first message transmitted is a Logon or a Logout  : C08_trace_shape (clause `fresh` of `c8Step`)
* no first-time application message before the handshake has completed     : C08_trace_shape (`handshake`)
* … nor after the engine has sent its Logout; replays remain possible       : C08_trace_shape (`sentLogout`; `appFirst` excludes 43 = Y)
* none delivered outside [logon notification, logout notification]          : C08_trace_shape (`cb` on `fromApp`) — this includes the
                                                                              messages still buffered at a disconnect (C08_first_drain_complete)
* every logged-on period ends with exactly one logout notification when the connection ends
                                                                            : C08_trace_shape (`closed` needs the flag down; `notified`: at most
                                                                              one per connection) + C08_flags_track_session (not connected ⇒ flag down)
* after a disconnect nothing more is written to that connection             : C08_trace_shape (`conn` on `wire`)
* an `onLogout` without a preceding `onLogon` (initiator whose logon attempt ended) is allowed by the automaton, as by the property
* quantifier: connects, inbound messages, application sends (also while disconnected), timer events, stops,
  disconnects, both roles                                                   : `∀ cfg s0 t0 evs` with `evs.all appSend`
* hypothesis `appSend`: the application hands `SendToTarget` application messages (kind not administrative); the
  correspondence drives kind "D" only; counterexample without it: last `#guard`
* not modelled: send failures / store failures; EnableLastMsgSeqNumProcessed; the byte layer
-/
