/- C08 — connection shape. First theorems; the trace-shape invariant over all histories is in progress (DESIGN §5 C08). -/
import Qfx.Spec.Session
open Qfx Qfx.Sess

/-- nothing is written without a connection: the queue is kept -/
theorem C08_no_write_without_connection (s : Sess) (h : s.out = false) : sendQueued s = s := by
  simp [sendQueued, h]

/-- while not logged on, application sends are only queued (numbered, persisted), never written -/
theorem C08_send_not_logged_on_queues (s : Sess) (m : OutMsg) (h : s.st.loggedOn = false) : sendInReplyTo s m = queueForSend s m := by
  simp [sendInReplyTo, h]

/-- SendAppMessages outside a logon drops the wire queue -/
theorem C08_replay_outside_logon_drops_queue (s : Sess) (m : OutMsg) (h : s.st.loggedOn = false) :
    enqueueAndSend s m = sendQueued ((s.setToSend []).setToSend ((s.setToSend []).toSend ++ [m])) := by
  simp [enqueueAndSend, h]

/-- in the Logon state anything but a Logon disconnects silently -/
theorem C08_logon_state_only_logon (s : Sess) (m : InMsg) (h : kindOf m ≠ "A") : logonFixMsgIn s m = (s, .latent) := by
  simp [logonFixMsgIn, h]
