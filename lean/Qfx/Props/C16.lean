/-
  C16 — every message store behaves like the same abstract store, durably.
-/
import Qfx.Model.Store
import Qfx.Spec.Store
import Qfx.Lemmas.Bytes
open Qfx Qfx.Store

/-- under ascending saves the abstract map is an append-only log -/
theorem C16_ainsert_ascending (n : Nat) (m : Bytes) (l : MsgMap) (h : ∀ p ∈ l, p.1 < n) :
    ainsert n m l = l ++ [(n, m)] := by
  induction l with
  | nil => rfl
  | cons p t ih =>
    obtain ⟨k, v⟩ := p
    have hk : k < n := h (k, v) (by simp)
    have : ¬ n < k := by omega
    have h2 : ¬ n = k := by omega
    simp [ainsert, this, h2, ih (fun q hq => h q (by simp [hq]))]

