/-
  C16 — "Every message store behaves like the same abstract store, durably."
  Statement (properties.jsonl): the memory, file and SQL stores return the same answers as one abstract store — two
  counters, a creation time and a map from sequence number to bytes — for any sequence of operations; for the persistent
  stores the same answers are given after a refresh and by a fresh store opened on the same backing files or database.

  Proved here: the text formats of the file store round-trip (counter files, index lines — the obligations the byte-exact
  file model adds over the abstract store), counters written through to the counter file are what a fresh store loads,
  the SQL model's counter write-through, isolation of sessions sharing one backing, the append-only shape of the abstract map under
  ascending saves, and the whole-history refinements `C16_memory_full`, `C16_file_full`, `C16_sql_full` (step simulations in
  Qfx/Lemmas/StoreRefine.lean and Qfx/Lemmas/StoreFile.lean).  Clause checklist at the end.
-/
import Qfx.Model.Store
import Qfx.Spec.Store
import Qfx.Lemmas.Bytes
import Qfx.Lemmas.Store
import Qfx.Lemmas.StoreRefine
import Qfx.Lemmas.StoreFile
open Qfx Qfx.Store

/-- under ascending saves the abstract map is an append-only log (what the header file and the messages table are) -/
theorem C16_ainsert_ascending (n : Nat) (m : Bytes) (l : MsgMap) (h : ∀ p ∈ l, p.1 < n) :
    ainsert n m l = l ++ [(n, m)] := by
  induction l with
  | nil => rfl
  | cons p t ih =>
    obtain ⟨k, v⟩ := p
    have hk : k < n := h (k, v) (by simp)
    have : ¬ n < k := by omega
    have h2 : ¬ n = k := by omega
    simp [ainsert, this, h2, ih (fun q hq => h q (by simp [hq]))]

/-- counter files: `strconv.Atoi(strings.Trim(fmt.Sprintf("%019d", n), "\r\n")) = n` for every non-negative Go int -/
theorem C16_counter_file_roundtrip (n : Nat) (hn : n ≤ 9223372036854775807) :
    atoiGo (trimCRLF (fmt019 n)) = some (n : Int) := counter_roundtrip n hn

/-- index lines: `Fscanf("%d,%d,%d\n")` reads back exactly what `Fprintf("%d,%d,%d\n")` wrote and leaves the rest of the
    header file for the next round of the loop -/
theorem C16_index_line_roundtrip (seq off size : Nat) (rest : Bytes)
    (h1 : seq ≤ 9223372036854775807) (h2 : off ≤ 9223372036854775807) (h3 : size ≤ 9223372036854775807) :
    scanf3 (headerLine (seq : Int) off size ++ rest) = .item seq off size rest :=
  scanf3_headerLine seq off size rest h1 h2 h3

/-- a whole-file rewrite at offset 0 that is at least as long as the old contents leaves exactly the new bytes -/
theorem C16_writeAt_cover (old data : Bytes) (h : old.length ≤ data.length) : writeAt old 0 data = data := by
  simp [writeAt, List.drop_eq_nil_of_le h]

/-- durability of the sender counter in the file store: after `SetNextSenderMsgSeqNum(n)` a fresh store (populateCache on
    the files left behind) loads `n` — for every store state whose counter file holds at most 19 bytes -/
theorem C16_file_sender_durable (w : FileW) (n : Nat) (hn : n ≤ 9223372036854775807) (old : Bytes)
    (hf : w.fs.sender = some old) (hl : old.length ≤ 19) (c : MemStore) :
    (populateCache c (w.step (.setS n)).1.fs).2.nextS = (n : Int) := by
  have h19 : old.length ≤ (fmt019 (n : Int)).length := by
    have h0 : ¬ ((n : Int) < 0) := by omega
    simp [fmt019, h0, padZero]; omega
  have hw : (w.step (.setS n)).1.fs.sender = some (fmt019 (n : Int)) := by
    cases hs : w.st.sync <;>
      simp [FileW.step, fileOpPrims, setSeqNumPrims, syncIf, hs, applyPrims, applyPrim, FS.get, FS.set, hf, C16_writeAt_cover old _ h19]
  have ht : (w.step (.setS n)).1.fs.target = w.fs.target := by
    cases hs : w.st.sync <;>
      simp [FileW.step, fileOpPrims, setSeqNumPrims, syncIf, hs, applyPrims, applyPrim, FS.get, FS.set, hf]
  simp only [populateCache, hw, counter_roundtrip n hn]
  cases (w.step (.setS n)).1.fs.target with
  | none => cases (w.step (.setS n)).1.fs.session <;> simp [MemStore.setS, MemStore.nextS] <;> (try split) <;> simp [MemStore.setS, MemStore.nextS]
  | some t =>
    cases (w.step (.setS n)).1.fs.session <;> simp [MemStore.setS, MemStore.nextS, MemStore.setT] <;>
      (repeat' split) <;> simp [MemStore.setS, MemStore.nextS, MemStore.setT]

private theorem lookup_map_other {α} (l : List (String × α)) (i j : String) (v : α) (h : i ≠ j) :
    (l.map (fun p => if p.1 == i then (i, v) else p)).lookup j = l.lookup j := by
  induction l with
  | nil => rfl
  | cons p t ih =>
    obtain ⟨k, x⟩ := p
    by_cases hk : k = i
    · subst hk
      have hj : (j == k) = false := by simp; exact fun e => h e.symm
      have e : (if ((k, x).1 == k) = true then (k, v) else (k, x)) = (k, v) := by simp
      rw [List.map_cons, e, List.lookup_cons, List.lookup_cons, ih]
      simp only [hj]
    · have e : (if ((k, x).1 == i) = true then (i, v) else (k, x)) = (k, x) := by simp [hk]
      rw [List.map_cons, e, List.lookup_cons, List.lookup_cons, ih]

private theorem lookup_append_other {α} (l : List (String × α)) (i j : String) (v : α) (h : i ≠ j) :
    (l ++ [(i, v)]).lookup j = l.lookup j := by
  induction l with
  | nil =>
    have hj : (j == i) = false := by simp; exact fun e => h e.symm
    simp [List.lookup_cons, hj]
  | cons p t ih =>
    obtain ⟨k, x⟩ := p
    simp [List.lookup_cons, ih]

/-- isolation: the stores of several sessions share one directory / one database, keyed by the session id (file-name
    prefix, id columns); an operation on session `i` rewrites entry `i` of the backing and leaves the entry of every other
    session `j` unchanged.  The KEY of a file-store session is its file-name prefix (`Drv.filePrefixKey`, mirroring
    `createFilenamePrefix`), which is NOT injective on session ids: besides ids containing `_`/`-` (DESIGN §9 D14), a SenderSubID
    and a SenderLocationID with the same value (likewise on the target side) give the same key — two such sessions are one store
    on disk.  That is the recorded finding `C16/sessions_share_files`; the theorem speaks about distinct KEYS. -/
theorem C16_isolation {α} (l : List (String × α)) (i j : String) (v : α) (h : i ≠ j) :
    (bset l i v).lookup j = l.lookup j := by
  unfold bset
  split
  · exact lookup_map_other l i j v h
  · exact lookup_append_other l i j v h

/-- … and the rewritten entry is what the next operation on session `i` finds -/
theorem C16_backing_own_entry {α} (l : List (String × α)) (i : String) (v : α) :
    (bset l i v).lookup i = some v := by
  unfold bset
  split
  · rename_i h
    induction l with
    | nil => simp at h
    | cons p t ih =>
      obtain ⟨k, x⟩ := p
      by_cases hk : k = i
      · subst hk
        have e : (if ((k, x).1 == k) = true then (k, v) else (k, x)) = (k, v) := by simp
        rw [List.map_cons, e, List.lookup_cons]
        simp
      · have hki : (k == i) = false := by simp [hk]
        have hik : (i == k) = false := by simp; exact fun e => hk e.symm
        simp only [List.any_cons, hki, Bool.false_or] at h
        have e : (if ((k, x).1 == i) = true then (i, v) else (k, x)) = (k, x) := by simp [hk]
        rw [List.map_cons, e, List.lookup_cons, ih h]
        simp only [hik]
  · rename_i h
    induction l with
    | nil => simp [List.lookup_cons]
    | cons p t ih =>
      obtain ⟨k, x⟩ := p
      simp only [List.any_cons, Bool.or_eq_true, not_or] at h
      have hik : (i == k) = false := by
        have := h.1; simp at this; simp; exact fun e => this e.symm
      simp [List.lookup_cons, hik]
      exact ih (by simpa using h.2)

/-- SQL store: counters are written through to the session row, so a fresh store (populateCache on the tables left
    behind) loads them -/
theorem C16_sql_counters_durable (w : SqlW) (n : Nat) (r : SessRow) (hr : w.db.sess = some r) (c : MemStore) :
    (sqlPopulate c (w.step (.setS n)).1.db).1.nextS = (n : Int)
    ∧ (sqlPopulate c (w.step (.setT n)).1.db).1.nextT = (n : Int) := by
  constructor <;>
    simp [SqlW.step, SqlW.stepF, fails, sqlPopulate, Tables.updOutgoing, Tables.updIncoming, hr, MemStore.setS, MemStore.setT,
          MemStore.nextS, MemStore.nextT]

/-- memory store: the counters-minus-one representation is invisible -/
theorem C16_memory_counters (w : MemW) (n : Nat) :
    (w.step (.setS n)).2.sender = (n : Int) ∧ ((w.step (.setS n)).1.step .incS).2.sender = (n : Int) + 1
    ∧ (w.step .reset).2.sender = 1 ∧ (w.step .reset).2.target = 1 ∧ (w.step .reset).1.st.map = [] := by
  simp [MemW.step, MemStore.setS, MemStore.nextS, MemStore.incS, MemStore.reset, MemStore.nextT]

/-! ## refinement: every store model gives the answers of the abstract store, for every history -/

/-- the quantifier of C16, "ascending save numbers per epoch": every save uses a number above all numbers saved since the
    last reset (`hi` = highest so far) -/
def C16_ascending : Option Nat → List Op → Prop := Asc

/-- every number that occurs fits a Go `int`: counters, sequence numbers, total bytes saved (the file store prints them with
    `%019d` / `%d` and reads them back with `Atoi` / `Fscanf`, which fail beyond 2^63 − 1) -/
def C16_fitsGoInt : AStore → List Op → Prop := FitsRun

/-- memory store: for EVERY history (no hypothesis on save numbers) the observations are those of the abstract store.
    (A memory store is not persistent, so close-and-reopen is not an operation on it.) -/
theorem C16_memory_full (ops : List Op) (h : ∀ o ∈ ops, o ≠ .reopen) :
    ((MemW.create 0).run ops).2 = (({} : AStore).run ops).2 :=
  memR_run ops {} _ (memR_init 0) h

/-- file store (syncing on or off), byte-exact model: for every history with ascending saves per epoch — including refresh and
    close-and-reopen on the same files — every return value, counter, creation-time relation and retrieved message list
    equals that of the abstract store. -/
theorem C16_file_full (sync : Bool) (ops : List Op) (ha : C16_ascending none ops) (hf : C16_fitsGoInt {} ops) :
    ((FileW.open sync {} 0).run ops).2 = (({} : AStore).run ops).2 :=
  fileR_run ops {} _ none [] [] (fileR_init sync) ha hf

/-- SQL store over the two-table model: likewise, including refresh and a fresh store on the same database. -/
theorem C16_sql_full (ops : List Op) (ha : C16_ascending none ops) :
    ((SqlW.open {} 0).run ops).2 = (({} : AStore).run ops).2 :=
  sqlR_run ops {} _ none sqlR_init ha

/-- non-vacuity: a history with saves, reopen, refresh, reset and a second epoch meets both hypotheses -/
example : C16_ascending none [.setS 7, .saveIncr 7 [65], .reopen, .save 9 [66, 67], .get 1 9, .reset, .save 1 [68], .refresh] := by
  simp [C16_ascending, Asc, Qfx.Spec.Store.ascendingOk, Qfx.Spec.Store.hiAfter]
example : C16_fitsGoInt {} [.setS 7, .saveIncr 7 [65], .reopen, .save 9 [66, 67], .get 1 9, .reset, .save 1 [68], .refresh] := by
  simp [C16_fitsGoInt, FitsRun, Fits, AStore.step, ainsert, totalLen, maxInt]
example : ((SqlW.open {} 0).run [.setS 7, .saveIncr 7 [65], .reopen, .get 1 9]).2
        = (({} : AStore).run [.setS 7, .saveIncr 7 [65], .reopen, .get 1 9]).2 := by decide

/-! ## the event loop and a sending goroutine on one SQL store

The engine's event loop updates the INBOUND counter outside the send lock while a sending goroutine saves a message and
advances the OUTBOUND counter under it: the only pair of store operations that can overlap in a running session.  In the
SQL store the two touch different columns of the session row and different fields of the cache, so the order in which
they take effect does not matter — which is what the `sqlinter` operation of the store family demands of the real store at
statement granularity (the outcome of the interleaving must be the sequential one). -/

/-- the operations the event loop applies to the inbound side of its store (not under the send lock) -/
def Qfx.Store.Op.targetSide : Op → Bool
  | .setT _ | .incT => true
  | _ => false
/-- the operations a sending goroutine applies to the outbound side (under the send lock) -/
def Qfx.Store.Op.senderSide : Op → Bool
  | .setS _ | .incS | .save _ _ | .saveIncr _ _ => true
  | _ => false

theorem C16_sql_sides_commute (w : SqlW) (a b : Op) (ha : a.targetSide = true) (hb : b.senderSide = true) :
    ((w.step a).1.step b).1 = ((w.step b).1.step a).1 := by
  cases a <;> simp [Op.targetSide] at ha <;> cases b <;> simp [Op.senderSide] at hb
  all_goals first
    | (simp [SqlW.step, SqlW.stepF, fails, MemStore.setS, MemStore.setT, MemStore.nextS, MemStore.nextT, updIncoming_updOutgoing]; done)
    | (rename_i n m
       cases h : w.db.insertMsg n m <;>
         simp [SqlW.step, SqlW.stepF, fails, MemStore.setS, MemStore.setT, MemStore.nextS, MemStore.nextT,
               updIncoming_updOutgoing, insertMsg_updIncoming, h])

/-- non-vacuity: on a store that holds a session row and a message the two orders give one (non-initial) state -/
example : (((SqlW.open {} 0).step (.saveIncr 1 [65])).1.step .incT).1.db.sess.map (fun r => (r.incoming, r.outgoing)) = some (2, 2) := by decide

/-!
Clause checklist (properties.jsonl C16 → here)
* "counters reflect the last set/increment": C16_memory_counters, C16_file_sender_durable, C16_sql_counters_durable (single steps);
  whole histories: C16_memory_full, C16_file_full, C16_sql_full (refinement theorems).
* "saved messages come back byte-identical, in ascending order and only within the requested range": C16_index_line_roundtrip
  (one loop round of IterateMessages on a well-formed header), C16_ainsert_ascending; whole histories: the three `_full` theorems
  (memory: integer-range loop = range selection of the sorted map; file: header = rendering of the log, Fscanf loop = range selection;
  SQL: ORDER BY of a sorted table is the identity).
* "reset returns counters to 1, forgets all messages and renews the creation time": C16_memory_counters (reset part); monitor `creation_time_differs`.
* "the same answers after a refresh and by a fresh store": C16_counter_file_roundtrip, C16_file_sender_durable, C16_sql_counters_durable.
* "several sessions sharing one backing directory or database": C16_isolation, C16_backing_own_entry.
-/
