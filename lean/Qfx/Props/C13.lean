/-
  C13 — "Repeating groups survive the trip through the wire".
  Property theorems only: structural facts of `RepeatingGroup.Write` / `Read` that the round trip rests on.  The full
  round trip (build + parse + GetGroup, without and with dictionary, any nesting) is stated as `…_full` and checked on
  every run by the monitor clauses `group_roundtrip` / `followers_found` and the correspondence.
-/
import Qfx.Lemmas.CodecRound
import Qfx.Lemmas.CodecDictGroup
import Qfx.Lemmas.CodecDictNested
import Qfx.Lemmas.CodecDictWalk
import Qfx.Lemmas.CodecDictExample
import Qfx.Lemmas.CodecDictStack
import Qfx.Lemmas.CodecDictNest
import Qfx.Lemmas.CodecWriteNest
import Qfx.Lemmas.CodecRoundDict
import Qfx.Lemmas.CodecGroupNested
open Qfx Qfx.Spec

/-- `Write` starts with `<tag>=<number of entries>` -/
theorem C13_write_starts_with_count (tag : Tag) (tmpl : List Item) (es : List (List GFld)) (tvs : List TagValue)
    (h : writeGroup tag tmpl es = .ok tvs) : tvs.head? = some (TagValue.init tag (fmtNat es.length)) := by
  unfold writeGroup at h
  split at h
  · injection h with h; subst h; rfl
  · cases h
  · cases h

/-- "yields the same number of entries": a successful `Read` returns exactly as many entries as the NumInGroup field
    announces (0 entries for a count of 0) — for every template, nesting and input -/
theorem C13_read_count (fuel : Nat) (tmpl : List Item) (t0 : TagValue) (rest : List TagValue)
    (r : List TagValue × List GEntry) (h : readGroup fuel tmpl (t0 :: rest) = .ok r) :
    ∃ n, atoi t0.value = .ok n ∧ (r.2.length : Int) = n := by
  cases fuel with
  | zero => simp [readGroup] at h
  | succ fuel =>
    simp only [readGroup] at h
    split at h
    · cases h
    · cases h
    · rename_i n hn
      refine ⟨n, hn, ?_⟩
      split at h
      · rename_i h0; injection h with h; subst h; simp [h0]
      · split at h
        · rename_i tv' groups hl
          split at h
          · cases h
          · rename_i hc; injection h with h; subst h
            simpa using hc
        · cases h
        · cases h

/-- a count of zero consumes just the NumInGroup field -/
theorem C13_read_zero (fuel : Nat) (tmpl : List Item) (t0 : TagValue) (rest : List TagValue) (h0 : atoi t0.value = .ok 0) :
    readGroup (fuel + 1) tmpl (t0 :: rest) = .ok (rest, []) := by
  simp [readGroup, h0]

/-- "the fields following the group are still found": the read loop stops at the first field whose tag is not in the
    template and hands back everything from that field on, untouched -/
theorem C13_read_stops_at_follower (fuel : Nat) (tmpl : List Item) (f : TagValue) (rest : List TagValue)
    (done : List GEntry) (cur : Option GEntry) (hf : findItem tmpl f.tag = none) :
    readLoop (fuel + 1) tmpl (f :: rest) done cur = .ok (f :: rest, finishGroups done cur) := by
  simp [readLoop, hf]

/-- one element of an entry: a template element that is not the delimiter is recorded in the current entry under its
    tag, with the rest of the array as its range, and the loop continues behind it -/
theorem C13_read_member (fuel : Nat) (d : Item) (tmpl : List Item) (f : TagValue) (rest : List TagValue)
    (done : List GEntry) (g : GEntry) (t : Tag) (hf : findItem (d :: tmpl) f.tag = some (.elem t)) (hd : f.tag ≠ d.tag) :
    readLoop (fuel + 1) (d :: tmpl) (f :: rest) done (some g) =
      readLoop fuel (d :: tmpl) rest done (some (g.put f.tag (f :: rest))) := by
  simp [readLoop, hf, hd]

/-- the delimiter closes the current entry and opens a new one -/
theorem C13_read_delimiter (fuel : Nat) (d : Tag) (tmpl : List Item) (f : TagValue) (rest : List TagValue)
    (done : List GEntry) (cur : Option GEntry) (hd : f.tag = d) :
    readLoop (fuel + 1) (.elem d :: tmpl) (f :: rest) done cur =
      readLoop fuel (.elem d :: tmpl) rest (finishGroups done cur) (some (GEntry.empty.put f.tag (f :: rest))) := by
  simp [readLoop, findItem, Item.tag, hd]

/-- with a dictionary (after the fix of D6): a field that follows a nested group is attributed to the innermost
    enclosing group that lists it; `popToMember` returns a proper prefix of the tag stack, or `none` (the group ends) -/
theorem C13_pop_returns_shorter_stack (d : Dicts) (fields : List TagValue) (hd : FieldMap) (t : Tag) (rev : List Tag)
    (tags' : List Tag) (gf : List DNode) (h : popToMember d fields hd t rev = some (tags', gf)) :
    tags'.length < rev.length ∧ isGroupMember t gf = true := by
  induction rev with
  | nil => simp [popToMember] at h
  | cons x r ih =>
    unfold popToMember at h
    split at h
    · cases h
    · simp only [] at h
      split at h
      · rename_i hm
        injection h with h
        simp only [Prod.mk.injEq] at h
        obtain ⟨h1, h2⟩ := h
        subst h1; subst h2
        exact ⟨by simp, hm⟩
      · have := ih h
        exact ⟨by simp only [List.length_cons]; omega, this.2⟩

/-- READ INVERTS THE WIRE FORM (templates without nested groups, any number of entries, any number of members per entry,
    members in any order after the delimiter, arbitrary values, anything behind the group that does not carry a template tag).
    `GetGroup` on `<tag>=<n>` followed by the `n` entries and then `rest` returns exactly `n` entries; entry `i` lists the
    tags of the i-th wire entry in wire order and maps each of them (tags distinct inside an entry) to a range that starts
    with that very field — so `GetBytes` on the entry returns the wire value; and the fields behind the group are left
    untouched ("the fields following the group are still found"). -/
theorem C13_read_inverts_wire_flat (gtag d : Tag) (ts : List Tag) (rest : List TagValue) (es : List (List (Tag × Bytes)))
    (hrest : FollowerOK (d :: ts) rest) (hes : ∀ e ∈ es, EntryOK d (d :: ts) e) (hn : es.length < 9223372036854775808) :
    ∃ gs, readGroup (readFuel (countTV gtag es.length :: (es.flatMap serEntry ++ rest))) (flatTmpl (d :: ts))
            (countTV gtag es.length :: (es.flatMap serEntry ++ rest)) = .ok (rest, gs) ∧
      gs.length = es.length ∧
      ∀ (i : Nat) (e : List (Tag × Bytes)), es[i]? = some e → ∃ g : GEntry, gs[i]? = some g ∧ g.tags = e.map (·.1) ∧
        ((e.map (·.1)).Nodup → ∀ t v, (t, v) ∈ e → ∃ tail, alFind g.lookup t = some (TagValue.init t v :: tail)) := by
  have hfuel : readFuel (countTV gtag es.length :: (es.flatMap serEntry ++ rest)) ≥ stepsOf es + 3 := by
    have := flatMap_serEntry_length es
    simp [readFuel, this]; omega
  exact ⟨readSpec rest es, readGroup_flat gtag d ts rest hrest es hes hn _ hfuel, readSpec_length rest es,
    readSpec_entry d ts rest es hes⟩

/-- ROUND TRIP AT THE FIELD LEVEL (templates without nested groups).  "A repeating group written … and read back through the
    same template yields the same number of entries with the same fields and values in the same order … the fields
    following the group are still found."  For every template `d :: ts` of distinct element tags, every number of entries,
    every entry built by ANY sequence of setter calls on template tags (any order, overwrites allowed) that sets the
    delimiter, and anything behind the group that does not start with a template tag:
    `Write` followed by `Read` returns one entry per entry written, in which every tag that was set maps to a range
    starting with a field that carries the LATEST value set, and hands back `rest` untouched. -/
theorem C13_roundtrip_flat (gtag d : Tag) (ts : List Tag) (hts : (d :: ts).Nodup) (rest : List TagValue)
    (hrest : FollowerOK (d :: ts) rest) (es : List (List (Tag × Bytes)))
    (hes : ∀ e ∈ es, (∀ p ∈ e, p.1 ∈ d :: ts) ∧ (latest e d).isSome = true) (hn : es.length < 9223372036854775808) :
    ∃ tvs gs, writeGroup gtag (flatTmpl (d :: ts)) (es.map fldsOf) = .ok tvs ∧
      readGroup (readFuel (tvs ++ rest)) (flatTmpl (d :: ts)) (tvs ++ rest) = .ok (rest, gs) ∧
      gs.length = es.length ∧
      ∀ (i : Nat) (e : List (Tag × Bytes)), es[i]? = some e → ∃ g : GEntry, gs[i]? = some g ∧
        ∀ t v, latest e t = some v → ∃ tail, alFind g.lookup t = some (TagValue.init t v :: tail) := by
  have hw := writeEntries_flat (d :: ts) hts es (fun e he => (hes e he).1)
  have hes' : ∀ e ∈ es.map (canon (d :: ts)), EntryOK d (d :: ts) e := by
    intro e he
    obtain ⟨e0, he0, rfl⟩ := List.mem_map.1 he
    exact canon_entryOK d ts hts e0 (hes e0 he0).2
  have hfm : (es.map (canon (d :: ts))).flatMap serEntry = es.flatMap (fun e => serEntry (canon (d :: ts) e)) := by
    rw [List.flatMap_map]
  have hlen : (es.map (canon (d :: ts))).length = es.length := by simp
  have hlen2 : (es.map fldsOf).length = es.length := by simp
  obtain ⟨gs, hread, hgl, hent⟩ := C13_read_inverts_wire_flat gtag d ts rest (es.map (canon (d :: ts))) hrest hes' (by rw [hlen]; exact hn)
  refine ⟨countTV gtag es.length :: es.flatMap (fun e => serEntry (canon (d :: ts) e)), gs, ?_, ?_, by rw [hgl, hlen], ?_⟩
  · simp only [writeGroup, hw, hlen2]
  · rw [hlen, hfm] at hread
    simpa [List.append_assoc] using hread
  · intro i e hi
    obtain ⟨g, hg, _, hfind⟩ := hent i (canon (d :: ts) e) (by simp [hi])
    refine ⟨g, hg, ?_⟩
    intro t v hl
    have hm : t ∈ d :: ts := (hes e (List.mem_of_getElem? hi)).1 _ (latest_mem e t v hl)
    exact hfind ((canon_tags_sublist (d :: ts) e).nodup hts) t v ((canon_mem (d :: ts) e t v).2 ⟨hm, hl⟩)

/-- THE TRIP THROUGH THE WIRE, WITHOUT DICTIONARY (templates without nested groups).  "A repeating group written into a message
    and read back from the parsed bytes through the same template yields the same number of entries with the same fields
    and values …".  For EVERY sequence of Message API operations (tags in their proper section, int64 tags other than
    XMLDataLen, SOH-free values) that leaves BeginString and MsgType set and a body group `gtag` holding what `SetGroup`
    stored for entries built by arbitrary setter calls on the template tags (`GroupIn`: template tags distinct, every entry
    sets the delimiter, no other TagValue of the message carries the group tag or a template tag — whatever else is in
    header, body before and after the group, and trailer):
    `build`, then `ParseMessage` (no dictionary), then `GetGroup(template)` on the parsed body succeeds with one entry per
    entry written, and in entry `i` every tag that was set maps to a field carrying the latest value set. -/
theorem C13_roundtrip_nodict_flat (fx : Fixes) (ops : List MOp) (hp : ∀ op ∈ ops, op.proper ∧ op.wire) (m : Message)
    (hrun : runMOps ops Message.new = .ok m)
    (h8 : (alFind m.header.lookup 8).isSome = true) (h35 : (alFind m.header.lookup 35).isSome = true)
    (gtag d : Tag) (ts : List Tag) (es : List (List (Tag × Bytes))) (hG : GroupIn m gtag d ts es)
    (bytes : Bytes) (m' : Message) (hbuild : m.build Fixes.cur = .ok (bytes, m')) (hsmall : bytes.length < 9223372036854775808) :
    ∃ (p : Message) (f : Field) (gs : List GEntry),
      parseMessage fx Dicts.none bytes = .ok p ∧ alFind p.body.lookup gtag = some f ∧
      getGroup (flatTmpl (d :: ts)) (f.full p.fields) = .ok gs ∧ gs.length = es.length ∧
      ∀ (i : Nat) (e : List (Tag × Bytes)), es[i]? = some e → ∃ g : GEntry, gs[i]? = some g ∧
        ∀ t v, latest e t = some v → ∃ tail, alFind g.lookup t = some (TagValue.init t v :: tail) := by
  obtain ⟨hb, hw⟩ := runMOps_wired ops _ m Built.new Wired.new hp hrun
  cases hf8 : alFind m.header.lookup 8 with
  | none => rw [hf8] at h8; cases h8
  | some f8 =>
    cases hf35 : alFind m.header.lookup 35 with
    | none => rw [hf35] at h35; cases h35
    | some f35 =>
      obtain ⟨l, hl⟩ := hb.ph.owned 8 f8 hf8
      subst hl
      obtain ⟨tv, rest, hl, ht⟩ := hb.ph.head 8 l hf8
      subst hl
      have hone := (hb.ph.special 8 _ hf8 tv (by simp) (Or.inl ht)).1
      rw [hone] at hf8
      exact roundtrip_nodict_flat fx m hb hw tv f35 hf8 hf35 gtag d ts es hG bytes m' hbuild hsmall

/-- the `GroupIn` hypothesis is what `SetGroup` establishes: it stores `Write`'s output under the group tag -/
theorem C13_setgroup_stores_write (m m' : Message) (gtag d : Tag) (ts : List Tag) (hts : (d :: ts).Nodup)
    (es : List (List (Tag × Bytes))) (hes : ∀ e ∈ es, ∀ p ∈ e, p.1 ∈ d :: ts)
    (h : m.setGroup .b gtag (flatTmpl (d :: ts)) (es.map fldsOf) = .ok m') :
    alFind m'.body.lookup gtag = some (.owned (countTV gtag es.length :: es.flatMap (fun e => serEntry (canon (d :: ts) e)))) :=
  setGroup_stores m m' gtag d ts hts es hes h

/-- WITH THE DICTIONARY THAT DEFINES THE GROUP (a group whose dictionary definition has no nested groups), group followed by
    further body fields.  The wire message `8, 9, 35, plain…, G=<n>, entries…, z0, plain…, 10` — `G` a repeating group of
    the message type `35` in the application dictionary with member list `C` (`FlatGroup`), the entries arbitrary
    well-formed entries over the dictionary's member tags (delimiter first, any member order and subset), `z0` a body
    field that is not a member, the plain fields not starting a dictionary group — is parsed by the dictionary-guided parser
    (`parseGroup`, after the fixes) into `Message.fields` = the wire fields, the body maps `G` to the view covering the count
    and all members, and `GetGroup` through the dictionary's own template returns one entry per wire entry with every
    member field mapped to a range that starts with it; the fields behind the group stay outside it. -/
theorem C13_dict_flat_group_mid (d : Dicts) (mt : Bytes) (G d0 : Tag) (ts : List Tag) (C : List DNode)
    (hg : FlatGroup d mt G C) (hC : C.map DNode.tag = d0 :: ts)
    (t8 t9 t35 z0 t10 : TagValue) (preA postB : List TagValue) (es : List (List (Tag × Bytes)))
    (hw8 : IsWire t8) (hw9 : IsWire t9) (hw35 : IsWire t35) (hw10 : IsWire t10)
    (h8 : t8.tag = 8) (h9 : t9.tag = 9) (h35 : t35.tag = 35) (h10 : t10.tag = 10) (hv : t35.value = mt)
    (hpre : PlainFields d preA) (hGi : inInt64 G)
    (hGh : isHeaderField d G = false) (hGt : isTrailerField d G = false)
    (hes : ∀ e ∈ es, EntryOK d0 (d0 :: ts) e) (hval : ∀ e ∈ es, ∀ p ∈ e, inInt64 p.1 ∧ ∀ c ∈ p.2, c ≠ SOH)
    (hn : es.length < 9223372036854775808)
    (hz : PlainFields d (z0 :: postB)) (hzm : z0.tag ∉ d0 :: ts)
    (hzh : isHeaderField d z0.tag = false) (hzt : isTrailerField d z0.tag = false)
    (hzG : ∀ tv ∈ z0 :: postB, tv.tag ≠ G) (hng10 : NoGroupTag d 10) (hh10 : isHeaderField d 10 = false)
    (hbl : atoi t9.value = .ok ((fieldsLength (t8 :: t9 :: t35 :: ((preA ++ countTV G es.length :: es.flatMap serEntry) ++ (z0 :: postB ++ [t10]))) : Nat) : Int)) :
    ∃ (m : Message) (f : Field),
      parseMessage Fixes.cur d (wireOf (t8 :: t9 :: t35 :: ((preA ++ countTV G es.length :: es.flatMap serEntry) ++ (z0 :: postB ++ [t10])))) = .ok m ∧
      m.fields = t8 :: t9 :: t35 :: ((preA ++ countTV G es.length :: es.flatMap serEntry) ++ (z0 :: postB ++ [t10])) ∧
      alFind m.body.lookup G = some f ∧
      getGroup (flatTmpl (d0 :: ts)) (f.full m.fields) = .ok (readSpec (z0 :: postB ++ [t10]) es) ∧
      (readSpec (z0 :: postB ++ [t10]) es).length = es.length ∧
      ((∀ tv ∈ postB, tv.tag ≠ z0.tag) → (m.body.getBytes m.fields z0.tag = .ok z0.value)) := by
  have hM : ∀ tv ∈ es.flatMap serEntry, IsWire tv ∧ isGroupMember tv.tag C = true := by
    intro tv htv
    obtain ⟨e, he, hm⟩ := List.mem_flatMap.1 htv
    refine ⟨canonTV_isWire tv (serEntry_canon e (hval e he) tv hm), ?_⟩
    rw [isGroupMember_iff, hC]
    obtain ⟨p, hp, hpt⟩ := serEntry_tags e tv hm
    obtain ⟨v0, e', hee, he'⟩ := hes e he
    rw [hpt]; subst hee
    rcases List.mem_cons.1 hp with h | h
    · subst h; simp
    · exact (he' p h).2
  have hg0 : IsWire (countTV G es.length) := canonTV_isWire _ (canon_init G _ (fun c hc => by
      have := List.all_eq_true.1 (fmtNat_all_digits es.length) c hc
      have := (isDigit_iff c).1 this; unfold SOH; omega) hGi)
  obtain ⟨m, hparse, hfields, hfind, hz0find⟩ := parse_dict_group_mid hg t8 t9 t35 (countTV G es.length) z0 t10 preA (es.flatMap serEntry) postB
    hw8 hw9 hw35 hw10 h8 h9 h35 h10 hv hpre hg0 rfl hGh hGt hM hz (by
      cases hc : isGroupMember z0.tag C with
      | false => rfl
      | true => exact absurd ((isGroupMember_iff _ _).1 hc) (by rw [hC]; exact hzm))
    hzh hzt hzG hng10 hh10 hbl
  refine ⟨m, _, hparse, hfields, hfind, ?_, readSpec_length _ _, ?_⟩
  rotate_left
  · intro hpz
    apply getBytes_view _ _ _ _ z0 (hz0find hpz)
    rw [hfields]
    have hL' : t8 :: t9 :: t35 :: ((preA ++ countTV G es.length :: es.flatMap serEntry) ++ (z0 :: postB ++ [t10])) =
        (t8 :: t9 :: t35 :: (preA ++ countTV G es.length :: es.flatMap serEntry)) ++ z0 :: (postB ++ [t10]) := by simp
    rw [hL', List.getElem?_append_right (by simp; omega)]
    have : 3 + preA.length + 1 + (es.flatMap serEntry).length - (t8 :: t9 :: t35 :: (preA ++ countTV G es.length :: es.flatMap serEntry)).length = 0 := by
      simp; omega
    rw [this]; rfl
  rw [hfields]
  have hL : t8 :: t9 :: t35 :: ((preA ++ countTV G es.length :: es.flatMap serEntry) ++ (z0 :: postB ++ [t10])) =
      (t8 :: t9 :: t35 :: preA) ++ countTV G es.length :: (es.flatMap serEntry ++ (z0 :: postB ++ [t10])) := by simp
  have := read_back_flat _ (t8 :: t9 :: t35 :: preA) (z0 :: postB ++ [t10]) G d0 ts es hL hes hn
    (fun f r hfr => by simp only [List.cons_append, List.cons.injEq] at hfr; rw [← hfr.1]; exact hzm)
  have e : (t8 :: t9 :: t35 :: preA).length = 3 + preA.length := by simp; omega
  rw [e] at this
  exact this

/-- WITH THE DICTIONARY, A GROUP THAT CONTAINS A NESTED GROUP (the D6 scenario, after the fix), whole parse: the message
    `8, 9, 35, plain…, G=<n>, leaf members of G…, N=<k>, members of N…, z0, plain…, 10` — `G` a group of the message type, `N` a group
    nested in it, `z0` a member of neither — parses into `Message.fields` = the wire fields, the body maps `G` to exactly the count
    field, its members, the nested count and the nested members, and the field `z0` BEHIND the nested group is found in the body
    (the unchanged code kept it inside the group: `C13_orig_swallows_behind_nested_group`). -/
theorem C13_dict_nested_group_mid (d : Dicts) (mt : Bytes) (G N : Tag) (C CN : List DNode) (hg : NestedGroup d mt G N C CN)
    (t8 t9 t35 g0 n0 z0 t10 : TagValue) (preA M1 MN postB : List TagValue)
    (hw8 : IsWire t8) (hw9 : IsWire t9) (hw35 : IsWire t35) (hw10 : IsWire t10)
    (h8 : t8.tag = 8) (h9 : t9.tag = 9) (h35 : t35.tag = 35) (h10 : t10.tag = 10) (hv : t35.value = mt)
    (hpre : PlainFields d preA) (hg0 : IsWire g0) (hG : g0.tag = G)
    (hGh : isHeaderField d G = false) (hGt : isTrailerField d G = false)
    (hM1 : ∀ tv ∈ M1, IsWire tv ∧ isGroupMember tv.tag C = true ∧ pathWalk C [tv.tag] = none)
    (hn0 : IsWire n0) (hN : n0.tag = N)
    (hMN : ∀ tv ∈ MN, IsWire tv ∧ isGroupMember tv.tag CN = true)
    (hz : PlainFields d (z0 :: postB)) (hzmN : isGroupMember z0.tag CN = false) (hzmC : isGroupMember z0.tag C = false)
    (hzh : isHeaderField d z0.tag = false) (hzt : isTrailerField d z0.tag = false)
    (hzG : ∀ tv ∈ z0 :: postB, tv.tag ≠ G)
    (hng10 : NoGroupTag d 10) (hh10 : isHeaderField d 10 = false)
    (hbl : atoi t9.value = .ok ((fieldsLength (t8 :: t9 :: t35 :: ((preA ++ g0 :: (M1 ++ n0 :: MN)) ++ (z0 :: postB ++ [t10]))) : Nat) : Int)) :
    ∃ (m : Message) (f : Field),
      parseMessage Fixes.cur d (wireOf (t8 :: t9 :: t35 :: ((preA ++ g0 :: (M1 ++ n0 :: MN)) ++ (z0 :: postB ++ [t10])))) = .ok m ∧
      m.fields = t8 :: t9 :: t35 :: ((preA ++ g0 :: (M1 ++ n0 :: MN)) ++ (z0 :: postB ++ [t10])) ∧
      alFind m.body.lookup G = some f ∧
      f.items m.fields = g0 :: (M1 ++ n0 :: MN) ∧
      ((∀ tv ∈ postB, tv.tag ≠ z0.tag) → m.body.getBytes m.fields z0.tag = .ok z0.value) := by
  obtain ⟨m, hparse, hfields, hfind, hz0find⟩ := parse_dict_nested_mid hg t8 t9 t35 g0 n0 z0 t10 preA M1 MN postB
    hw8 hw9 hw35 hw10 h8 h9 h35 h10 hv hpre hg0 hG hGh hGt hM1 hn0 hN hMN hz hzmN hzmC hzh hzt hzG hng10 hh10 hbl
  refine ⟨m, _, hparse, hfields, hfind, ?_, ?_⟩
  · rw [hfields]
    have hL : t8 :: t9 :: t35 :: ((preA ++ g0 :: (M1 ++ n0 :: MN)) ++ (z0 :: postB ++ [t10])) =
        (t8 :: t9 :: t35 :: preA) ++ ((g0 :: (M1 ++ n0 :: MN)) ++ (z0 :: postB ++ [t10])) := by simp
    have e : 3 + preA.length = (t8 :: t9 :: t35 :: preA).length := by simp; omega
    have e2 : 1 + (M1 ++ n0 :: MN).length = (g0 :: (M1 ++ n0 :: MN)).length := by simp; omega
    simp only [Field.items]
    rw [hL, e, List.drop_left, e2, List.take_left]
  · intro hpz
    apply getBytes_view _ _ _ _ z0 (hz0find hpz)
    rw [hfields]
    have hL' : t8 :: t9 :: t35 :: ((preA ++ g0 :: (M1 ++ n0 :: MN)) ++ (z0 :: postB ++ [t10])) =
        (t8 :: t9 :: t35 :: (preA ++ g0 :: (M1 ++ n0 :: MN))) ++ z0 :: (postB ++ [t10]) := by simp
    rw [hL', List.getElem?_append_right (by simp; omega)]
    have : 3 + preA.length + 1 + (M1 ++ n0 :: MN).length - (t8 :: t9 :: t35 :: (preA ++ g0 :: (M1 ++ n0 :: MN))).length = 0 := by
      simp; omega
    rw [this]; rfl

/-- WITH THE DICTIONARY, A GROUP WHOSE NESTED GROUPS ARE FLAT, MEMBER FIELDS IN ANY ARRANGEMENT (`Walk2`: any number of entries,
    leaf members, nested counts, nested members, back to members of the enclosing group — the D6 pop —, the next nested count), whole parse,
    fixed code: `8, 9, 35, plain…, G=<n>, <members>, z0, plain…, 10` parses into `Message.fields` = the wire fields, the body maps `G`
    to exactly the count field and all member fields, and `z0` — member of neither `G` nor the nested group the walk ends in — is found in
    the body with its wire value. -/
theorem C13_dict_depth2_group_mid (d : Dicts) (mt : Bytes) (G : Tag) (C : List DNode) (hg : OuterGroup d mt G C)
    (t8 t9 t35 g0 z0 t10 : TagValue) (preA M postB : List TagValue) (s' : GState) (hW : Walk2 d mt G C .outer M s')
    (hw8 : IsWire t8) (hw9 : IsWire t9) (hw35 : IsWire t35) (hw10 : IsWire t10)
    (h8 : t8.tag = 8) (h9 : t9.tag = 9) (h35 : t35.tag = 35) (h10 : t10.tag = 10) (hv : t35.value = mt)
    (hpre : PlainFields d preA) (hg0 : IsWire g0) (hG : g0.tag = G)
    (hGh : isHeaderField d G = false) (hGt : isTrailerField d G = false)
    (hz : PlainFields d (z0 :: postB)) (hzmC : isGroupMember z0.tag C = false) (hzmS : isGroupMember z0.tag (s'.members C) = false)
    (hzh : isHeaderField d z0.tag = false) (hzt : isTrailerField d z0.tag = false)
    (hzG : ∀ tv ∈ z0 :: postB, tv.tag ≠ G)
    (hng10 : NoGroupTag d 10) (hh10 : isHeaderField d 10 = false)
    (hbl : atoi t9.value = .ok ((fieldsLength (t8 :: t9 :: t35 :: ((preA ++ g0 :: M) ++ (z0 :: postB ++ [t10]))) : Nat) : Int)) :
    ∃ (m : Message) (f : Field),
      parseMessage Fixes.cur d (wireOf (t8 :: t9 :: t35 :: ((preA ++ g0 :: M) ++ (z0 :: postB ++ [t10])))) = .ok m ∧
      m.fields = t8 :: t9 :: t35 :: ((preA ++ g0 :: M) ++ (z0 :: postB ++ [t10])) ∧
      alFind m.body.lookup G = some f ∧
      f.items m.fields = g0 :: M ∧
      ((∀ tv ∈ postB, tv.tag ≠ z0.tag) → m.body.getBytes m.fields z0.tag = .ok z0.value) := by
  obtain ⟨m, hparse, hfields, hfind, hz0find⟩ := parse_dict_walk2_mid hg t8 t9 t35 g0 z0 t10 preA M postB s' hW
    hw8 hw9 hw35 hw10 h8 h9 h35 h10 hv hpre hg0 hG hGh hGt hz hzmC hzmS hzh hzt hzG hng10 hh10 hbl
  refine ⟨m, _, hparse, hfields, hfind, ?_, ?_⟩
  · rw [hfields]
    have hL : t8 :: t9 :: t35 :: ((preA ++ g0 :: M) ++ (z0 :: postB ++ [t10])) =
        (t8 :: t9 :: t35 :: preA) ++ ((g0 :: M) ++ (z0 :: postB ++ [t10])) := by simp
    have e : 3 + preA.length = (t8 :: t9 :: t35 :: preA).length := by simp; omega
    have e2 : 1 + M.length = (g0 :: M).length := by simp; omega
    simp only [Field.items]
    rw [hL, e, List.drop_left, e2, List.take_left]
  · intro hpz
    apply getBytes_view _ _ _ _ z0 (hz0find hpz)
    rw [hfields]
    have hL' : t8 :: t9 :: t35 :: ((preA ++ g0 :: M) ++ (z0 :: postB ++ [t10])) =
        (t8 :: t9 :: t35 :: (preA ++ g0 :: M)) ++ z0 :: (postB ++ [t10]) := by simp
    rw [hL', List.getElem?_append_right (by simp; omega)]
    have : 3 + preA.length + 1 + M.length - (t8 :: t9 :: t35 :: (preA ++ g0 :: M)).length = 0 := by
      simp; omega
    rw [this]; rfl

/-- the same with the group LAST in the body: CheckSum closes it at whatever nesting level the member fields end -/
theorem C13_dict_depth2_group_last (d : Dicts) (mt : Bytes) (G : Tag) (C : List DNode) (hg : OuterGroup d mt G C)
    (t8 t9 t35 g0 t10 : TagValue) (preA M : List TagValue) (s' : GState) (hW : Walk2 d mt G C .outer M s')
    (hw8 : IsWire t8) (hw9 : IsWire t9) (hw35 : IsWire t35) (hw10 : IsWire t10)
    (h8 : t8.tag = 8) (h9 : t9.tag = 9) (h35 : t35.tag = 35) (h10 : t10.tag = 10) (hv : t35.value = mt)
    (hpre : PlainFields d preA) (hg0 : IsWire g0) (hG : g0.tag = G)
    (hGh : isHeaderField d G = false) (hGt : isTrailerField d G = false)
    (h10m : isGroupMember 10 (s'.members C) = false) (hh10 : isHeaderField d 10 = false)
    (hbl : atoi t9.value = .ok ((fieldsLength (t8 :: t9 :: t35 :: ((preA ++ g0 :: M) ++ [t10])) : Nat) : Int)) :
    ∃ (m : Message) (f : Field),
      parseMessage Fixes.cur d (wireOf (t8 :: t9 :: t35 :: ((preA ++ g0 :: M) ++ [t10]))) = .ok m ∧
      m.fields = t8 :: t9 :: t35 :: ((preA ++ g0 :: M) ++ [t10]) ∧
      alFind m.body.lookup G = some f ∧ f.items m.fields = g0 :: M := by
  obtain ⟨m, hparse, hfields, hfind⟩ := parse_dict_walk2_last hg t8 t9 t35 g0 t10 preA M s' hW
    hw8 hw9 hw35 hw10 h8 h9 h35 h10 hv hpre hg0 hG hGh hGt h10m hh10 hbl
  refine ⟨m, _, hparse, hfields, hfind, ?_⟩
  rw [hfields]
  have hL : t8 :: t9 :: t35 :: ((preA ++ g0 :: M) ++ [t10]) = (t8 :: t9 :: t35 :: preA) ++ ((g0 :: M) ++ [t10]) := by simp
  have e : 3 + preA.length = (t8 :: t9 :: t35 :: preA).length := by simp; omega
  have e2 : 1 + M.length = (g0 :: M).length := by simp; omega
  simp only [Field.items]
  rw [hL, e, List.drop_left, e2, List.take_left]

/-- as `C13_dict_flat_group_mid`, with the group LAST in the body (CheckSum closes it — the position in which the unchanged code also left `10=` inside
    `bodyBytes`, D7) -/
theorem C13_dict_flat_group_last (d : Dicts) (mt : Bytes) (G d0 : Tag) (ts : List Tag) (C : List DNode)
    (hg : FlatGroup d mt G C) (hC : C.map DNode.tag = d0 :: ts)
    (t8 t9 t35 t10 : TagValue) (preA : List TagValue) (es : List (List (Tag × Bytes)))
    (hw8 : IsWire t8) (hw9 : IsWire t9) (hw35 : IsWire t35) (hw10 : IsWire t10)
    (h8 : t8.tag = 8) (h9 : t9.tag = 9) (h35 : t35.tag = 35) (h10 : t10.tag = 10) (hv : t35.value = mt)
    (hpre : PlainFields d preA) (hGi : inInt64 G)
    (hGh : isHeaderField d G = false) (hGt : isTrailerField d G = false)
    (hes : ∀ e ∈ es, EntryOK d0 (d0 :: ts) e) (hval : ∀ e ∈ es, ∀ p ∈ e, inInt64 p.1 ∧ ∀ c ∈ p.2, c ≠ SOH)
    (hn : es.length < 9223372036854775808)
    (h10m : (10 : Tag) ∉ d0 :: ts) (hh10 : isHeaderField d 10 = false)
    (hbl : atoi t9.value = .ok ((fieldsLength (t8 :: t9 :: t35 :: ((preA ++ countTV G es.length :: es.flatMap serEntry) ++ [t10])) : Nat) : Int)) :
    ∃ (m : Message) (f : Field),
      parseMessage Fixes.cur d (wireOf (t8 :: t9 :: t35 :: ((preA ++ countTV G es.length :: es.flatMap serEntry) ++ [t10]))) = .ok m ∧
      m.fields = t8 :: t9 :: t35 :: ((preA ++ countTV G es.length :: es.flatMap serEntry) ++ [t10]) ∧
      alFind m.body.lookup G = some f ∧
      getGroup (flatTmpl (d0 :: ts)) (f.full m.fields) = .ok (readSpec [t10] es) ∧ (readSpec [t10] es).length = es.length := by
  have hM : ∀ tv ∈ es.flatMap serEntry, IsWire tv ∧ isGroupMember tv.tag C = true := by
    intro tv htv
    obtain ⟨e, he, hm⟩ := List.mem_flatMap.1 htv
    refine ⟨canonTV_isWire tv (serEntry_canon e (hval e he) tv hm), ?_⟩
    rw [isGroupMember_iff, hC]
    obtain ⟨p, hp, hpt⟩ := serEntry_tags e tv hm
    obtain ⟨v0, e', hee, he'⟩ := hes e he
    rw [hpt]; subst hee
    rcases List.mem_cons.1 hp with h | h
    · subst h; simp
    · exact (he' p h).2
  have hg0 : IsWire (countTV G es.length) := canonTV_isWire _ (canon_init G _ (fun c hc => by
      have := List.all_eq_true.1 (fmtNat_all_digits es.length) c hc
      have := (isDigit_iff c).1 this; unfold SOH; omega) hGi)
  obtain ⟨m, hparse, hfields, hfind⟩ := parse_dict_group_last hg t8 t9 t35 (countTV G es.length) t10 preA (es.flatMap serEntry)
    hw8 hw9 hw35 hw10 h8 h9 h35 h10 hv hpre hg0 rfl hGh hGt hM (by
      cases hc : isGroupMember 10 C with
      | false => rfl
      | true => exact absurd ((isGroupMember_iff _ _).1 hc) (by rw [hC]; exact h10m))
    hh10 hbl
  refine ⟨m, _, hparse, hfields, hfind, ?_, readSpec_length _ _⟩
  rw [hfields]
  have hL : t8 :: t9 :: t35 :: ((preA ++ countTV G es.length :: es.flatMap serEntry) ++ [t10]) =
      (t8 :: t9 :: t35 :: preA) ++ countTV G es.length :: (es.flatMap serEntry ++ [t10]) := by simp
  have := read_back_flat _ (t8 :: t9 :: t35 :: preA) [t10] G d0 ts es hL hes hn
    (fun f r hfr => by simp only [List.cons.injEq] at hfr; rw [← hfr.1, h10]; exact h10m)
  have e : (t8 :: t9 :: t35 :: preA).length = 3 + preA.length := by simp; omega
  rw [e] at this
  exact this

/-- NESTED GROUPS, ANY DEPTH (compositional).  "… including nested groups".  Let a group's template be `d :: tmplr` with an element
    delimiter `d`; let each entry on the wire be the delimiter field followed by member blocks (`Block`), each either an element
    field of the template or the wire form of a nested group of the template that itself reads back with its own template
    whenever it is followed by a tag of `S` (`BlockOK`, `NestedOK`); let `S` contain the template's tags and the tag of whatever
    follows the group, and let that follower not be a template tag.  Then `Read` of `<G>=<n>`, the `n` entries, `rest` returns
    exactly `n` entries and `rest`, untouched; entry `i` lists the i-th entry's member tags in wire order and maps each (distinct)
    tag to a range starting with that member's fields — for a nested group its count field and entries, i.e. something `GetGroup`
    with the nested template reads back in turn.  Together with `C13_nested_group_is_block` (such a group is a well-formed
    block of an enclosing group) and the base case `C13_nested_flat_is_block` this gives every nesting depth by iteration. -/
theorem C13_read_nested (S : Tag → Prop) (G d : Tag) (tmplr : List Item) (rest : List TagValue)
    (hS : ∀ t, t ∈ tmplTags (.elem d :: tmplr) → S t) (hSr : ∀ f r, rest = f :: r → S f.tag)
    (hrest : ∀ f r, rest = f :: r → findItem (.elem d :: tmplr) f.tag = none)
    (es : List (List Block)) (hes : ∀ e ∈ es, EntryOKB S d tmplr e) (hn : es.length < 9223372036854775808) :
    ∃ gs, getGroup (.elem d :: tmplr) (countTV G es.length :: (es.flatMap serBlocks ++ rest)) = .ok gs ∧
      gs.length = es.length ∧
      ∀ (i : Nat) (e : List Block), es[i]? = some e → ∃ g : GEntry, gs[i]? = some g ∧ g.tags = e.map (·.tag) ∧
        ((e.map (·.tag)).Nodup → ∀ b ∈ e, ∃ tail, alFind g.lookup b.tag = some (b.tvs ++ tail)) := by
  have hfuel : readFuel (countTV G es.length :: (es.flatMap serBlocks ++ rest)) ≥ 2 * (1 + tvCount es) + 1 := by
    have := flatMap_serBlocks_length es
    simp [readFuel, this]; omega
  refine ⟨readSpecB rest es, ?_, readSpecB_length rest es, readSpecB_entry S d tmplr rest es hes⟩
  simp only [getGroup, readGroup_blocks S G d tmplr rest hS hSr hrest es hes hn _ hfuel]

/-- THE TRIP THROUGH THE DICTIONARY-GUIDED PARSER FOR GROUPS WITH NESTED GROUPS: the wire of `C13_dict_depth2_group_mid` whose member fields
    are, for the READER's template `d0 :: tmplr`, `n` entries of well-formed member blocks (`EntryOKB`: delimiter first, element fields
    and nested groups that read back with their nested template) — after `ParseMessage` with the dictionary, `GetGroup(template)` on the
    body's field for `G` returns exactly `n` entries; entry `i` lists the i-th entry's member tags in wire order and maps each (distinct)
    tag to a range starting with that member's fields (for a nested group: its count field and entries); the fields behind the group
    stay outside it. -/
theorem C13_dict_depth2_read_back (d : Dicts) (mt : Bytes) (G : Tag) (C : List DNode) (hg : OuterGroup d mt G C)
    (S : Tag → Prop) (d0 : Tag) (tmplr : List Item) (es : List (List Block))
    (t8 t9 t35 z0 t10 : TagValue) (preA postB : List TagValue) (s' : GState)
    (hW : Walk2 d mt G C .outer (es.flatMap serBlocks) s')
    (hS : ∀ t, t ∈ tmplTags (.elem d0 :: tmplr) → S t) (hSz : S z0.tag) (hzT : findItem (.elem d0 :: tmplr) z0.tag = none)
    (hes : ∀ e ∈ es, EntryOKB S d0 tmplr e) (hn : es.length < 9223372036854775808)
    (hw8 : IsWire t8) (hw9 : IsWire t9) (hw35 : IsWire t35) (hw10 : IsWire t10)
    (h8 : t8.tag = 8) (h9 : t9.tag = 9) (h35 : t35.tag = 35) (h10 : t10.tag = 10) (hv : t35.value = mt)
    (hpre : PlainFields d preA) (hGi : inInt64 G)
    (hGh : isHeaderField d G = false) (hGt : isTrailerField d G = false)
    (hz : PlainFields d (z0 :: postB)) (hzmC : isGroupMember z0.tag C = false) (hzmS : isGroupMember z0.tag (s'.members C) = false)
    (hzh : isHeaderField d z0.tag = false) (hzt : isTrailerField d z0.tag = false)
    (hzG : ∀ tv ∈ z0 :: postB, tv.tag ≠ G)
    (hng10 : NoGroupTag d 10) (hh10 : isHeaderField d 10 = false)
    (hbl : atoi t9.value = .ok ((fieldsLength (t8 :: t9 :: t35 :: ((preA ++ countTV G es.length :: es.flatMap serBlocks) ++ (z0 :: postB ++ [t10]))) : Nat) : Int)) :
    ∃ (m : Message) (f : Field) (gs : List GEntry),
      parseMessage Fixes.cur d (wireOf (t8 :: t9 :: t35 :: ((preA ++ countTV G es.length :: es.flatMap serBlocks) ++ (z0 :: postB ++ [t10])))) = .ok m ∧
      alFind m.body.lookup G = some f ∧
      getGroup (.elem d0 :: tmplr) (f.full m.fields) = .ok gs ∧ gs.length = es.length ∧
      (∀ (i : Nat) (e : List Block), es[i]? = some e → ∃ g : GEntry, gs[i]? = some g ∧ g.tags = e.map (·.tag) ∧
        ((e.map (·.tag)).Nodup → ∀ b ∈ e, ∃ tail, alFind g.lookup b.tag = some (b.tvs ++ tail))) ∧
      ((∀ tv ∈ postB, tv.tag ≠ z0.tag) → m.body.getBytes m.fields z0.tag = .ok z0.value) := by
  have hg0 : IsWire (countTV G es.length) := canonTV_isWire _ (canon_init G _ (fun c hc => by
      have := List.all_eq_true.1 (fmtNat_all_digits es.length) c hc
      have := (isDigit_iff c).1 this; unfold SOH; omega) hGi)
  obtain ⟨m, hparse, hfields, hfind, hz0find⟩ := parse_dict_walk2_mid hg t8 t9 t35 (countTV G es.length) z0 t10 preA (es.flatMap serBlocks) postB s' hW
    hw8 hw9 hw35 hw10 h8 h9 h35 h10 hv hpre hg0 rfl hGh hGt hz hzmC hzmS hzh hzt hzG hng10 hh10 hbl
  obtain ⟨gs, hget, hlen, hent⟩ := C13_read_nested S G d0 tmplr (z0 :: postB ++ [t10]) hS
    (fun f r hfr => by simp only [List.cons_append, List.cons.injEq] at hfr; rw [← hfr.1]; exact hSz)
    (fun f r hfr => by simp only [List.cons_append, List.cons.injEq] at hfr; rw [← hfr.1]; exact hzT) es hes hn
  refine ⟨m, _, gs, hparse, hfind, ?_, hlen, hent, ?_⟩
  · rw [hfields]
    have hL : t8 :: t9 :: t35 :: ((preA ++ countTV G es.length :: es.flatMap serBlocks) ++ (z0 :: postB ++ [t10])) =
        (t8 :: t9 :: t35 :: preA) ++ countTV G es.length :: (es.flatMap serBlocks ++ (z0 :: postB ++ [t10])) := by simp
    have e : 3 + preA.length = (t8 :: t9 :: t35 :: preA).length := by simp; omega
    simp only [Field.full]
    rw [hL, e, List.drop_left]
    exact hget
  · intro hpz
    apply getBytes_view _ _ _ _ z0 (hz0find hpz)
    rw [hfields]
    have hL' : t8 :: t9 :: t35 :: ((preA ++ countTV G es.length :: es.flatMap serBlocks) ++ (z0 :: postB ++ [t10])) =
        (t8 :: t9 :: t35 :: (preA ++ countTV G es.length :: es.flatMap serBlocks)) ++ z0 :: (postB ++ [t10]) := by simp
    rw [hL', List.getElem?_append_right (by simp; omega)]
    have : 3 + preA.length + 1 + (es.flatMap serBlocks).length - (t8 :: t9 :: t35 :: (preA ++ countTV G es.length :: es.flatMap serBlocks)).length = 0 := by
      simp; omega
    rw [this]; rfl

/-- THE TRIP THROUGH THE DICTIONARY-GUIDED PARSER, NESTED GROUPS OF ANY DEPTH: `fs` the application dictionary's field list of the message
    type; the wire `8, 9, 35, plain…, G=<n>, <members>, z0, plain…, 10` whose member fields (a) move the parser's tag stack as the fixed
    `parseGroup` does at any depth (`SegOKN`: `WalkN` — stay / push a nested group / pop to the enclosing level that lists the tag / pop
    and push — and `z0` listed by no level) and (b) are, for the READER's template `d0 :: tmplr`, `n` entries of well-formed member blocks
    (`EntryOKB`, nested groups reading back with their nested templates, any depth).  After `ParseMessage` with the dictionary,
    `GetGroup(template)` on the body's field for `G` returns exactly `n` entries, entry `i` listing the i-th entry's member tags in wire
    order and mapping each (distinct) tag to a range starting with that member's fields; `z0` is found in the body with its value. -/
theorem C13_dict_anydepth_read_back (d : Dicts) (mt : Bytes) (fs : List DNode) (ha : AppMsg d mt fs) (G : Tag)
    (S : Tag → Prop) (d0 : Tag) (tmplr : List Item) (es : List (List Block))
    (t8 t9 t35 z0 t10 : TagValue) (preA postB : List TagValue)
    (hseg : SegOKN d mt fs ⟨preA, countTV G es.length, es.flatMap serBlocks, z0⟩)
    (hS : ∀ t, t ∈ tmplTags (.elem d0 :: tmplr) → S t) (hSz : S z0.tag) (hzT : findItem (.elem d0 :: tmplr) z0.tag = none)
    (hes : ∀ e ∈ es, EntryOKB S d0 tmplr e) (hn : es.length < 9223372036854775808)
    (hw8 : IsWire t8) (hw9 : IsWire t9) (hw35 : IsWire t35) (hw10 : IsWire t10)
    (h8 : t8.tag = 8) (h9 : t9.tag = 9) (h35 : t35.tag = 35) (h10 : t10.tag = 10) (hv : t35.value = mt)
    (hpost : PlainFields d postB) (hzG : ∀ tv ∈ z0 :: postB, tv.tag ≠ G)
    (hng10 : NoGroupTag d 10) (hh10 : isHeaderField d 10 = false)
    (hbl : atoi t9.value = .ok ((fieldsLength (t8 :: t9 :: t35 :: ((preA ++ countTV G es.length :: (es.flatMap serBlocks ++ [z0])) ++ (postB ++ [t10]))) : Nat) : Int)) :
    ∃ (m : Message) (f : Field) (gs : List GEntry),
      parseMessage Fixes.cur d (wireOf (t8 :: t9 :: t35 :: ((preA ++ countTV G es.length :: (es.flatMap serBlocks ++ [z0])) ++ (postB ++ [t10])))) = .ok m ∧
      alFind m.body.lookup G = some f ∧
      getGroup (.elem d0 :: tmplr) (f.full m.fields) = .ok gs ∧ gs.length = es.length ∧
      (∀ (i : Nat) (e : List Block), es[i]? = some e → ∃ g : GEntry, gs[i]? = some g ∧ g.tags = e.map (·.tag) ∧
        ((e.map (·.tag)).Nodup → ∀ b ∈ e, ∃ tail, alFind g.lookup b.tag = some (b.tvs ++ tail))) ∧
      ((∀ tv ∈ postB, tv.tag ≠ z0.tag) → m.body.getBytes m.fields z0.tag = .ok z0.value) := by
  have hflat : [(⟨preA, countTV G es.length, es.flatMap serBlocks, z0⟩ : Seg)].flatMap Seg.flat =
      preA ++ countTV G es.length :: (es.flatMap serBlocks ++ [z0]) := by simp [Seg.flat]
  obtain ⟨m, hparse, hfields, _, hgrp, hzf⟩ := parse_dict_segsN (d := d) ha t8 t9 t35 t10 [⟨preA, countTV G es.length, es.flatMap serBlocks, z0⟩] postB
    hw8 hw9 hw35 hw10 h8 h9 h35 h10 hv (fun s hs => by simp only [List.mem_singleton] at hs; subst hs; exact hseg) hpost hng10 hh10
    (by rw [hflat]; exact hbl)
  rw [hflat] at hparse hfields
  have hfind := hgrp [] ⟨preA, countTV G es.length, es.flatMap serBlocks, z0⟩ [] rfl (by
    intro tv htv
    simp only [List.flatMap_nil, List.nil_append] at htv
    exact hzG tv htv)
  have hzfind := hzf [] ⟨preA, countTV G es.length, es.flatMap serBlocks, z0⟩ [] rfl
  simp only [List.flatMap_nil, List.length_nil, Nat.add_zero, List.nil_append] at hfind hzfind
  obtain ⟨gs, hget, hlen, hent⟩ := C13_read_nested S G d0 tmplr (z0 :: postB ++ [t10]) hS
    (fun f r hfr => by simp only [List.cons_append, List.cons.injEq] at hfr; rw [← hfr.1]; exact hSz)
    (fun f r hfr => by simp only [List.cons_append, List.cons.injEq] at hfr; rw [← hfr.1]; exact hzT) es hes hn
  refine ⟨m, _, gs, hparse, hfind, ?_, hlen, hent, ?_⟩
  · rw [hfields]
    have hL : t8 :: t9 :: t35 :: ((preA ++ countTV G es.length :: (es.flatMap serBlocks ++ [z0])) ++ (postB ++ [t10])) =
        (t8 :: t9 :: t35 :: preA) ++ countTV G es.length :: (es.flatMap serBlocks ++ (z0 :: postB ++ [t10])) := by simp
    have e : 3 + preA.length = (t8 :: t9 :: t35 :: preA).length := by simp; omega
    simp only [Field.full]
    rw [hL, e, List.drop_left]
    exact hget
  · intro hpz
    apply getBytes_view _ _ _ _ z0 (hzfind hpz)
    rw [hfields]
    have hL' : t8 :: t9 :: t35 :: ((preA ++ countTV G es.length :: (es.flatMap serBlocks ++ [z0])) ++ (postB ++ [t10])) =
        (t8 :: t9 :: t35 :: (preA ++ countTV G es.length :: es.flatMap serBlocks)) ++ z0 :: (postB ++ [t10]) := by simp
    rw [hL', List.getElem?_append_right (by simp; omega)]
    have : 3 + preA.length + 1 + (es.flatMap serBlocks).length - (t8 :: t9 :: t35 :: (preA ++ countTV G es.length :: es.flatMap serBlocks)).length = 0 := by
      simp; omega
    rw [this]; rfl

/-- the same with the parser side described FROM THE DICTIONARY ALONE: the member fields are a well-nested sequence for `G`'s member list
    (`GroupWalk`) over a dictionary tree whose levels share no tag along a branch (`TreeOK`), `z0` is listed nowhere in that tree
    (`SegNested`); nothing is assumed about the parser's tag stack. -/
theorem C13_dict_wellnested_read_back (d : Dicts) (mt : Bytes) (fs : List DNode) (ha : AppMsg d mt fs) (G : Tag)
    (S : Tag → Prop) (d0 : Tag) (tmplr : List Item) (es : List (List Block))
    (t8 t9 t35 z0 t10 : TagValue) (preA postB : List TagValue)
    (hseg : SegNested d fs ⟨preA, countTV G es.length, es.flatMap serBlocks, z0⟩)
    (hS : ∀ t, t ∈ tmplTags (.elem d0 :: tmplr) → S t) (hSz : S z0.tag) (hzT : findItem (.elem d0 :: tmplr) z0.tag = none)
    (hes : ∀ e ∈ es, EntryOKB S d0 tmplr e) (hn : es.length < 9223372036854775808)
    (hw8 : IsWire t8) (hw9 : IsWire t9) (hw35 : IsWire t35) (hw10 : IsWire t10)
    (h8 : t8.tag = 8) (h9 : t9.tag = 9) (h35 : t35.tag = 35) (h10 : t10.tag = 10) (hv : t35.value = mt)
    (hpost : PlainFields d postB) (hzG : ∀ tv ∈ z0 :: postB, tv.tag ≠ G)
    (hng10 : NoGroupTag d 10) (hh10 : isHeaderField d 10 = false)
    (hbl : atoi t9.value = .ok ((fieldsLength (t8 :: t9 :: t35 :: ((preA ++ countTV G es.length :: (es.flatMap serBlocks ++ [z0])) ++ (postB ++ [t10]))) : Nat) : Int)) :
    ∃ (m : Message) (f : Field) (gs : List GEntry),
      parseMessage Fixes.cur d (wireOf (t8 :: t9 :: t35 :: ((preA ++ countTV G es.length :: (es.flatMap serBlocks ++ [z0])) ++ (postB ++ [t10])))) = .ok m ∧
      alFind m.body.lookup G = some f ∧
      getGroup (.elem d0 :: tmplr) (f.full m.fields) = .ok gs ∧ gs.length = es.length ∧
      (∀ (i : Nat) (e : List Block), es[i]? = some e → ∃ g : GEntry, gs[i]? = some g ∧ g.tags = e.map (·.tag) ∧
        ((e.map (·.tag)).Nodup → ∀ b ∈ e, ∃ tail, alFind g.lookup b.tag = some (b.tvs ++ tail))) ∧
      ((∀ tv ∈ postB, tv.tag ≠ z0.tag) → m.body.getBytes m.fields z0.tag = .ok z0.value) :=
  C13_dict_anydepth_read_back d mt fs ha G S d0 tmplr es t8 t9 t35 z0 t10 preA postB hseg.ok hS hSz hzT hes hn
    hw8 hw9 hw35 hw10 h8 h9 h35 h10 hv hpost hzG hng10 hh10 hbl

/-- THE WRITER SIDE OF THE DICTIONARY ROUND TRIP (the link `C13_roundtrip_dict_full` was missing): `RepeatingGroup.Write` of entries
    that conform to their template (`Spec.entriesOK`: delimiter in every entry, only template tags, nested instances built with the
    template's nested template) — the template describing the dictionary's member list `C` of the group (`TmplDict`: element items are leaf
    members of `C`, group items are groups nested in `C` whose templates describe the nested member lists, recursively) — is the count field
    followed by a member sequence that is WELL NESTED for the dictionary (`GroupWalk C`), at ANY nesting depth.  This is exactly the
    hypothesis on the member fields in `C11_sections_dict_items`, `C11_faithful_dict_wellnested` and `C13_dict_wellnested_read_back`:
    whatever `Write` emits for a dictionary-conforming group, the fixed dictionary-guided parser groups it along its nesting. -/
theorem C13_write_is_wellnested (G : Tag) (tmpl : List Item) (es : List (List GFld)) (C : List DNode) (htd : TmplDict tmpl C)
    (hok : entriesOK tmpl es = true) (tvs : List TagValue) (hw : writeGroup G tmpl es = .ok tvs)
    (hwire : ∀ tv ∈ tvs, IsWire tv) :
    ∃ W, tvs = countTV G es.length :: W ∧ GroupWalk C W :=
  writeGroup_groupWalk G tmpl es C htd hok tvs hw hwire

/-- a group as in `C13_read_nested` is itself a well-formed nested block of an enclosing group: it reads back (and is skipped)
    whenever what follows carries a tag of `S'` that is allowed inside (`S`) and is not one of its template tags -/
theorem C13_nested_group_is_block (S S' : Tag → Prop) (G d : Tag) (tmplr : List Item)
    (hS : ∀ t, t ∈ tmplTags (.elem d :: tmplr) → S t)
    (hS' : ∀ t, S' t → S t ∧ findItem (.elem d :: tmplr) t = none)
    (es : List (List Block)) (hes : ∀ e ∈ es, EntryOKB S d tmplr e) (hn : es.length < 9223372036854775808) :
    NestedOK S' (.elem d :: tmplr) (countTV G es.length :: es.flatMap serBlocks) :=
  nestedOK_of_entries S S' G d tmplr hS hS' es hes hn

/-- base case: a nested group whose own template has no further nesting -/
theorem C13_nested_flat_is_block (S' : Tag → Prop) (G d : Tag) (ts : List Tag) (hS' : ∀ t, S' t → t ∉ d :: ts)
    (es : List (List (Tag × Bytes))) (hes : ∀ e ∈ es, EntryOK d (d :: ts) e) (hn : es.length < 9223372036854775808) :
    NestedOK S' (flatTmpl (d :: ts)) (countTV G es.length :: es.flatMap serEntry) :=
  nestedOK_flat S' G d ts hS' es hes hn

/-- WRITE THEN READ WITH NESTED GROUPS, ANY DEPTH (compositional).  Entries built by ARBITRARY setter calls — `Set…` for element
    fields, `SetGroup` for nested groups, any order, overwrites allowed — on a template of distinct tags with an element
    delimiter that every entry sets; `blockData` records, per setter call, the TagValues it contributes (for `SetGroup` what
    the nested group's own `Write` returns), and the nested groups' wire forms read back with their own templates
    (`BlockOK` — by `C13_nested_group_is_block` / `C13_nested_flat_is_block`, i.e. by this very theorem one level down).
    Then `Write` emits, per entry, the members in template order with the TagValues of their LATEST setter call, and `Read`
    of that followed by `rest` returns one entry per entry written in which every tag that was set maps to a range starting
    with exactly those TagValues — "the same number of entries with the same fields and values in the same order,
    including nested groups". -/
theorem C13_roundtrip_nested (S : Tag → Prop) (G d : Tag) (tmplr : List Item) (hts : (tmplTags (.elem d :: tmplr)).Nodup)
    (rest : List TagValue)
    (hS : ∀ t, t ∈ tmplTags (.elem d :: tmplr) → S t) (hSr : ∀ f r, rest = f :: r → S f.tag)
    (hrest : ∀ f r, rest = f :: r → findItem (.elem d :: tmplr) f.tag = none)
    (es : List (List GFld)) (bss : List (List (Tag × List TagValue)))
    (hdata : es.map (fun e => e.map blockData) = bss.map (fun bs => bs.map some))
    (hb : ∀ bs ∈ bss, (∀ p ∈ bs, p.1 ∈ tmplTags (.elem d :: tmplr) ∧ BlockOK S (.elem d :: tmplr) ⟨p.1, p.2⟩) ∧
      ∃ tv, latestB bs d = some [tv] ∧ tv.tag = d)
    (hn : es.length < 9223372036854775808) :
    ∃ tvs gs, writeGroup G (.elem d :: tmplr) es = .ok tvs ∧ getGroup (.elem d :: tmplr) (tvs ++ rest) = .ok gs ∧
      gs.length = es.length ∧
      ∀ (i : Nat) (bs : List (Tag × List TagValue)), bss[i]? = some bs → ∃ g : GEntry, gs[i]? = some g ∧
        ∀ t tvs', latestB bs t = some tvs' → ∃ tail, alFind g.lookup t = some (tvs' ++ tail) :=
  roundtrip_nested S G d tmplr hts rest hS hSr hrest es bss hdata hb hn

/-- D6, AFTER THE FIX.  With the dictionary, inside a nested group `N` of a group `G` (tag stack `[G, N]`): a body field that is a
    member of neither `N` nor `G` ends the group — the group is added to the body under its tag and the field itself becomes
    a body field ("the fields following the group are still found"); a field that is a member of the parent `G` continues
    the parent group with the stack popped to `[G]`. -/
theorem C13_fixed_behind_nested_group (d : Dicts) (mt : Bytes) (G N : Tag) (C CN : List DNode) (hg : NestedGroup d mt G N C CN)
    (fields : List TagValue) (idx j : Nat) (c : PCore) (tv g0 t35 : TagValue)
    (hmt : MTInv fields c.header t35) (hv : t35.value = mt) (hj : fields[j]? = some g0)
    (hmN : isGroupMember tv.tag CN = false)
    (hh : isHeaderField d tv.tag = false) (ht : isTrailerField d tv.tag = false) (hng : NoGroupTag d tv.tag) :
    (isGroupMember tv.tag C = false →
      grpSwitch Fixes.cur d fields idx tv j [G, N] CN c =
        .ok ({ c with trailerBytes := c.rawBytes, body := (c.body.add g0.tag (.view j (idx - j))).add tv.tag (.view idx 1) }, none)) ∧
    (isGroupMember tv.tag C = true → isNumInGroupField d fields c.header [G, tv.tag] = false →
      grpSwitch Fixes.cur d fields idx tv j [G, N] CN c = .ok ({ c with trailerBytes := c.rawBytes }, some (.grp j [G] C))) :=
  ⟨fun hmC => grpSwitch_fixed_exits hg fields idx j c tv g0 t35 hmt hv hj hmN hmC hh ht hng,
   fun hmC hleaf => grpSwitch_fixed_parent_member hg fields idx j c tv t35 hmt hv hmN hmC hleaf hh ht hng⟩

/-- D6, THE UNCHANGED CODE: in the same situation every body field — member of an enclosing group or not — stays inside the
    group (the loop continues in group mode with the field appended to the group's view): `Body.Has` is false for it. -/
theorem C13_orig_swallows_behind_nested_group (d : Dicts) (mt : Bytes) (G N : Tag) (C CN : List DNode) (hg : NestedGroup d mt G N C CN)
    (fields : List TagValue) (idx j : Nat) (c : PCore) (tv t35 : TagValue)
    (hmt : MTInv fields c.header t35) (hv : t35.value = mt) (hmN : isGroupMember tv.tag CN = false)
    (hh : isHeaderField d tv.tag = false) (ht : isTrailerField d tv.tag = false) (hng : NoGroupTag d tv.tag) :
    grpSwitch Fixes.orig d fields idx tv j [G, N] CN c = .ok ({ c with trailerBytes := c.rawBytes }, some (.grp j [G, N] C)) :=
  grpSwitch_orig_swallows hg fields idx j c tv t35 hmt hv hmN hh ht hng

/-- THE TRIP THROUGH THE WIRE WITH NESTED GROUPS, WITHOUT DICTIONARY.  For every sequence of proper, SOH-free Message API
    operations leaving BeginString and MsgType set and, under a body tag `G` that no other TagValue of the message carries, a
    group field `G=<n>` + entries given as member blocks (`EntryOKB`: delimiter first, element fields and nested groups that
    read back — `BlockOK`), where `S` contains the template's tags, the tags of all other fields and 10, and no other field
    (nor 10) carries a template tag: `build`, `ParseMessage` (no dictionary), `GetGroup(template)` on the parsed body returns
    one entry per entry written; entry `i` lists the member tags in order and maps each (distinct) tag to a range that starts
    with that member's TagValues (element field, or count + entries of the nested group). -/
theorem C13_trip_nodict_nested (fx : Fixes) (ops : List MOp) (hp : ∀ op ∈ ops, op.proper ∧ op.wire) (m : Message)
    (hrun : runMOps ops Message.new = .ok m)
    (h8 : (alFind m.header.lookup 8).isSome = true) (h35 : (alFind m.header.lookup 35).isSome = true)
    (S : Tag → Prop) (G d : Tag) (tmplr : List Item) (es : List (List Block))
    (hg : alFind m.body.lookup G = some (.owned (countTV G es.length :: es.flatMap serBlocks))) (gbody : secND G = .b)
    (hes : ∀ e ∈ es, EntryOKB S d tmplr e) (hn : es.length < 9223372036854775808)
    (hMg : ∀ tv ∈ es.flatMap serBlocks, tv.tag ≠ G)
    (hS : ∀ t, t ∈ tmplTags (.elem d :: tmplr) → S t) (hS10 : S 10) (h10t : findItem (.elem d :: tmplr) 10 = none)
    (others : ∀ s k l, alFind (m.sec s).lookup k = some (.owned l) → ¬ (s = .b ∧ k = G) →
      ∀ tv ∈ l, tv.tag ≠ G ∧ S tv.tag ∧ findItem (.elem d :: tmplr) tv.tag = none)
    (bytes : Bytes) (m' : Message) (hbuild : m.build Fixes.cur = .ok (bytes, m')) (hsmall : bytes.length < 9223372036854775808) :
    ∃ (p : Message) (f : Field) (gs : List GEntry),
      parseMessage fx Dicts.none bytes = .ok p ∧ alFind p.body.lookup G = some f ∧
      getGroup (.elem d :: tmplr) (f.full p.fields) = .ok gs ∧ gs.length = es.length ∧
      ∀ (i : Nat) (e : List Block), es[i]? = some e → ∃ g : GEntry, gs[i]? = some g ∧ g.tags = e.map (·.tag) ∧
        ((e.map (·.tag)).Nodup → ∀ b ∈ e, ∃ tail, alFind g.lookup b.tag = some (b.tvs ++ tail)) := by
  obtain ⟨hb, hw⟩ := runMOps_wired ops _ m Built.new Wired.new hp hrun
  cases hf8 : alFind m.header.lookup 8 with
  | none => rw [hf8] at h8; cases h8
  | some f8 =>
    cases hf35 : alFind m.header.lookup 35 with
    | none => rw [hf35] at h35; cases h35
    | some f35 =>
      obtain ⟨l, hl⟩ := hb.ph.owned 8 f8 hf8
      subst hl
      obtain ⟨tv, rest, hl, ht⟩ := hb.ph.head 8 l hf8
      subst hl
      have hone := (hb.ph.special 8 _ hf8 tv (by simp) (Or.inl ht)).1
      rw [hone] at hf8
      obtain ⟨p, f, Z, hparse, hfind, hfull, hZ⟩ := trip_nodict_group_field fx m hb hw tv f35 hf8 hf35 G (countTV G es.length)
        (es.flatMap serBlocks) hg rfl gbody hMg (fun s k l hl hne tv htv => (others s k l hl hne tv htv).1) bytes m' hbuild hsmall
      have hZS : ∀ tvz ∈ Z, S tvz.tag ∧ findItem (.elem d :: tmplr) tvz.tag = none := by
        intro tvz hz
        rcases hZ tvz hz with e | ⟨s, k, l, hl, hne, hm⟩
        · rw [e]; exact ⟨hS10, h10t⟩
        · exact (others s k l hl hne tvz hm).2
      obtain ⟨gs, hread, hlen, hent⟩ := C13_read_nested S G d tmplr Z hS
        (fun f r hfr => (hZS f (by rw [hfr]; simp)).1) (fun f r hfr => (hZS f (by rw [hfr]; simp)).2) es hes hn
      exact ⟨p, f, gs, hparse, hfind, by rw [hfull]; exact hread, hlen, hent⟩

/-! ## the round trips end to end, from the API calls (the corrected `C13_roundtrip_nodict_full` / `C13_roundtrip_dict_full`)

The two statements that used to stand here as `def … : Prop` quantified over an abstract message `a : Abs` (the monitor's bookkeeping) and a
model message `m` WITHOUT any hypothesis tying `a` to `m`; as written they were false for a reason that has nothing to do with the code
(take `a` with a two-entry group and `m` built with one entry).  They are replaced by theorems that start from the API calls themselves:
`runMOps ops Message.new = .ok m`, the body holding under `G` what `Write(G, template, entries)` returned.  The monitor clauses
`group_roundtrip` / `followers_found` keep checking the same thing on the implementation, with `Abs` maintained by the monitor. -/

/-- THE ROUND TRIP WITHOUT DICTIONARY, END TO END, ANY NESTING DEPTH.  For every sequence of proper, SOH-free Message API operations that
    leaves BeginString and MsgType set and, in the body under a tag `G`, the field `Write(G, template, entries)` — entries given at API
    level (`GFld`: `Set…` of element fields and `SetGroup` of nested groups, in any order, with overwrites) that conform to the template
    (`Spec.entriesOK`: delimiter in every entry, template tags only, nested instances built with the template's nested template), all tags
    of the template tree and `G` distinct, every entry count below 2^63, and no other TagValue of the message (nor CheckSum) carrying `G` or
    a tag of the template tree — `build`, `ParseMessage` WITHOUT dictionary (any `Fixes`) and `GetGroup(template)` on the parsed body return
    exactly as many entries as were written. -/
theorem C13_roundtrip_nodict (fx : Fixes) (ops : List MOp) (hp : ∀ op ∈ ops, op.proper ∧ op.wire) (m : Message)
    (hrun : runMOps ops Message.new = .ok m)
    (h8 : (alFind m.header.lookup 8).isSome = true) (h35 : (alFind m.header.lookup 35).isSome = true)
    (G d0 : Tag) (tmplr : List Item) (esG : List (List GFld)) (tvs : List TagValue)
    (hbody : alFind m.body.lookup G = some (.owned tvs)) (hwrite : writeGroup G (.elem d0 :: tmplr) esG = .ok tvs) (gbody : secND G = .b)
    (hok : entriesOK (.elem d0 :: tmplr) esG = true) (hsm : SmallEs esG) (hn : esG.length < 9223372036854775808)
    (hnd : (G :: allTmplTags (.elem d0 :: tmplr)).Nodup) (h10 : (10 : Tag) ∉ allTmplTags (.elem d0 :: tmplr))
    (others : ∀ s k l, alFind (m.sec s).lookup k = some (.owned l) → ¬ (s = .b ∧ k = G) →
      ∀ tv ∈ l, tv.tag ≠ G ∧ tv.tag ∉ allTmplTags (.elem d0 :: tmplr))
    (bytes : Bytes) (m' : Message) (hbuild : m.build Fixes.cur = .ok (bytes, m')) (hsmall : bytes.length < 9223372036854775808) :
    ∃ (p : Message) (f : Field) (gs : List GEntry),
      parseMessage fx Dicts.none bytes = .ok p ∧ alFind p.body.lookup G = some f ∧
      getGroup (.elem d0 :: tmplr) (f.full p.fields) = .ok gs ∧ gs.length = esG.length := by
  have hndT : (allTmplTags (.elem d0 :: tmplr)).Nodup := (List.nodup_cons.1 hnd).2
  have hGn : G ∉ allTmplTags (.elem d0 :: tmplr) := (List.nodup_cons.1 hnd).1
  obtain ⟨bss, hlen, hwr, hes⟩ := write_blocks.2 (.elem d0 :: tmplr) esG d0 tmplr rfl hndT hok hsm
  have htvs : tvs = countTV G bss.length :: bss.flatMap serBlocks := by
    simp only [writeGroup, hwr] at hwrite; injection hwrite with hwrite; rw [hlen]; exact hwrite.symm
  subst htvs
  have hnot : ∀ t, t ∉ allTmplTags (.elem d0 :: tmplr) →
      t ∉ deepTags (.elem d0 :: tmplr) ∧ findItem (.elem d0 :: tmplr) t = none := by
    intro t ht
    exact ⟨fun hd => ht ((sub_tags_split t).2 (Or.inr hd)),
      findItem_none_of_not_mem _ _ (fun hm => ht ((sub_tags_split t).2 (Or.inl hm)))⟩
  obtain ⟨p, f, gs, h1, h2, h3, h4, _⟩ := C13_trip_nodict_nested fx ops hp m hrun h8 h35 (fun t => t ∉ deepTags (.elem d0 :: tmplr)) G d0 tmplr bss
    hbody gbody hes (by rw [hlen]; exact hn)
    (fun tv htv e => hGn (e ▸ write_tags.2 _ esG hok _ hwr tv htv))
    (fun t ht => top_not_deep hndT t ht) (hnot 10 h10).1 (hnot 10 h10).2
    (fun s k l hl hne tv htv => ⟨(others s k l hl hne tv htv).1, hnot _ (others s k l hl hne tv htv).2⟩)
    bytes m' hbuild hsmall
  exact ⟨p, f, gs, h1, h2, h3, by rw [h4, hlen]⟩

/-- THE ROUND TRIP WITH THE DICTIONARY THAT DEFINES THE GROUP, END TO END, ANY NESTING DEPTH (fixed code; false on the unchanged code: D6).
    As above, and: `d` any dictionaries whose application dictionary knows the message type (`AppMsg`, field list `fs`) and defines `G` as a
    repeating group with member list `C` (`groupOf fs G = some C`); the template describes `C` (`TmplDict`: element items = leaf members,
    group items = nested groups, recursively — order and completeness free); the dictionary tree under `C` lists no tag at two levels of
    one branch and none that is a header / trailer field or a top-level group (`TreeOK`); the MsgType field is a single TagValue; every
    other TagValue of the message (and CheckSum) carries a tag that is listed nowhere in that tree, starts no repeating group of the
    application dictionary, and is not 35.  Then `build`, `ParseMessage` WITH the dictionaries and `GetGroup(template)` on the parsed body
    return exactly as many entries as were written.  (`Write` output is well nested for the dictionary — `C13_write_is_wellnested` —, the
    fixed `parseGroup` walks well-nested sequences along their nesting — `groupWalk_walkN` —, the body therefore holds the group as one view
    over count and members — `C11_sections_dict_items` —, and for the reader the same fields are well-formed member blocks —
    `write_blocks`.) -/
theorem C13_roundtrip_dict (d : Dicts) (mt : Bytes) (fs : List DNode) (ha : AppMsg d mt fs) (hh10 : isHeaderField d 10 = false)
    (ops : List MOp) (hp : ∀ op ∈ ops, op.proper ∧ op.wire) (m : Message) (hrun : runMOps ops Message.new = .ok m)
    (tv8 tv35 : TagValue)
    (h8 : alFind m.header.lookup 8 = some (.owned [tv8])) (h35 : alFind m.header.lookup 35 = some (.owned [tv35])) (hmt : tv35.value = mt)
    (G d0 : Tag) (tmplr : List Item) (esG : List (List GFld)) (tvs : List TagValue) (C : List DNode)
    (hbody : alFind m.body.lookup G = some (.owned tvs)) (hwrite : writeGroup G (.elem d0 :: tmplr) esG = .ok tvs)
    (hgC : groupOf fs G = some C) (htd : TmplDict (.elem d0 :: tmplr) C) (htree : TreeOK d C)
    (hGh : isHeaderField d G = false) (hGt : isTrailerField d G = false)
    (hok : entriesOK (.elem d0 :: tmplr) esG = true) (hsm : SmallEs esG) (hn : esG.length < 9223372036854775808)
    (hnd : (allTmplTags (.elem d0 :: tmplr)).Nodup) (h10C : NotListed C 10)
    (others : ∀ s k l, alFind (m.sec s).lookup k = some (.owned l) → ¬ (s = .b ∧ k = G) → ∀ tv ∈ l,
      NotListed C tv.tag ∧ NoGroupTag d tv.tag ∧ tv.tag ≠ G ∧ (tv.tag = 35 → s = .h ∧ k = 35))
    (bytes : Bytes) (m' : Message) (hbuild : m.build Fixes.cur = .ok (bytes, m')) (hsmall : bytes.length < 9223372036854775808) :
    ∃ (p : Message) (f : Field) (gs : List GEntry), parseMessage Fixes.cur d bytes = .ok p ∧ alFind p.body.lookup G = some f ∧
      getGroup (.elem d0 :: tmplr) (f.full p.fields) = .ok gs ∧ gs.length = esG.length := by
  obtain ⟨hb, hw⟩ := runMOps_wired ops _ m Built.new Wired.new hp hrun
  exact roundtrip_dict (d := d) ha hh10 m hb hw tv8 tv35 h8 h35 hmt G d0 tmplr esG tvs C hbody hwrite hgC htd htree hGh hGt hok hsm hn hnd
    h10C others bytes m' hbuild hsmall

/-! non-vacuity of `Walk2` and `SegOK`: Qfx/Lemmas/CodecDictExample.lean (NoPartyIDs with nested NoPartySubIDs, two entries) -/
example := @exWalk2
example := @exWalkN
/-! hypotheses of `C13_roundtrip_dict` on the three-level example: the template describes the dictionary tree, API-level entries conform -/
example := @exTmplDict
example := @exEntriesOK
example := @exSmall
example := @exTmplNodup
example := @exTreeOK
example := @exSegOKN

/-! non-vacuity: a two-entry group with a follower, read back by the model -/
example :
    (getGroup [.elem 448, .elem 447]
      [⟨453, [50], []⟩, ⟨448, [97], []⟩, ⟨447, [68], []⟩, ⟨448, [98], []⟩, ⟨58, [120], []⟩]).isOk = true := by decide

/-! non-vacuity: a nested group (453 with members 448 and the nested group 802 of 523) followed by field 58 -/
example :
    (getGroup [.elem 448, .group 802 [.elem 523]]
      [⟨453, [49], []⟩, ⟨448, [97], []⟩, ⟨802, [50], []⟩, ⟨523, [120], []⟩, ⟨523, [121], []⟩, ⟨58, [122], []⟩]).isOk = true := by decide

/- Clause checklist (properties.jsonl C13):
   "same number of entries"                                  C13_read_count, C13_write_starts_with_count, C13_read_zero
   with the dictionary that defines the group (no nested groups) C13_dict_flat_group_mid, C13_dict_flat_group_last (parseGroup + GetGroup through the dictionary template)
   the whole trip build → parse (no dictionary) → GetGroup       C13_trip_nodict_nested (nested groups, any depth, compositional), C13_roundtrip_nodict_flat (templates without nesting; any message around the group)
   "including nested groups" (any depth, compositional)          C13_roundtrip_nested (Write;Read), C13_read_nested, C13_nested_group_is_block,
                                                                 C13_nested_flat_is_block
   "same fields and values in the same order"                 C13_roundtrip_flat (Write then Read, templates without nesting, any setter calls),
                                                             C13_read_inverts_wire_flat (whole Read, templates without nesting);
                                                             C13_read_member, C13_read_delimiter (one step each, any template); nested: C13_roundtrip_nodict (end to end, any depth)
   with the dictionary, nested groups: parse + GetGroup(nested template)           C13_dict_wellnested_read_back (any depth, hypotheses from the dictionary alone),
                                                             C13_dict_anydepth_read_back, C13_dict_depth2_read_back
   with the dictionary, group containing nested groups (D6 scenario), whole parse   C13_dict_depth2_group_mid, C13_dict_depth2_group_last (any arrangement of
                                                             two levels), C13_dict_nested_group_mid
   "fields following the group are still found"              C13_read_stops_at_follower; with dictionary: C13_dict_depth2_group_mid, C13_dict_nested_group_mid, C13_fixed_behind_nested_group
                                                             (vs. C13_orig_swallows_behind_nested_group, D6), C13_pop_returns_shorter_stack, C13_dict_flat_group_mid
   monitor clauses: group_roundtrip{dict=api|n|a|ta,nested=y|n}, followers_found{dict=…} -/
