import Qfx.Spec.Codec
open Qfx Qfx.Spec
theorem C13_placeholder : True := trivial
