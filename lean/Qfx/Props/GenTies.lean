/-
  All obligations that pin the hand-written session model to the regenerated facts (Qfx/Gen/Facts.lean).  They live in
  one module per property (Qfx/Props/Ties/Cnn.lean) — `./check Cnn` builds and audits only its own; this umbrella is for
  `lake build` of the whole library.
-/
import Qfx.Props.Ties.C01
import Qfx.Props.Ties.C03
import Qfx.Props.Ties.C06
import Qfx.Props.Ties.C08
import Qfx.Props.Ties.C20
