/-
  Obligations that pin the hand-written session model to the facts REGENERATED from the repository's sources on every run
  (Qfx/Gen/Facts.lean, written by `qfxh extract`).  A source change that alters a fact either still satisfies these
  (harmless) or breaks the named obligation; `./check Cnn` audits the theorems whose name starts with `Cnn_`.
-/
import Qfx.Gen.Facts
import Qfx.Model.Session
open Qfx Qfx.Sess

/-- msg_type.go isAdminMessageType is exactly the model's `isAdminKind` (which decides FromAdmin vs FromApp, gap fill vs replay) -/
theorem C01_gen_admin_kinds (k : String) : isAdminKind k = Qfx.Gen.adminMsgTypes.contains k := by
  simp only [isAdminKind, Qfx.Gen.adminMsgTypes, List.contains, List.elem_cons, List.elem_nil]
  cases (k == "0") <;> cases (k == "1") <;> cases (k == "2") <;> cases (k == "3") <;>
    cases (k == "4") <;> cases (k == "5") <;> cases (k == "A") <;> rfl
theorem C03_gen_admin_kinds (k : String) : isAdminKind k = Qfx.Gen.adminMsgTypes.contains k := C01_gen_admin_kinds k
theorem C08_gen_admin_kinds (k : String) : isAdminKind k = Qfx.Gen.adminMsgTypes.contains k := C01_gen_admin_kinds k

/-- session.go verifySelect runs its checks in the order the model's `verifySelect` does -/
theorem C06_gen_verify_order :
    Qfx.Gen.verifyOrder = ["checkBeginString", "checkCompID", "currentResendState", "checkSendingTime",
                           "checkTargetTooLow", "checkTargetTooHigh", "verifyMsgAgainstAppImpl"] := by decide

/-- errors.go: the reject reasons the model's reactions use -/
theorem C06_gen_reject_reasons :
    Qfx.Gen.rejectReasons.lookup "CompIDProblem" = some 9 ∧ Qfx.Gen.rejectReasons.lookup "SendingTimeAccuracyProblem" = some 10
    ∧ Qfx.Gen.rejectReasons.lookup "RequiredTagMissing" = some 1 ∧ Qfx.Gen.rejectReasons.lookup "TagSpecifiedWithoutAValue" = some 4
    ∧ Qfx.Gen.rejectReasons.lookup "IncorrectDataFormatForValue" = some 6 ∧ Qfx.Gen.rejectReasons.lookup "ValueIsIncorrect" = some 5
    ∧ Qfx.Gen.rejectReasons.lookup "ConditionallyRequiredFieldMissing" = some 8 ∧ Qfx.Gen.rejectReasons.lookup "InvalidMsgType" = some 11 := by
  decide

/-- every place that arms the peer timer multiplies HeartBtInt by the literal 1.2 (the model arms 1200 ms per second of HeartBtInt) -/
theorem C20_gen_peer_factor : Qfx.Gen.peerTimerFactors.all (· == "1.2") = true ∧ Qfx.Gen.peerTimerFactors.length = 3 := by decide
