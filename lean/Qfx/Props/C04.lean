/-
  C04 — "A sequence gap triggers one exact ResendRequest and loses nothing received".
  Property theorems only (helper lemmas: Qfx/Lemmas/SessC04.lean).

  properties.jsonl: "When a message arrives whose MsgSeqNum is above the next expected number T, the engine sends exactly
  one ResendRequest with BeginSeqNo T (EndSeqNo 'infinity', or T+chunk-1 when a chunk size smaller than the gap is
  configured), keeps the early message, and while recovery is in progress sends no further ResendRequest other than those
  for the following chunks, each beginning at the number expected at that moment. Once the missing numbers have arrived as
  replays or gap fills, every kept message that is next in sequence is delivered, in order and without being requested
  again, and when the peer skipped nothing the session returns to normal operation expecting one past the highest message
  received."
-/
import Qfx.Lemmas.SessC04
open Qfx Qfx.Sess

/-! ### the first request -/

/-- **C04 (request)**: normal operation (`inSession`, also with a TestRequest pending), any configuration, any message of a
    sequence-gated kind that passes the BeginString / CompID / SendingTime gates and carries a number `n` above the
    expected number `T`: the handler does exactly one thing — it sends the ResendRequest `7=T`, `16=infinity` (0 from
    FIX.4.2 on, 999999 before) or `16=T+chunk-1` when a chunk size is configured and the chunk ends before `n-1` — and
    the next state is the recovery state holding exactly the early message, the end of the requested chunk (0 = all) and
    the end of the gap `n-1`. -/
theorem C04_request (s : Sess) (m : InMsg) (n : Int)
    (hst : s.st = .inSession ∨ s.st = .pendingIn)
    (hb : checkBeginString s m = none) (hc : checkCompID s m = none) (ht : checkSendingTime s m = none)
    (hk : SeqGated m) (hn : getInt m 34 = .val n) (hgt : n > s.store.target) :
    fixMsgInCore s m =
      (sendInReplyTo s (mkOut "2" [(7, toString s.store.target), (16, toString (chunkEnd s.cfg s.store.target (n - 1)))]),
       .resend [(n, m)] (chunkCur s.cfg s.store.target (n - 1)) (n - 1)) := by
  have hcur : curResend s = none := by rcases hst with h | h <;> simp [curResend, h]
  have h1 : fixMsgInCore s m = inSessionFixMsgIn s m := by rcases hst with h | h <;> simp [fixMsgInCore, h]
  rw [h1, inSessionFixMsgIn_high s m n hb hc (Or.inr ht) hk hn hgt, processReject_high_fresh s m n _ hcur]
  rfl

/-- what "sends" means: the request gets the next outbound number, is handed to the store, is written after whatever was
    still queued (or queued when there is no connection); nothing else changes — in particular the expected number -/
theorem C04_request_sent (s : Sess) (b e : Int) (hl : s.st.loggedOn = true) :
    AdminSent s (rrMsg s.cfg b e) (sendInReplyTo s (rrMsg s.cfg b e)) :=
  adminSent s _ rfl rfl hl

/-- the same on the whole event `Incoming(m)`: the observations are exactly the store write, the queued messages (if
    any) and the ResendRequest on the wire, then the peer timer; nothing is delivered, the expected number stays -/
theorem C04_request_step (s : Sess) (m : InMsg) (n : Int)
    (hst : s.st = .inSession ∨ s.st = .pendingIn)
    (hb : checkBeginString s m = none) (hc : checkCompID s m = none) (ht : checkSendingTime s m = none)
    (hk : SeqGated m) (hn : getInt m 34 = .val n) (hgt : n > s.store.target) :
    (step s (.incomingMsg (some m))).1.st = .resend [(n, m)] (chunkCur s.cfg s.store.target (n - 1)) (n - 1) ∧
    (step s (.incomingMsg (some m))).1.store.target = s.store.target ∧
    (step s (.incomingMsg (some m))).1.toSend =
      (if s.out then [] else s.toSend ++ [numbered s (rrMsg s.cfg s.store.target (n - 1))]) ∧
    (step s (.incomingMsg (some m))).2.1 =
      persistObs s.cfg (numbered s (rrMsg s.cfg s.store.target (n - 1))) ::
        (if s.out then (s.toSend ++ [numbered s (rrMsg s.cfg s.store.target (n - 1))]).map Obs.wire else [])
        ++ [.armPeer (1200 * s.hb)] := by
  have hconn : s.st.connected = true := by rcases hst with h | h <;> simp [h, SState.connected]
  have hl : s.clearLog.st.loggedOn = true := by rcases hst with h | h <;> simp [Sess.clearLog, h, SState.loggedOn]
  have hs : AdminSent s.clearLog (rrMsg s.cfg s.store.target (n - 1)) (sendInReplyTo s.clearLog (rrMsg s.cfg s.store.target (n - 1))) :=
    C04_request_sent s.clearLog s.store.target (n - 1) hl
  have hr : fixMsgInCore s.clearLog m = (sendInReplyTo s.clearLog (rrMsg s.cfg s.store.target (n - 1)),
      .resend [(n, m)] (chunkCur s.cfg s.store.target (n - 1)) (n - 1)) := C04_request s.clearLog m n hst hb hc ht hk hn hgt
  rw [step_incoming_eq s m hconn _ hr rfl]
  refine ⟨rfl, hs.target, hs.queue, ?_⟩
  simp only [hs.log, hs.hb]
  have hnum : ∀ x, numbered s.clearLog x = numbered s x := fun _ => rfl
  rw [hnum]
  simp [Sess.clearLog]

/-! ### while recovery is in progress -/

/-- **C04 (no duplicate)**: any recovery state (`resend`, and `pending(resend)` — the model follows the fixed code in
    which the type switches look through a pending TestRequest), ANY inbound message (any kind, any header): everything
    the handler does up to an intermediate state `s1` creates no ResendRequest (`Q 0`: the number of ResendRequests
    written or queued does not grow, and state tag / configuration / buffered input are untouched); after that either
    nothing more happens, or — only when a chunk is outstanding (`cur ≠ 0`) and the expected number has reached its end —
    exactly one ResendRequest is sent, for the next chunk: `7 = the number expected at that moment`, `16` = its chunk
    end or infinity relative to the original gap end `fin`. -/
theorem C04_no_duplicate (s : Sess) (m : InMsg) (stash : List (Int × InMsg)) (cur fin : Int)
    (h : curResend s = some (stash, cur, fin)) :
    ∃ s1, Q 0 s s1 ∧
      ((fixMsgInCore s m).1 = s1 ∨
       (cur ≠ 0 ∧ cur ≤ s1.store.target ∧ ∃ stash',
          fixMsgInCore s m =
            (sendInReplyTo s1 (mkOut "2" [(7, toString s1.store.target), (16, toString (chunkEnd s1.cfg s1.store.target fin))]),
             .resend stash' (chunkCur s1.cfg s1.store.target fin) fin))) := by
  rw [fixMsgInCore_rec s m stash cur fin h]
  exact resendFixMsgIn_shape s stash cur fin m (by rw [h]; rfl)

/-- in particular: when the whole rest was requested (`cur = 0`, always the case without a chunk size) no inbound
    message whatsoever makes the engine create another ResendRequest … -/
theorem C04_no_duplicate_all_requested (s : Sess) (m : InMsg) (stash : List (Int × InMsg)) (fin : Int)
    (h : curResend s = some (stash, 0, fin)) : Q 0 s (fixMsgInCore s m).1 := by
  rw [fixMsgInCore_rec s m stash 0 fin h]
  simpa using q_resendFixMsgIn s stash 0 fin m (by rw [h]; rfl)

/-- … and with a chunk outstanding at most one -/
theorem C04_no_duplicate_budget (s : Sess) (m : InMsg) (stash : List (Int × InMsg)) (cur fin : Int)
    (h : curResend s = some (stash, cur, fin)) : Q (if cur ≠ 0 then 1 else 0) s (fixMsgInCore s m).1 := by
  rw [fixMsgInCore_rec s m stash cur fin h]
  exact q_resendFixMsgIn s stash cur fin m (by rw [h]; rfl)

/-- the same on the whole event `Incoming(m)` (nothing buffered in the inbound channel), including the disconnect
    handling when the handler ends the session: the ResendRequests on the wire during the event plus those still queued
    afterwards are at most those queued before, plus one when a chunk was outstanding -/
theorem C04_no_duplicate_step (s : Sess) (m : InMsg) (stash : List (Int × InMsg)) (cur fin : Int)
    (h : curResend s = some (stash, cur, fin)) (hi : s.inbox = []) :
    rrAfter (step s (.incomingMsg (some m))) ≤ s.toSend.countP isRR + (if cur ≠ 0 then 1 else 0) :=
  rrAfter_incoming_rec s m stash cur fin h hi

/-- **every event, every state** (fixed code, nothing buffered in the inbound channel): connect, inbound message or
    garbage, timer events, disconnect, stop, application send, flush, session-time change — the ResendRequests written
    during the event plus those still queued afterwards exceed those queued before by at most the event's budget:
    one for an inbound message (none in a recovery state with everything requested), whatever the application itself
    submits, and nothing for any other event -/
theorem C04_requests_only_on_inbound (s : Sess) (e : Ev) (hi : s.inbox = []) (hfix : s.cfg.lookThroughPending = true)
    (hna : ∀ m, e ≠ .arrive m) :
    rrAfter (step s e) ≤ s.toSend.countP isRR + evBudget s e :=
  rrAfter_le s e hi hfix hna

/-- … and over whole histories (every configuration with the fixed code, every initial counters, every sequence of
    events other than buffered arrivals): the ResendRequests on the wire plus those still queued at the end are bounded
    by the sum of the budgets of the events, each taken in the state it meets — in particular a recovery with everything
    requested contributes nothing however many messages arrive -/
theorem C04_no_duplicate_history (cfg : Cfg) (s0 t0 : Int) (evs : List Ev) (hfix : cfg.lookThroughPending = true)
    (hna : ∀ e ∈ evs, ∀ m, e ≠ .arrive m) :
    (wiresOf (histObs (initSess cfg s0 t0) evs)).countP isRR + (histEnd (initSess cfg s0 t0) evs).toSend.countP isRR
      ≤ histBudget (initSess cfg s0 t0) evs := by
  have := rr_history evs (initSess cfg s0 t0) rfl hfix hna
  simpa [initSess] using this

/-! ### the early message is kept -/

/-- **C04 (kept)**: recovery in progress (`target ≤ fin`), a sequence-gated message passing the identity gates (the
    SendingTime check is skipped during recovery) with a number above the expected one, GapFillFlag not garbled: the
    message is in the stash of the next state, which is again the recovery state for the same gap; the expected number
    is unchanged; the session record is untouched (nothing sent, nothing delivered), except that when the current chunk
    has been satisfied (`cur ≠ 0 ∧ cur ≤ target`) the request for the next chunk goes out. -/
theorem C04_kept (s : Sess) (m : InMsg) (stash : List (Int × InMsg)) (cur fin n : Int)
    (h : curResend s = some (stash, cur, fin))
    (hb : checkBeginString s m = none) (hc : checkCompID s m = none)
    (hk : SeqGated m) (hn : getInt m 34 = .val n) (hgt : n > s.store.target)
    (hg : getBool m 123 ≠ .garbled) (hfin : s.store.target ≤ fin) :
    fixMsgInCore s m = (s, .resend (stashInsert stash n m) cur fin) ∨
    (cur ≠ 0 ∧ cur ≤ s.store.target ∧
      fixMsgInCore s m =
        (sendInReplyTo s (rrMsg s.cfg s.store.target fin),
         .resend (stashInsert stash n m) (chunkCur s.cfg s.store.target fin) fin)) := by
  rw [fixMsgInCore_rec s m stash cur fin h]
  exact resendFixMsgIn_high s stash cur fin m n h hb hc hk hn hgt hg hfin

/-- the usual case — the chunk currently requested is not yet complete, or everything was requested at once -/
theorem C04_kept_quiet (s : Sess) (m : InMsg) (stash : List (Int × InMsg)) (cur fin n : Int)
    (h : curResend s = some (stash, cur, fin))
    (hb : checkBeginString s m = none) (hc : checkCompID s m = none)
    (hk : SeqGated m) (hn : getInt m 34 = .val n) (hgt : n > s.store.target)
    (hg : getBool m 123 ≠ .garbled) (hfin : s.store.target ≤ fin) (hcur : cur = 0 ∨ s.store.target < cur) :
    fixMsgInCore s m = (s, .resend (stashInsert stash n m) cur fin) := by
  rcases C04_kept s m stash cur fin n h hb hc hk hn hgt hg hfin with h1 | ⟨h1, h2, _⟩
  · exact h1
  · omega

theorem C04_kept_mem (stash : List (Int × InMsg)) (n : Int) (m : InMsg) : (n, m) ∈ stashInsert stash n m := by
  simp [stashInsert]

/-- earlier stash entries with other numbers survive -/
theorem C04_kept_others (stash : List (Int × InMsg)) (n k : Int) (m m' : InMsg) (hk : k ≠ n) (h : (k, m') ∈ stash) :
    (k, m') ∈ stashInsert stash n m := by
  simp [stashInsert, h, hk]

/-! ### leaving recovery: the stash drain (`C04_drain`) -/

/-- **C04 (drain, nothing left behind)**: whenever a message processed in a recovery state takes the session back to
    normal operation, (1) the triggering message was handled first, (2) stash entries were then taken one at a time, each
    numbered exactly the number expected at that moment, and handed to the in-session handler (`Drained`: in sequence, by
    C01 each application message among them is delivered exactly once), (3) what is left of the stash contains no
    message with the number now expected, and (4) the whole gap was covered (`fin < target`). -/
theorem C04_drain (s : Sess) (m : InMsg) (stash : List (Int × InMsg)) (cur fin : Int)
    (h : curResend s = some (stash, cur, fin)) (hres : (fixMsgInCore s m).2 = .inSession) :
    ∃ rest, Drained (inSessionFixMsgIn s m).1 (sharedStash (inSessionFixMsgIn s m).1 (inSessionFixMsgIn s m).2 stash)
        (fixMsgInCore s m).1 rest ∧
      rest.find? (·.1 == (fixMsgInCore s m).1.store.target) = none ∧
      fin < (inSessionFixMsgIn s m).1.store.target := by
  rw [fixMsgInCore_rec s m stash cur fin h] at hres ⊢
  exact resendFixMsgIn_left s stash cur fin m hres

/-- … and none of it is requested again: the drain creates no ResendRequest -/
theorem C04_drain_no_request (fuel : Nat) (s : Sess) (stash : List (Int × InMsg)) (last : SState)
    (h : (curResend s).isSome = true) : Q 0 s (drainStash fuel s stash last).1 :=
  q_drainStash fuel s stash last h

/-- the drain itself, for every stash and every state: it stops only when a stashed message logged the session off or
    when no stashed message carries the expected number -/
theorem C04_drain_spec (s : Sess) (stash : List (Int × InMsg)) (last : SState) :
    Drained s stash (drainStash (stash.length + 1) s stash last).1 (drainStash (stash.length + 1) s stash last).2.2 ∧
    ((drainStash (stash.length + 1) s stash last).2.1.loggedOn = false ∨
     (drainStash (stash.length + 1) s stash last).2.2.find?
        (·.1 == (drainStash (stash.length + 1) s stash last).1.store.target) = none) :=
  drainStash_spec _ s stash last (by omega)

/-- **C04 (drain, the peer skipped nothing)**: everything was requested (`cur = 0`), the last missing message (number
    `T = target`, `fin ≤ T`) arrives and is clean (plain kind, gates passed, accepted by the application), and the
    stash is the contiguous run `T+1 … T+cnt` of clean messages: the message and then the stash entries `ms` are delivered
    in ascending order (`foldl deliver`: callback, then the advance by one, per message), the stash is used up, the
    session is back in normal operation and expects `T+cnt+1` = one past the highest message received. -/
theorem C04_drain_contiguous (s : Sess) (stash : List (Int × InMsg)) (fin : Int) (m : InMsg) (cnt : Nat)
    (h : curResend s = some (stash, 0, fin))
    (hm : Clean s s.store.target m) (hg : getBool m 123 ≠ .garbled) (hfin : fin ≤ s.store.target)
    (hclean : ∀ p ∈ stash, Clean s p.1 p.2)
    (hrange : ∀ p ∈ stash, s.store.target + 1 ≤ p.1 ∧ p.1 < s.store.target + 1 + cnt)
    (hcover : ∀ i : Nat, i < cnt → ∃ mi, (s.store.target + 1 + i, mi) ∈ stash) :
    ∃ ms : List InMsg, ms.length = cnt ∧
      (∀ (i : Nat) (hi : i < ms.length), (s.store.target + 1 + i, ms[i]) ∈ stash) ∧
      fixMsgInCore s m = ((m :: ms).foldl deliver s, .inSession) ∧
      ((m :: ms).foldl deliver s).store.target = s.store.target + cnt + 1 ∧
      callbacks ((m :: ms).foldl deliver s).log = callbacks s.log ++ cbList s.store.target (m :: ms) := by
  obtain ⟨ms, hlen, hidx, hres⟩ := resend_complete s stash fin m cnt h hm hg hfin hclean hrange hcover
  refine ⟨ms, hlen, hidx, hres, ?_, callbacks_foldl_deliver _ s⟩
  rw [foldl_deliver_target, List.length_cons, hlen]; omega

/-! ### the gap detected on the Logon itself -/

/-- **C04 (Logon gap)**: in the `logon` state, whenever the Logon handler reports a gap (`n` above the expected `t`) the
    ResendRequest `[t, infinity]` (or the first chunk) is issued — queued behind the Logon reply, the session not yet
    counting as logged on — and recovery starts with an empty stash and gap end `n-1`; `t` is the expected number.
    `hq` (new with EnableNextExpectedMsgSeqNum): the option is off, or message persistence is on.  With the option on and
    persistence off the statement is FALSE of the code: `handleLogon` reports the peer's tag 789 through the same error
    (`targetTooHigh{789, our next OUTBOUND number}`), and the logon state requests from our outbound number — counterexample
    `#guard` below (`c04NxGap`). -/
theorem C04_logon_gap (s s' : Sess) (m : InMsg) (n t : Int) (hk : kindOf m = "A") (hq : NxNoErr s.cfg)
    (h : handleLogon s m = (s', some (.rej (.tooHigh n t)))) :
    t = s'.store.target ∧ getInt m 34 = .val n ∧ n > t ∧
    logonFixMsgIn s m =
      (sendInReplyTo s' (mkOut "2" [(7, toString t), (16, toString (chunkEnd s'.cfg t (n - 1)))]),
       .resend [] (chunkCur s'.cfg t (n - 1)) (n - 1)) := by
  obtain ⟨ht, hn, hgt⟩ := handleLogon_high s s' m n t hq h
  refine ⟨ht, hn, hgt, ?_⟩
  rw [logonFixMsgIn_high s s' m n t hk hq h, ← ht]; rfl

/-- and the Logon handler does report the gap for every Logon the application accepts that passes the gates, asks for
    no reset and carries a number above the expected one (the expected number is still the one before the Logon).
    `hnx`, `hq` (new with EnableNextExpectedMsgSeqNum): the Logon is not refused because its tag 789 is ahead of our next
    outbound number — without the option, or without a readable 789, that is always so (`nxRefuses_off`, `nxRefuses_absent`) —
    and the option is off or message persistence on (see `C04_logon_gap`). -/
theorem C04_logon_gap_detected (s : Sess) (m : InMsg) (n : Int) (hst : s.st = .logon) (hk : kindOf m = "A")
    (hfixt : (s.cfg.bs == 5 && !(m.f.has 1137)) = false)
    (hv : validate s.cfg m = none) (hcb : callbackVerdict m = none)
    (hr1 : (if s.cfg.initiator then false else s.cfg.resetOnLogon) = false) (hr2 : logonResetFlag m = false)
    (hb : checkBeginString s m = none) (hc : checkCompID s m = none) (ht : checkSendingTime s m = none)
    (hn : getInt m 34 = .val n) (hgt : n > s.store.target)
    (hnx : nxRefuses s m = false) (hq : NxNoErr s.cfg) :
    ∃ s', Kept s s' ∧
      fixMsgInCore s m =
        (sendInReplyTo s' (mkOut "2" [(7, toString s.store.target), (16, toString (chunkEnd s.cfg s.store.target (n - 1)))]),
         .resend [] (chunkCur s.cfg s.store.target (n - 1)) (n - 1)) := by
  obtain ⟨s', hl, hkept⟩ := handleLogon_gap s m n hfixt hv hcb hr1 hr2 hb hc (Or.inr ht) hn hgt hnx hq
  refine ⟨s', hkept, ?_⟩
  have : fixMsgInCore s m = logonFixMsgIn s m := by simp [fixMsgInCore, hst]
  rw [this, logonFixMsgIn_high s s' m n _ hk hq hl, hkept.target, hkept.cfg]; rfl

/-! ### `C04_logon_gap` without `hq` is false of the code (EnableNextExpectedMsgSeqNum on, message persistence off)

An acceptor expecting 3 whose next outbound number is 5 receives a Logon numbered 9 (a gap [3, 8] detected on the Logon itself)
whose tag 789 says 4.  `handleLogon` replies, notifies, and then reports the 789 through the error the gap check would use:
`targetTooHigh{4, 5}`.  The logon state queues ONE ResendRequest — BeginSeqNo 5 (our next OUTBOUND number), recovery range end
3 (the peer's 789 − 1) — instead of BeginSeqNo 3 with range end 8; the expected number stays 3.  With the option off the same
Logon gets the request the property describes.  (The `sess` correspondence agrees with the real code on this; the C04
monitor does not see it: the request is queued, not written, while the session is not logged on.) -/
def c04NxCfg : Cfg := { nextExpected := true, persist := false }
def c04NxGap (cfg : Cfg) : List (String × Fields) × Int × Int × Int :=
  let r := step (step (initSess cfg 5 3) .connect).1 (.incomingMsg (some (demoIn cfg "A" 9 [(98, "0"), (108, "30"), (789, "4")])))
  (r.1.toSend.map (fun o => (o.kind, o.f)), r.1.store.target, match r.1.st with | .resend _ c f => (c, f) | _ => (-1, -1))
#guard c04NxGap c04NxCfg == ([("2", [(7, "5"), (16, "0")])], 3, 0, 3)
#guard c04NxGap { c04NxCfg with nextExpected := false } == ([("2", [(7, "3"), (16, "0")])], 3, 0, 8)
#guard c04NxGap { c04NxCfg with persist := true } == ([("2", [(7, "3"), (16, "0")])], 3, 0, 8)

/-! ### non-vacuity (evaluated by the interpreter at build time; String functions do not reduce in the kernel) -/

-- the hypotheses of C04_request are satisfiable: an acceptor after connect + Logon(1) expects 2; message 5 arrives
#guard (demoUp {}).st.name == "InSession" && (demoUp {}).store.target == 2
#guard (checkBeginString (demoUp {}) (demoIn {} "D" 5)).isNone && (checkCompID (demoUp {}) (demoIn {} "D" 5)).isNone
        && (checkSendingTime (demoUp {}) (demoIn {} "D" 5)).isNone && gotIs (getInt (demoIn {} "D" 5) 34) 5
        && kindOf (demoIn {} "D" 5) == "D"
-- … and the event is what C04_request_step says: FIX.4.2 infinity = 0; chunk 2 → 16 = 3, cur = 3; FIX.4.1 infinity = 999999
#guard (step (demoUp {}) (.incomingMsg (some (demoIn {} "D" 5)))).2.1
        == [.saved 2 "2" true, .wire { kind := "2", seq := 2, f := [(7, "2"), (16, "0")] }, .armPeer 36000]
#guard (step (demoUp { chunk := 2 }) (.incomingMsg (some (demoIn { chunk := 2 } "D" 5)))).2.1
        == [.saved 2 "2" true, .wire { kind := "2", seq := 2, f := [(7, "2"), (16, "3")] }, .armPeer 36000]
#guard (step (demoUp { bs := 1 }) (.incomingMsg (some (demoIn { bs := 1 } "D" 5)))).2.1
        == [.saved 2 "2" true, .wire { kind := "2", seq := 2, f := [(7, "2"), (16, "999999")] }, .armPeer 36000]
#guard (match (step (demoUp { chunk := 2 }) (.incomingMsg (some (demoIn { chunk := 2 } "D" 5)))).1.st with
        | .resend st c f => st.map (·.1) == [5] && c == 3 && f == 4 | _ => false)
-- recovery: a second early message is kept and nothing is sent (C04_kept, C04_no_duplicate) — also with a TestRequest pending
#guard obsOf (demoUp {}) [.incomingMsg (some (demoIn {} "D" 5)), .incomingMsg (some (demoIn {} "D" 7))]
        == [.saved 2 "2" true, .wire { kind := "2", seq := 2, f := [(7, "2"), (16, "0")] }, .armPeer 36000, .armPeer 36000]
#guard (match (runEvs (demoUp {}) [.incomingMsg (some (demoIn {} "D" 5)), .timeout .peerTimeout,
                                   .incomingMsg (some (demoIn {} "D" 7))]).st with
        | .resend st c f => st.map (·.1) == [7, 5] && c == 0 && f == 4 | _ => false)
#guard (obsOf (demoUp {}) [.incomingMsg (some (demoIn {} "D" 5)), .timeout .peerTimeout,
                           .incomingMsg (some (demoIn {} "D" 7))]).count (.wire { kind := "2", seq := 2, f := [(7, "2"), (16, "0")] }) == 1
-- the missing 2, 3, 4 arrive: 2 … 6 are delivered in order, back to normal operation expecting 7 (C04_drain_contiguous)
#guard (obsOf (demoUp {}) [.incomingMsg (some (demoIn {} "D" 5)), .incomingMsg (some (demoIn {} "D" 6)),
          .incomingMsg (some (demoIn {} "D" 2)), .incomingMsg (some (demoIn {} "D" 3)), .incomingMsg (some (demoIn {} "D" 4))]).filter isCallback
        == [.fromApp "2" 2, .fromApp "3" 3, .fromApp "4" 4, .fromApp "5" 5, .fromApp "6" 6]
#guard (runEvs (demoUp {}) [.incomingMsg (some (demoIn {} "D" 5)), .incomingMsg (some (demoIn {} "D" 6)),
          .incomingMsg (some (demoIn {} "D" 2)), .incomingMsg (some (demoIn {} "D" 3)), .incomingMsg (some (demoIn {} "D" 4))]).st.name == "InSession"
#guard (runEvs (demoUp {}) [.incomingMsg (some (demoIn {} "D" 5)), .incomingMsg (some (demoIn {} "D" 6)),
          .incomingMsg (some (demoIn {} "D" 2)), .incomingMsg (some (demoIn {} "D" 3)), .incomingMsg (some (demoIn {} "D" 4))]).store.target == 7
-- whole history: one ResendRequest on the wire; the budgets of the five messages met in recovery (everything requested) are 0
#guard (wiresOf (histObs (initSess {} 1 1) [.connect, .incomingMsg (some (demoIn {} "A" 1 [(98, "0"), (108, "30")])),
          .incomingMsg (some (demoIn {} "D" 5)), .incomingMsg (some (demoIn {} "D" 7)), .incomingMsg (some (demoIn {} "D" 2)),
          .incomingMsg (some (demoIn {} "D" 3)), .incomingMsg (some (demoIn {} "D" 4))])).countP isRR == 1
#guard histBudget (initSess {} 1 1) [.connect, .incomingMsg (some (demoIn {} "A" 1 [(98, "0"), (108, "30")])),
          .incomingMsg (some (demoIn {} "D" 5)), .incomingMsg (some (demoIn {} "D" 7)), .incomingMsg (some (demoIn {} "D" 2)),
          .incomingMsg (some (demoIn {} "D" 3)), .incomingMsg (some (demoIn {} "D" 4))] == 2
-- the gap on the Logon itself: Logon(4) on a fresh acceptor expecting 1 → request [1, 0] queued behind the Logon reply, empty stash
#guard (runEvs (initSess {} 1 1) [.connect, .incomingMsg (some (demoIn {} "A" 4 [(98, "0"), (108, "30")]))]).toSend
        == [{ kind := "2", seq := 2, f := [(7, "1"), (16, "0")] }]
#guard (match (runEvs (initSess {} 1 1) [.connect, .incomingMsg (some (demoIn {} "A" 4 [(98, "0"), (108, "30")]))]).st with
        | .resend st c f => st.isEmpty && c == 0 && f == 3 | _ => false)

/-! ### two corner cases of the chunk logic that the theorems above make visible (model = code, resend_state.go)

  `C04_no_duplicate` allows the next-chunk request when `cur ≤ target`, not only when `cur < target`, and puts no
  upper bound on `target`:
  * chunk 1, recovery with the chunk `[5,5]` outstanding (`cur = target = 5`): a too-high GapFill (34=9) is stashed and the
    branch `gapFillFlag && currentResendRangeEnd == NextTargetMsgSeqNum` re-sends the request `7=5 16=5` although the
    expected number has not moved;
  * chunk 2, `cur = 3`, `fin = 10`: an in-sequence GapFill 2 → 15 moves the expected number beyond the gap end and the
    branch `cur < target` requests `7=15 16=0` although nothing is missing. -/
#guard (fixMsgInCore { cfg := { chunk := 1 }, st := .resend [] 5 10, store := { sender := 2, target := 5 }, out := true, inboxOpen := true, hb := 30 }
          (demoIn { chunk := 1 } "4" 9 [(123, "Y"), (36, "12")])).1.log
        == [.wire { kind := "2", seq := 2, f := [(7, "5"), (16, "5")] }, .saved 2 "2" true]
#guard (fixMsgInCore { cfg := { chunk := 2 }, st := .resend [] 3 10, store := { sender := 2, target := 2 }, out := true, inboxOpen := true, hb := 30 }
          (demoIn { chunk := 2 } "4" 2 [(43, "Y"), (123, "Y"), (36, "15")])).1.log
        == [.wire { kind := "2", seq := 2, f := [(7, "15"), (16, "0")] }, .saved 2 "2" true, .setT 15, .fromAdmin "4" "2"]

/-!
Clause checklist (properties.jsonl C04 → theorems)
* a message above the expected number T → exactly one ResendRequest, BeginSeqNo T         : C04_request, C04_request_sent, C04_request_step
* EndSeqNo infinity (0 / 999999 before FIX.4.2), or T+chunk-1 when the chunk is smaller     : C04_request (`chunkEnd`), guards for 4.2 / 4.1 / chunk 2
* keeps the early message                                                                  : C04_request (stash = [(n, m)]), C04_kept, C04_kept_quiet, C04_kept_mem/_others
* while recovering no further ResendRequest other than next-chunk ones, begin = expected   : C04_no_duplicate (shape), C04_no_duplicate_all_requested (cur = 0: none),
                                                                                             C04_no_duplicate_budget (≤ 1), C04_no_duplicate_step (whole event),
                                                                                             C04_requests_only_on_inbound (every event kind), C04_no_duplicate_history (all histories)
* … also with a TestRequest pending (every state with `curResend = some …`)               : same theorems (hypothesis `curResend s = some …` covers `pending(resend)`); C20_cancel_resend
* once the missing numbers arrived every kept message next in sequence is delivered, in order : C04_drain, C04_drain_spec (`Drained`), C01_inorder_exactly_once for order/uniqueness
* … without being requested again                                                          : C04_drain_no_request, C04_no_duplicate
* peer skipped nothing → normal operation, expecting one past the highest received          : C04_drain_contiguous
* gaps detected on the Logon itself                                                        : C04_logon_gap, C04_logon_gap_detected
* quantifier: every gap size / arrival order / chunk size / end marker                      : all theorems are ∀ cfg (in `s.cfg`), ∀ s, ∀ m; one-step theorems from arbitrary states
* not proved as a whole-history invariant (stated as hypotheses of C04_kept / satisfied by C04_request's result):
  `target ≤ fin` and `cur = 0 ∨ target < cur` while recovering; see the two corner cases above for what happens outside them
* not modelled: store write failures; EnableNextExpectedMsgSeqNum
-/
