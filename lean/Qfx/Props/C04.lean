/- C04 — gap recovery. First theorems (decision logic of processReject); more in progress (DESIGN §5 C04). -/
import Qfx.Spec.Session
open Qfx Qfx.Sess

/-- while recovering (also with a test request pending on top, `lookThroughPending`), a too-high message is stashed in the
    current recovery state and NO ResendRequest is created: the session is returned untouched -/
theorem C04_no_second_request_while_recovering (s : Sess) (m : InMsg) (n e : Int) (st : List (Int × InMsg)) (c f : Int)
    (h : curResend s = some (st, c, f)) :
    processReject s m (.tooHigh n e) = (s, .resend (stashInsert st n m) c f) := by
  simp [processReject, h]

/-- outside recovery a too-high message creates the recovery state with the message kept and the request
    `[expected, received-1]` handed to `sendResendRequest` -/
theorem C04_first_request (s : Sess) (m : InMsg) (n e : Int) (h : curResend s = none) :
    processReject s m (.tooHigh n e) =
      ((sendResendRequest s e (n - 1)).1, .resend (stashInsert [] n m) (sendResendRequest s e (n - 1)).2.1 (sendResendRequest s e (n - 1)).2.2) := by
  simp [processReject, h]

/-- the request's end: chunk end when a smaller chunk is configured, "infinity" (0 / 999999) otherwise; the whole gap's end is remembered -/
theorem C04_request_range (s : Sess) (b e : Int) :
    (sendResendRequest s b e).2.2 = e ∧
    (sendResendRequest s b e).2.1 = (if (if s.cfg.chunk != 0 then b + s.cfg.chunk - 1 else e) < e then (if s.cfg.chunk != 0 then b + s.cfg.chunk - 1 else e) else 0) := by
  unfold sendResendRequest
  simp only []
  split <;> split <;> simp_all

/-- the stash keeps the early message under its number -/
theorem C04_stash_has (st : List (Int × InMsg)) (n : Int) (m : InMsg) : (stashInsert st n m).find? (·.1 == n) = some (n, m) := by
  simp [stashInsert]
