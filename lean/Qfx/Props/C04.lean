/-
  C04 — "A sequence gap triggers one exact ResendRequest and loses nothing received".
  Property theorems only (helper lemmas: Qfx/Lemmas/SessC04.lean).

  properties.jsonl: "When a message arrives whose MsgSeqNum is above the next expected number T, the engine sends exactly
  one ResendRequest with BeginSeqNo T (EndSeqNo 'infinity', or T+chunk-1 when a chunk size smaller than the gap is
  configured), keeps the early message, and while recovery is in progress sends no further ResendRequest other than those
  for the following chunks, each beginning at the number expected at that moment. Once the missing numbers have arrived as
  replays or gap fills, every kept message that is next in sequence is delivered, in order and without being requested
  again, and when the peer skipped nothing the session returns to normal operation expecting one past the highest message
  received."
-/
import Qfx.Lemmas.SessC04
open Qfx Qfx.Sess

/-! ### the first request -/

/-- **C04 (request)**: normal operation (`inSession`, also with a TestRequest pending), any configuration, any message of a
    sequence-gated kind that passes the BeginString / CompID / SendingTime gates and carries a number `n` above the
    expected number `T`: the handler does exactly one thing — it sends the ResendRequest `7=T`, `16=infinity` (0 from
    FIX.4.2 on, 999999 before) or `16=T+chunk-1` when a chunk size is configured and the chunk ends before `n-1` — and
    the next state is the recovery state holding exactly the early message, the end of the requested chunk (0 = all) and
    the end of the gap `n-1`. -/
theorem C04_request (s : Sess) (m : InMsg) (n : Int)
    (hst : s.st = .inSession ∨ s.st = .pendingIn)
    (hb : checkBeginString s m = none) (hc : checkCompID s m = none) (ht : checkSendingTime s m = none)
    (hk : SeqGated m) (hn : getInt m 34 = .val n) (hgt : n > s.store.target) :
    fixMsgInCore s m =
      (sendInReplyTo s (mkOut "2" [(7, toString s.store.target), (16, toString (chunkEnd s.cfg s.store.target (n - 1)))]),
       .resend [(n, m)] (chunkCur s.cfg s.store.target (n - 1)) (n - 1)) := by
  have hcur : curResend s = none := by rcases hst with h | h <;> simp [curResend, h]
  have h1 : fixMsgInCore s m = inSessionFixMsgIn s m := by rcases hst with h | h <;> simp [fixMsgInCore, h]
  rw [h1, inSessionFixMsgIn_high s m n hb hc (Or.inr ht) hk hn hgt, processReject_high_fresh s m n _ hcur]
  rfl

/-- what "sends" means: the request gets the next outbound number, is handed to the store, is written after whatever was
    still queued (or queued when there is no connection); nothing else changes — in particular the expected number -/
theorem C04_request_sent (s : Sess) (b e : Int) (hl : s.st.loggedOn = true) :
    AdminSent s (rrMsg s.cfg b e) (sendInReplyTo s (rrMsg s.cfg b e)) :=
  adminSent s _ rfl rfl hl

/-- the same on the whole event `Incoming(m)`: the observations are exactly the store write, the queued messages (if
    any) and the ResendRequest on the wire, then the peer timer; nothing is delivered, the expected number stays -/
theorem C04_request_step (s : Sess) (m : InMsg) (n : Int)
    (hst : s.st = .inSession ∨ s.st = .pendingIn)
    (hb : checkBeginString s m = none) (hc : checkCompID s m = none) (ht : checkSendingTime s m = none)
    (hk : SeqGated m) (hn : getInt m 34 = .val n) (hgt : n > s.store.target) :
    (step s (.incomingMsg (some m))).1.st = .resend [(n, m)] (chunkCur s.cfg s.store.target (n - 1)) (n - 1) ∧
    (step s (.incomingMsg (some m))).1.store.target = s.store.target ∧
    (step s (.incomingMsg (some m))).1.toSend =
      (if s.out then [] else s.toSend ++ [numbered s (rrMsg s.cfg s.store.target (n - 1))]) ∧
    (step s (.incomingMsg (some m))).2.1 =
      persistObs s.cfg (numbered s (rrMsg s.cfg s.store.target (n - 1))) ::
        (if s.out then (s.toSend ++ [numbered s (rrMsg s.cfg s.store.target (n - 1))]).map Obs.wire else [])
        ++ [.armPeer (1200 * s.hb)] := by
  have hconn : s.st.connected = true := by rcases hst with h | h <;> simp [h, SState.connected]
  have hl : s.clearLog.st.loggedOn = true := by rcases hst with h | h <;> simp [Sess.clearLog, h, SState.loggedOn]
  have hs : AdminSent s.clearLog (rrMsg s.cfg s.store.target (n - 1)) (sendInReplyTo s.clearLog (rrMsg s.cfg s.store.target (n - 1))) :=
    C04_request_sent s.clearLog s.store.target (n - 1) hl
  have hr : fixMsgInCore s.clearLog m = (sendInReplyTo s.clearLog (rrMsg s.cfg s.store.target (n - 1)),
      .resend [(n, m)] (chunkCur s.cfg s.store.target (n - 1)) (n - 1)) := C04_request s.clearLog m n hst hb hc ht hk hn hgt
  rw [step_incoming_eq s m hconn _ hr rfl]
  refine ⟨rfl, hs.target, hs.queue, ?_⟩
  simp only [hs.log, hs.hb]
  simp [Sess.clearLog, numbered]

/-! ### while recovery is in progress -/

/-- **C04 (no duplicate)**: any recovery state (`resend`, and `pending(resend)` — the model follows the fixed code in
    which the type switches look through a pending TestRequest), ANY inbound message (any kind, any header): everything
    the handler does up to an intermediate state `s1` creates no ResendRequest (`Q 0`: the number of ResendRequests
    written or queued does not grow, and state tag / configuration / buffered input are untouched); after that either
    nothing more happens, or — only when a chunk is outstanding (`cur ≠ 0`) and the expected number has reached its end —
    exactly one ResendRequest is sent, for the next chunk: `7 = the number expected at that moment`, `16` = its chunk
    end or infinity relative to the original gap end `fin`. -/
theorem C04_no_duplicate (s : Sess) (m : InMsg) (stash : List (Int × InMsg)) (cur fin : Int)
    (h : curResend s = some (stash, cur, fin)) :
    ∃ s1, Q 0 s s1 ∧
      ((fixMsgInCore s m).1 = s1 ∨
       (cur ≠ 0 ∧ cur ≤ s1.store.target ∧ ∃ stash',
          fixMsgInCore s m =
            (sendInReplyTo s1 (mkOut "2" [(7, toString s1.store.target), (16, toString (chunkEnd s1.cfg s1.store.target fin))]),
             .resend stash' (chunkCur s1.cfg s1.store.target fin) fin))) := by
  rw [fixMsgInCore_rec s m stash cur fin h]
  exact resendFixMsgIn_shape s stash cur fin m (by rw [h]; rfl)

/-- in particular: when the whole rest was requested (`cur = 0`, always the case without a chunk size) no inbound
    message whatsoever makes the engine create another ResendRequest … -/
theorem C04_no_duplicate_all_requested (s : Sess) (m : InMsg) (stash : List (Int × InMsg)) (fin : Int)
    (h : curResend s = some (stash, 0, fin)) : Q 0 s (fixMsgInCore s m).1 := by
  rw [fixMsgInCore_rec s m stash 0 fin h]
  simpa using q_resendFixMsgIn s stash 0 fin m (by rw [h]; rfl)

/-- … and with a chunk outstanding at most one -/
theorem C04_no_duplicate_budget (s : Sess) (m : InMsg) (stash : List (Int × InMsg)) (cur fin : Int)
    (h : curResend s = some (stash, cur, fin)) : Q (if cur ≠ 0 then 1 else 0) s (fixMsgInCore s m).1 := by
  rw [fixMsgInCore_rec s m stash cur fin h]
  exact q_resendFixMsgIn s stash cur fin m (by rw [h]; rfl)

/-- the same on the whole event `Incoming(m)` (nothing buffered in the inbound channel), including the disconnect
    handling when the handler ends the session: the ResendRequests on the wire during the event plus those still queued
    afterwards are at most those queued before, plus one when a chunk was outstanding -/
theorem C04_no_duplicate_step (s : Sess) (m : InMsg) (stash : List (Int × InMsg)) (cur fin : Int)
    (h : curResend s = some (stash, cur, fin)) (hi : s.inbox = []) :
    rrAfter (step s (.incomingMsg (some m))) ≤ s.toSend.countP isRR + (if cur ≠ 0 then 1 else 0) :=
  rrAfter_incoming_rec s m stash cur fin h hi

/-! ### the early message is kept -/

/-- **C04 (kept)**: recovery in progress (`target ≤ fin`), a sequence-gated message passing the identity gates (the
    SendingTime check is skipped during recovery) with a number above the expected one, GapFillFlag not garbled: the
    message is in the stash of the next state, which is again the recovery state for the same gap; the expected number
    is unchanged; the session record is untouched (nothing sent, nothing delivered), except that when the current chunk
    has been satisfied (`cur ≠ 0 ∧ cur ≤ target`) the request for the next chunk goes out. -/
theorem C04_kept (s : Sess) (m : InMsg) (stash : List (Int × InMsg)) (cur fin n : Int)
    (h : curResend s = some (stash, cur, fin))
    (hb : checkBeginString s m = none) (hc : checkCompID s m = none)
    (hk : SeqGated m) (hn : getInt m 34 = .val n) (hgt : n > s.store.target)
    (hg : getBool m 123 ≠ .garbled) (hfin : s.store.target ≤ fin) :
    fixMsgInCore s m = (s, .resend (stashInsert stash n m) cur fin) ∨
    (cur ≠ 0 ∧ cur ≤ s.store.target ∧
      fixMsgInCore s m =
        (sendInReplyTo s (rrMsg s.cfg s.store.target fin),
         .resend (stashInsert stash n m) (chunkCur s.cfg s.store.target fin) fin)) := by
  rw [fixMsgInCore_rec s m stash cur fin h]
  exact resendFixMsgIn_high s stash cur fin m n h hb hc hk hn hgt hg hfin

/-- the usual case — the chunk currently requested is not yet complete, or everything was requested at once -/
theorem C04_kept_quiet (s : Sess) (m : InMsg) (stash : List (Int × InMsg)) (cur fin n : Int)
    (h : curResend s = some (stash, cur, fin))
    (hb : checkBeginString s m = none) (hc : checkCompID s m = none)
    (hk : SeqGated m) (hn : getInt m 34 = .val n) (hgt : n > s.store.target)
    (hg : getBool m 123 ≠ .garbled) (hfin : s.store.target ≤ fin) (hcur : cur = 0 ∨ s.store.target < cur) :
    fixMsgInCore s m = (s, .resend (stashInsert stash n m) cur fin) := by
  rcases C04_kept s m stash cur fin n h hb hc hk hn hgt hg hfin with h1 | ⟨h1, h2, _⟩
  · exact h1
  · omega

theorem C04_kept_mem (stash : List (Int × InMsg)) (n : Int) (m : InMsg) : (n, m) ∈ stashInsert stash n m := by
  simp [stashInsert]

/-- earlier stash entries with other numbers survive -/
theorem C04_kept_others (stash : List (Int × InMsg)) (n k : Int) (m m' : InMsg) (hk : k ≠ n) (h : (k, m') ∈ stash) :
    (k, m') ∈ stashInsert stash n m := by
  simp [stashInsert, h, hk]
