/-
  C03 — "A ResendRequest is answered by an exact, contiguous, well-formed replay" — the RANGE LOGIC.
  Property theorems only (definitions: Qfx/Spec/SessionTypedC03.lean; helper lemmas: Qfx/Lemmas/SessC03.lean,
  Qfx/Lemmas/SessStore.lean).  The byte layer (BodyLength / CheckSum / body bytes of a rebuilt message) belongs to
  the codec family and is not stated here.

  properties.jsonl: "For a ResendRequest for [b, e] the reply is a run of PossDupFlag=Y messages whose coverage starts
  at b, continues each where the previous ended, and ends exactly at min(e, last number used)+1 (EndSeqNo 0 from FIX.4.2
  on, 999999 up to FIX.4.2, meaning 'to the end'); nothing outside that range is sent. Application messages are replayed
  under their original MsgSeqNum with a byte-identical body, OrigSendingTime equal to the original SendingTime and
  correct BodyLength and CheckSum; administrative messages and messages the application declines to resend are replaced
  by SequenceReset-GapFill whose NewSeqNo is the next number replayed."
-/
import Qfx.Lemmas.SessC03
import Qfx.Props.C01
open Qfx Qfx.Sess

/-! ## 1. the model's reply is the plan -/

/-- `resendLoop` enqueues exactly the plan of its walk and ends with the plan's two cursors (any session state, any list).
    (`replayPlanR l` / `replyPlanR l` are the plans with header tag 369 = `l` on the gap fills — EnableLastMsgSeqNumProcessed —;
    for `l = none` they are `replayPlan` / `replyPlan`: `C03_plan_without_tag`.) -/
theorem C03_loop_follows_plan (s : Sess) (seqNum next : Int) (l : List (Int × OutMsg)) :
    resendLoop s seqNum next l = (enqAll s (replayPlanR s.replyLast seqNum next l).1, (replayPlanR s.replyLast seqNum next l).2) :=
  resendLoop_eq s seqNum next l

/-- `resendMessages` enqueues exactly `replyPlan` (both persistence modes, every range, every store) -/
theorem C03_reply_is_plan (s : Sess) (b e : Int) :
    resendMessages s b e = enqAll s (replyPlanR s.replyLast s.cfg.persist s.store b e) :=
  resendMessages_eq s b e

/-- the tagged plan differs from the plain one in the header tag of the gap fills only: same length, and element by
    element the same kind, number and fields; without the tag they are equal -/
theorem C03_plan_without_tag (l : Option Int) (p : Bool) (st : Store) (b e : Int) :
    replyPlanR none p st b e = replyPlan p st b e
    ∧ (replyPlanR l p st b e).map (fun m => (m.kind, m.seq, m.f)) = (replyPlan p st b e).map (fun m => (m.kind, m.seq, m.f)) := by
  refine ⟨replyPlanR_none p st b e, ?_⟩
  unfold replyPlanR replyPlan
  rw [List.map_map, List.map_map]
  apply List.map_congr_left
  intro r _
  obtain ⟨h1, h2, h3⟩ := Rep.outR_view l r
  simp [h1, h2, h3]

/-- with a connection, the reply goes out at once: the observations are the writes of the queue (what `enqueueAndSend`
    keeps of it: everything when logged on, nothing otherwise) followed by the plan, in order; nothing else changes -/
theorem C03_reply_wires (s : Sess) (b e : Int) (ho : s.out = true) (m : OutMsg) (rest : List OutMsg)
    (hp : replyPlanR s.replyLast s.cfg.persist s.store b e = m :: rest) :
    resendMessages s b e = s.wrote (s.keptQueue ++ m :: rest) := by
  rw [resendMessages_eq, hp, enqAll_out s m rest ho]

/-- an empty plan changes nothing at all -/
theorem C03_reply_nothing (s : Sess) (b e : Int) (hp : replyPlanR s.replyLast s.cfg.persist s.store b e = []) :
    resendMessages s b e = s := by
  rw [resendMessages_eq, hp]; rfl

/-- with an empty queue the wires of the reply are exactly the plan -/
theorem C03_reply_wires_exact (s : Sess) (b e : Int) (ho : s.out = true) (hq : s.toSend = []) :
    (resendMessages s b e).log = ((replyPlanR s.replyLast s.cfg.persist s.store b e).map Obs.wire).reverse ++ s.log := by
  rw [resendMessages_eq]
  cases hp : replyPlanR s.replyLast s.cfg.persist s.store b e with
  | nil => rfl
  | cons m rest =>
    rw [enqAll_out s m rest ho]
    simp [Sess.wrote, Sess.keptQueue, hq]

/-! ## 2. the reaction to one ResendRequest -/

/-- a ResendRequest that passes verification with readable BeginSeqNo / EndSeqNo: the reply is `resendMessages` for the
    clipped range, after which the request's own number is consumed if it is the expected one; the session stays in
    session.  (`verifySelect` itself only adds the FromAdmin observation: `verifySelect_emit`.) -/
theorem C03_handleResendRequest (s s1 : Sess) (m : InMsg) (b e : Int)
    (hv : verifySelect s m false false true = (s1, none)) (hb : getInt m 7 = .val b) (he : getInt m 16 = .val e) :
    handleResendRequest s m =
      (let s2 := resendMessages (s1.setReplyLast (replyLastOf s1 m)) b (clipEnd s1.cfg s1.store.sender e)
       if (checkTooLow s2 m).isSome then (s2, .inSession)
       else if (checkTooHigh s2 m).isSome then (s2, .inSession)
       else (incrTarget s2, .inSession)) := by
  unfold handleResendRequest
  rw [hv]
  simp only [hb, he]
  rfl

theorem C03_verification_adds_one_callback (s : Sess) (m : InMsg) :
    (verifySelect s m false false true).1 = s ∨ ∃ o, (verifySelect s m false false true).1 = s.emit o :=
  verifySelect_emit s m false false true

/-- **One ResendRequest event.**  In session, connected, nothing queued, the request passes verification: the
    observations of the event are the FromAdmin callback, the plan written in order, the request's own number consumed
    if it is the expected one, and the peer timer re-armed. -/
theorem C03_resend_request_event (s : Sess) (m : InMsg) (b e : Int)
    (hst : s.st = .inSession) (hout : s.out = true) (hq : s.toSend = [])
    (hk : kindOf m = "2") (hb : getInt m 7 = .val b) (he : getInt m 16 = .val e)
    (hv : verifySelect s.clearLog m false false true = (s.clearLog.emit (.fromAdmin "2" (seqText m)), none)) :
    (step s (.incomingMsg (some m))).2.1 =
      [Obs.fromAdmin "2" (seqText m)]
      ++ (replyPlanR (replyLastOf s m) s.cfg.persist s.store b (clipEnd s.cfg s.store.sender e)).map Obs.wire
      ++ (if (checkTooLow s m).isSome || (checkTooHigh s m).isSome then [] else [Obs.incT])
      ++ [Obs.armPeer (1200 * s.hb)] := by
  unfold step stepCore
  simp only []
  have hf : fuelOf s.clearLog = (4 * s.inbox.length + 6) + 1 + 1 := by unfold fuelOf; rfl
  rw [hf]
  unfold incoming
  simp only []
  rw [checkSessionTime_inrange _ _ (by show s.st.sessionTime = true; rw [hst]; rfl)]
  have hc : s.clearLog.st.connected = true := by show s.st.connected = true; rw [hst]; rfl
  simp only [hc, Bool.not_true, Bool.false_eq_true, if_false]
  have hfix : fixMsgInCore s.clearLog m = handleResendRequest s.clearLog m := by
    unfold fixMsgInCore
    have : s.clearLog.st = .inSession := hst
    rw [this]
    simp only []
    unfold inSessionFixMsgIn
    simp [hk]
  rw [hfix, C03_handleResendRequest s.clearLog _ m b e hv hb he]
  simp only []
  generalize hx : (s.clearLog.emit (.fromAdmin "2" (seqText m))).setReplyLast (replyLastOf (s.clearLog.emit (.fromAdmin "2" (seqText m))) m) = x
  have hxo : x.out = true := by rw [← hx]; exact hout
  have hxq : x.toSend = [] := by rw [← hx]; exact hq
  have hxr : x.replyLast = replyLastOf s m := by rw [← hx]; rfl
  have hcl : clipEnd (s.clearLog.emit (.fromAdmin "2" (seqText m))).cfg (s.clearLog.emit (.fromAdmin "2" (seqText m))).store.sender e
      = clipEnd x.cfg x.store.sender e := by rw [← hx]; rfl
  rw [hcl, resendMessages_shape x b _ hxo hxq, hxr]
  have hxc : x.cfg = s.cfg := by rw [← hx]; rfl
  have hxs : x.store = s.store := by rw [← hx]; rfl
  have hxl : x.log = [.fromAdmin "2" (seqText m)] := by rw [← hx]; rfl
  have hxh : x.hb = s.hb := by rw [← hx]; rfl
  rw [checkTooLow_store s _ m (by show x.store.target = _; rw [hxs]), checkTooHigh_store s _ m (by show x.store.target = _; rw [hxs])]
  rw [hxc, hxs]
  cases h1 : (checkTooLow s m).isSome <;> cases h2 : (checkTooHigh s m).isSome <;>
    simp [setState_connected _ _ SState.inSession rfl, Sess.setSt, Sess.emit, incrTarget, Sess.setTarget, hxl, hxh]

/-! ## 3. clipping: "to the end" and beyond-the-end ranges stop at the last number used -/

/-- EndSeqNo is replaced by the last number used exactly when it is the infinity marker of the BeginString
    (0 from FIX.4.2 on, 999999 up to FIX.4.2) or not below the next number to be used -/
theorem C03_clip (cfg : Cfg) (sender e : Int) :
    clipEnd cfg sender e =
      if (cfg.bs ≥ 2 ∧ e = 0) ∨ (cfg.bs ≤ 2 ∧ e = 999999) ∨ e ≥ sender then sender - 1 else e := by
  unfold clipEnd isInfinity
  by_cases h1 : cfg.bs ≥ 2 <;> by_cases h2 : e = 0 <;> by_cases h3 : cfg.bs ≤ 2 <;> by_cases h4 : e = 999999 <;>
    by_cases h5 : e ≥ sender <;> simp [h1, h2, h3, h4, h5]

/-- the clipped end is `min(e, last number used)` unless `e` is the infinity marker, in which case it is the last number used -/
theorem C03_clip_min (cfg : Cfg) (sender e : Int) :
    clipEnd cfg sender e = if isInfinity cfg e then sender - 1 else min e (sender - 1) := by
  unfold clipEnd
  cases h : isInfinity cfg e
  · simp only [Bool.false_or, decide_eq_true_eq, Bool.false_eq_true, if_false, Int.min_def]
    split <;> split <;> omega
  · simp

theorem C03_clip_le (cfg : Cfg) (sender e : Int) : clipEnd cfg sender e ≤ sender - 1 := by
  unfold clipEnd
  split
  · omega
  · rename_i h
    simp only [Bool.or_eq_true, decide_eq_true_eq, not_or] at h
    omega

/-! ## 4. empty / inverted ranges, no persistence -/

/-- empty or inverted (clipped) range: nothing is enqueued, nothing changes — both persistence modes -/
theorem C03_empty_range (s : Sess) (b e : Int) (h : e < b) : resendMessages s b e = s := by
  unfold resendMessages; simp [h]

theorem C03_empty_plan (p : Bool) (st : Store) (b e : Int) (h : e < b) : replyPlan p st b e = [] := by
  simp [replyPlan, replyReps, h]

/-- without persistence a non-empty range is answered by the single gap fill `b → e+1` -/
theorem C03_no_persistence (st : Store) (b e : Int) (h : b ≤ e) : replyReps false st b e = [Rep.gap b (e + 1)] := by
  have : ¬ e < b := by omega
  simp [replyReps, this]

/-! ## 5. the cover -/

/-- **Contiguity.**  Persistence on, `b ≤ e`: the reply covers, without holes or overlaps and by non-empty intervals,
    exactly from `b` to one past the last stored number of `[b, e]` (to `b`, i.e. nothing, if none is stored). -/
theorem C03_cover_chain (st : Store) (b e : Int) (hbe : b ≤ e) :
    Chain b (replyReps true st b e) (endOf b (st.range b e)) := by
  have : ¬ e < b := by omega
  simp only [replyReps, this, if_false, Bool.not_true, Bool.false_eq_true]
  exact chain_closeReps _ b b (Int.le_refl _) (fun p hp => ((range_mem st b e p).1 hp).1) (range_asc st b e)

/-- … which is `e + 1` when the store holds every number of the range -/
theorem C03_cover (st : Store) (b e : Int) (hbe : b ≤ e) (hall : st.HoldsAll b e) :
    Chain b (replyReps true st b e) (e + 1) := by
  have := C03_cover_chain st b e hbe
  rwa [endOf_range st b e hbe hall] at this

/-- **Nothing outside the range**: every element of the reply covers a non-empty interval inside `[b, e+1)`
    (no hypothesis on the store) -/
theorem C03_nothing_outside (p : Bool) (st : Store) (b e : Int) :
    ∀ r ∈ replyReps p st b e, b ≤ r.lo ∧ r.lo < r.hi ∧ r.hi ≤ e + 1 := by
  intro r hr
  by_cases hbe : e < b
  · simp [replyReps, hbe] at hr
  · cases p with
    | false =>
      rw [C03_no_persistence st b e (by omega)] at hr
      simp only [List.mem_singleton] at hr
      subst hr; simp only [Rep.lo, Rep.hi]; omega
    | true =>
      have hc := C03_cover_chain st b e (by omega)
      have hw := (hc.within).2 r hr
      have hend : endOf b (st.range b e) ≤ e + 1 := by
        unfold endOf
        cases hl : (st.range b e).getLast? with
        | none => simp only; omega
        | some q =>
          have := ((range_mem st b e q).1 (List.mem_of_getLast? hl)).2.1
          simp only; omega
      omega

/-- **What is replayed**: the resent messages are exactly the stored messages of `[b, e]` that are application
    messages the application does not decline, in ascending order, each exactly once -/
theorem C03_replayed_exactly (st : Store) (b e : Int) (hbe : b ≤ e) :
    (replyReps true st b e).filterMap Rep.msg? = (st.range b e).filter replayable := by
  have : ¬ e < b := by omega
  simp only [replyReps, this, if_false, Bool.not_true, Bool.false_eq_true]
  exact msgs_closeReps _ b b

/-- **What is gap-filled**: a gap fill covers only numbers whose stored message (if there is one) is administrative
    or declined by the application -/
theorem C03_gapfill_only_admin_or_declined (st : Store) (b e : Int) (hbe : b ≤ e) (x y : Int)
    (hg : Rep.gap x y ∈ replyReps true st b e) (n : Int) (hx : x ≤ n) (hy : n < y) (m : OutMsg) (hm : st.lookup n = some m) :
    isAdminKind m.kind = true ∨ resendable m = false := by
  have hne : ¬ e < b := by omega
  have hw := (C03_nothing_outside true st b e _ hg)
  simp only [Rep.lo, Rep.hi] at hw
  simp only [replyReps, hne, if_false, Bool.not_true, Bool.false_eq_true] at hg
  have hin : (n, m) ∈ st.range b e := (range_mem st b e (n, m)).2 ⟨by omega, by omega, hm⟩
  have := gaps_closeReps _ b b (Int.le_refl _) (fun p hp => ((range_mem st b e p).1 hp).1) (range_asc st b e) x y hg (n, m) hin hx hy
  simp only [replayable, Bool.and_eq_false_iff, Bool.not_eq_false'] at this
  exact this

/-- **Well-formed elements.**  Every message of the reply carries PossDupFlag=Y and OrigSendingTime; a gap fill is a
    SequenceReset numbered with the first number it covers, GapFillFlag=Y, NewSeqNo = the next number covered by the
    following element (or the end of the cover); a resent message keeps kind, MsgSeqNum and every field other than 43 / 122
    (same order, same multiplicity). -/
theorem C03_elements_wellformed (r : Rep) :
    r.out.f.get? 43 = some "Y" ∧ (r.out.f.get? 122).isSome = true ∧
    (match r with
     | .gap a b => r.out.kind = "4" ∧ r.out.seq = a ∧ r.out.f.get? 123 = some "Y" ∧ r.out.f.get? 36 = some (toString b)
     | .msg _ m => r.out.kind = m.kind ∧ r.out.seq = m.seq ∧
         r.out.f.filter (fun p => p.1 != 43 && p.1 != 122) = m.f.filter (fun p => p.1 != 43 && p.1 != 122) ∧
         ∀ t, t ≠ 43 → t ≠ 122 → r.out.f.get? t = m.f.get? t) := by
  refine ⟨(rep_out_possDup r).1, (rep_out_possDup r).2, ?_⟩
  cases r with
  | gap a b => exact ⟨rfl, rfl, (gapFill_fields a b).2.2.2, (gapFill_fields a b).1⟩
  | msg n m => exact ⟨rfl, rfl, resent_body m, fun t h1 h2 => resent_get? m t h1 h2⟩

/-- a resent message goes out under the number it is stored under, when the store is filed by MsgSeqNum -/
theorem C03_original_number (st : Store) (hf : st.Filed) (p : Bool) (b e n : Int) (m : OutMsg)
    (h : Rep.msg n m ∈ replyReps p st b e) : (Rep.msg n m).out.seq = n ∧ st.lookup n = some m := by
  by_cases hbe : e < b
  · simp [replyReps, hbe] at h
  · cases p with
    | false => simp [replyReps, hbe] at h
    | true =>
      have h1 : (n, m) ∈ (replyReps true st b e).filterMap Rep.msg? := List.mem_filterMap.2 ⟨_, h, rfl⟩
      rw [C03_replayed_exactly st b e (by omega)] at h1
      have h2 := ((range_mem st b e (n, m)).1 (List.mem_filter.1 h1).1).2.2
      refine ⟨?_, h2⟩
      simp only [Store.lookup, Option.map_eq_some_iff] at h2
      obtain ⟨q, hq, rfl⟩ := h2
      have hmem := List.mem_of_find?_eq_some hq
      have hk := List.find?_some hq
      have : q.1 = n := by simpa using hk
      rw [← this]; exact hf q hmem

/-! ## 6. the store hypothesis is an invariant of the session -/

/-- **Every history.**  Persistence on, counters starting at 1: after every finite history of events the store is filed
    by MsgSeqNum, holds each number once, and holds every number from 1 to the last one used. -/
theorem C03_stored_all (cfg : Cfg) (t0 : Int) (evs : List Ev) (hp : cfg.persist = true) :
    let s := runEvents (initSess cfg 1 t0) evs
    s.cfg = cfg ∧ 1 ≤ s.store.sender ∧ s.store.Filed ∧ s.store.HoldsAll 1 (s.store.sender - 1) := by
  have key : ∀ (evs : List Ev) (s : Sess), s.cfg = cfg → StoredAllInv true s.store →
      (runEvents s evs).cfg = cfg ∧ StoredAllInv true (runEvents s evs).store := by
    intro evs
    induction evs with
    | nil => intro s h1 h2; exact ⟨h1, h2⟩
    | cons e es ih =>
      intro s h1 h2
      have hsp := sp_step s e
      refine ih (step s e).1 (hsp.1.trans h1) ?_
      have := hsp.2 StoredAllInv storedAllInv_closed (by rw [h1, hp]; exact h2)
      rwa [h1, hp] at this
  have h0 : StoredAllInv true (initSess cfg 1 t0).store := by
    intro _
    refine ⟨by simp [initSess], ?_, ?_, ?_, ?_⟩
    · intro q hq; simp [initSess] at hq
    · simp [initSess]
    · intro q hq; simp [initSess] at hq
    · intro n h1 h2; simp [initSess] at h2; omega
  obtain ⟨h1, h2⟩ := key evs (initSess cfg 1 t0) rfl h0
  obtain ⟨a, b, _, _, e⟩ := h2 rfl
  exact ⟨h1, a, b, e⟩

/-- **C03, range logic, every history.**  After any history (persistence on, counters from 1), a ResendRequest for
    `[b, e]` with `b ≥ 1` whose clipped range is non-empty is answered by a reply that covers exactly
    `[b, min(e, last number used) + 1)` (the last number used when `e` means "to the end") as a contiguous chain. -/
theorem C03_exact_cover_every_history (cfg : Cfg) (t0 : Int) (evs : List Ev) (hp : cfg.persist = true) (b e : Int) (hb : 1 ≤ b) :
    let s := runEvents (initSess cfg 1 t0) evs
    let e' := clipEnd s.cfg s.store.sender e
    b ≤ e' → Chain b (replyReps s.cfg.persist s.store b e') (e' + 1) := by
  intro s e' hbe
  obtain ⟨hc, _, _, hall⟩ : s.cfg = cfg ∧ 1 ≤ s.store.sender ∧ s.store.Filed ∧ s.store.HoldsAll 1 (s.store.sender - 1) :=
    C03_stored_all cfg t0 evs hp
  have hle : e' ≤ s.store.sender - 1 := C03_clip_le s.cfg s.store.sender e
  have : s.cfg.persist = true := by rw [hc]; exact hp
  rw [this]
  exact C03_cover s.store b e' hbe (fun n h1 h2 => hall n (by omega) (by omega))

/-! ## non-vacuity -/

private def app (n : Int) : OutMsg := { kind := "D", seq := n, f := [(9000, "x")] }
private def adm (n : Int) : OutMsg := { kind := "0", seq := n, f := [] }
private def declined (n : Int) : OutMsg := { kind := "D", seq := n, f := [(9003, "n")] }
private def demoStore : Store :=
  { sender := 8, msgs := [(7, app 7), (6, adm 6), (5, declined 5), (4, app 4), (3, app 3), (2, adm 2), (1, adm 1)] }

-- evaluated by the interpreter (String functions do not reduce in the kernel)
#guard replyReps true demoStore 1 7 == [.gap 1 3, .msg 3 (app 3), .msg 4 (app 4), .gap 5 7, .msg 7 (app 7)]
#guard replyReps true demoStore 1 6 == [.gap 1 3, .msg 3 (app 3), .msg 4 (app 4), .gap 5 7]
#guard replyReps true demoStore 2 (clipEnd {} demoStore.sender 0) == [.gap 2 3, .msg 3 (app 3), .msg 4 (app 4), .gap 5 7, .msg 7 (app 7)]
#guard replyReps true demoStore 5 4 == []
#guard replyReps false demoStore 2 5 == [.gap 2 6]
#guard clipEnd { bs := 4 } 8 0 == 7 && clipEnd { bs := 1 } 8 999999 == 7 && clipEnd { bs := 1 } 8 0 == 0
        && clipEnd { bs := 4 } 8 999999 == 7 && clipEnd {} 8 5 == 5 && clipEnd {} 8 8 == 7
-- the model, on a session in session with a connection and that store, writes exactly the plan
#guard ((resendMessages { cfg := {}, st := .inSession, store := demoStore, out := true } 1 7).log.reverse)
        == (replyPlan true demoStore 1 7).map Obs.wire
-- one whole event (`C03_resend_request_event`): its hypotheses hold of a concrete session and request, and the event's
-- observations are the callback, the plan, the consumed number, the re-armed timer
private def rr : InMsg :=
  { f := [(8, "FIX.4.2"), (35, "2"), (49, "TGT"), (56, "SND"), (34, "5"), (52, "@0"), (7, "1"), (16, "0")] }
private def demoSess : Sess := { cfg := {}, st := .inSession, store := { demoStore with target := 5 }, out := true, hb := 30 }
#guard (verifySelect demoSess.clearLog rr false false true).2.isNone
        && (verifySelect demoSess.clearLog rr false false true).1.log == [.fromAdmin "2" "5"]
#guard (step demoSess (.incomingMsg (some rr))).2.1
        == [.fromAdmin "2" "5"] ++ (replyPlan true demoStore 1 7).map Obs.wire ++ [.incT, .armPeer 36000]
/-- the hypotheses of `C03_cover` are satisfiable -/
example : demoStore.HoldsAll 1 7 := by
  intro n h1 h2
  have : n = 1 ∨ n = 2 ∨ n = 3 ∨ n = 4 ∨ n = 5 ∨ n = 6 ∨ n = 7 := by omega
  rcases this with rfl | rfl | rfl | rfl | rfl | rfl | rfl <;> decide
/-- a chain is a real constraint: a hole is rejected -/
example : ¬ Chain 1 [.gap 1 3, .msg 4 (app 4)] 5 := by
  intro h
  cases h with
  | cons _ _ h => cases h with
    | cons hlo _ _ => simp [Rep.lo, Rep.hi] at hlo

/-!
Clause checklist (properties.jsonl C03 → theorems)
* reply is a run of PossDupFlag=Y messages                       : C03_elements_wellformed (43 = Y, 122 present, every element)
* coverage starts at b, each continues where the previous ended  : C03_cover_chain / C03_cover (`Chain`)
* ends exactly at min(e, last number used)+1; 0 / 999999 = to the end : C03_clip, C03_clip_min, C03_clip_le, C03_cover,
                                                                   C03_exact_cover_every_history (whole histories)
* nothing outside the range is sent                              : C03_nothing_outside; C03_empty_range / C03_empty_plan (empty, inverted)
* application messages replayed under their original MsgSeqNum   : C03_original_number (+ C03_stored_all: the store is filed by number)
* … with an identical body (field level)                         : C03_elements_wellformed (`filter` equality, `get?` equality)
* OrigSendingTime = original SendingTime, BodyLength, CheckSum   : NOT here — byte layer, codec family (the session model
                                                                   abstracts the time stamps: 122 is present, value "+")
* admin / declined messages replaced by gap fills                : C03_replayed_exactly, C03_gapfill_only_admin_or_declined
* gap fill's NewSeqNo is the next number replayed                : C03_elements_wellformed (36 = hi) + `Chain` (next element's lo = hi)
* the model really sends the plan                                : C03_loop_follows_plan, C03_reply_is_plan, C03_reply_wires(_exact),
                                                                   C03_reply_nothing, C03_handleResendRequest, C03_resend_request_event
                                                                   (one whole event: callback, plan, number consumed, timer)
* both persistence modes                                         : C03_no_persistence, C03_empty_range
* quantifier "every history of previously sent messages"         : every `st : Store` in §5; reachable stores satisfy the hypotheses: C03_stored_all
* every pattern of application refusals                          : `replayable` reads 9003 of each stored message
* not modelled: store read failures; data dictionaries / repeating groups (codec family)
-/
