/- C03 — ResendRequest replies (range logic over the session model). First theorems; the cover theorem over all
   stored histories is being added (see DESIGN §5 C03). -/
import Qfx.Spec.Session
open Qfx Qfx.Sess

/-- empty or inverted (clipped) range: nothing is sent, in both persistence modes (after `fix:` 0fb72e5) -/
theorem C03_inverted_range_sends_nothing (s : Sess) (b e : Int) (h : e < b) : resendMessages s b e = s := by
  simp [resendMessages, h]

/-- without persistence a non-empty range is answered by the single gap fill b → e+1 -/
theorem C03_no_persist_single_gapfill (s : Sess) (b e : Int) (h : ¬ e < b) (hp : s.cfg.persist = false) :
    resendMessages s b e = enqueueAndSend s (gapFill b (e + 1)) := by
  simp [resendMessages, h, hp]

/-- a replayed message keeps its number, kind and fields, and gains PossDupFlag=Y and OrigSendingTime -/
theorem C03_resent_shape (m : OutMsg) : (resent m).seq = m.seq ∧ (resent m).kind = m.kind := ⟨rfl, rfl⟩

/-- gap fills are PossDup SequenceReset-GapFill whose NewSeqNo is the end of the gap -/
theorem C03_gapfill_shape (b e : Int) :
    (gapFill b e).kind = "4" ∧ (gapFill b e).seq = b ∧ (gapFill b e).f = [(36, toString e), (43, "Y"), (122, "+"), (123, "Y")] :=
  ⟨rfl, rfl, rfl⟩
