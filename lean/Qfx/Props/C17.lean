/-
  C17 — "A crash never leaves the persistent store ahead of or without its messages."
  Statement (properties.jsonl): if the process dies at any point during a store operation (file store, syncing on),
  reopening succeeds; every message whose save had completed is returned intact; each recovered counter equals its value
  before or after the interrupted operation; when the recovered outbound counter says n was used, message n is
  retrievable intact — no torn or foreign bytes are ever returned for a sequence number.  SQL: a failure of either
  statement of save-and-increment leaves neither the message nor the increment behind.

  The statement is FALSE of the code (DESIGN §9 D12).  This file holds: the full statement as `C17_full` (a `def`), witnesses
  of the failing windows proved on concrete histories (each also replayed on the real store by the `crash` family),
  the parts that do hold (`C17_partial_*`, `C17_power_cut_irrelevant`, `C17_sql_atomic`).  Clause checklist at the end.
-/
import Qfx.Model.Store
import Qfx.Spec.Store
import Qfx.Lemmas.Bytes
open Qfx Qfx.Store

/-! ## the full statement (not a theorem: false in the windows witnessed below) -/

/-- what a fresh store opened on an image reports -/
def C17_view (img : FS) : Int × Int × (List Bytes × IterEnd) :=
  let r := FileW.open true img 0
  (r.st.cache.nextS, r.st.cache.nextT, fileIterate (r.fs.header.getD []) (r.fs.body.getD []) 0 4611686018427387904 0)

/-- states of a syncing file store reachable from an empty directory by ascending saves -/
def C17_reachable (w : FileW) : Prop :=
  ∃ ops : List Op, w = ((FileW.open true {} 0).run ops).1

/-- every crash image of every operation on every reachable state recovers to the state before or after the operation -/
def C17_full : Prop :=
  ∀ (w : FileW) (o : Op) (i cut : Nat) (mode : Mode), C17_reachable w →
    let ps := (fileOpPrims w.st w.fs w.clock o).2.1
    let v := C17_view (crashImage ⟨w.fs, w.fs⟩ ps i cut mode)
    v = C17_view w.fs ∨ v = C17_view (w.step o).1.fs

/-! ## SQL -/

/-- "a failure of either statement of save-and-increment leaves neither the message nor the increment behind":
    tables and cache unchanged, the operation reports the error. -/
theorem C17_sql_atomic (w : SqlW) (n : Nat) (m : Bytes) (k : Nat) (hk : k = 1 ∨ k = 2) :
    ((w.stepF (some k) (.saveIncr n m)).1 = w) ∧ ((w.stepF (some k) (.saveIncr n m)).2.ok = false) := by
  rcases hk with rfl | rfl
  · simp [SqlW.stepF, fails, obsOf]
  · simp only [SqlW.stepF, fails]
    cases h : w.db.insertMsg n m <;> simp [obsOf]

/-! ## what holds: crash points between primitives, power loss -/

/-- power loss: bytes of an in-flight write never matter (only synced contents survive) -/
theorem C17_power_cut_irrelevant (d : DFS) (ps : List Prim) (i cut : Nat) :
    crashImage d ps i cut .power = crashImage d ps i 0 .power := by
  unfold crashImage
  cases h : ps[i]? with
  | none => simp
  | some p =>
    cases p with
    | write f off data => by_cases hc : cut = 0 <;> simp [hc, applyPrimD]
    | _ => simp

/-- counter rewrite, crash between primitives (process crash): the counter file is the old or the new one, never a mixture -/
theorem C17_partial_counter_boundary (d : DFS) (sync : Bool) (f : Ext) (n : Int) (i : Nat) :
    crashImage d (setSeqNumPrims sync f n) i 0 .process = d.vol
    ∨ crashImage d (setSeqNumPrims sync f n) i 0 .process = applyPrim d.vol (.write f 0 (fmt019 n)) := by
  cases sync <;> rcases i with _ | _ | _ | i <;>
    simp [crashImage, setSeqNumPrims, syncIf, applyPrimsD, applyPrimD]

/-- fixed `SaveMessage`, crash between primitives (process crash): the index line is there only if its bytes are -/
theorem C17_partial_save_boundary (d : DFS) (st : FStore) (seq : Int) (msg : Bytes) (i : Nat) :
    let img := crashImage d (saveMessagePrims st d.vol seq msg) i 0 .process
    img = d.vol
    ∨ img = applyPrim d.vol (.write .body (len d.vol.body) msg)
    ∨ img = applyPrims d.vol [.write .body (len d.vol.body) msg, .write .header (len d.vol.header) (headerLine seq (len d.vol.body) msg.length)] := by
  cases hs : st.sync <;> rcases i with _ | _ | _ | _ | _ | i <;>
    simp [crashImage, saveMessagePrims, hs, syncBH, applyPrimsD, applyPrimD, applyPrims]

/-- fixed `SaveMessage` with syncing on, power loss at any point (everything was synced before the operation):
    the durable index is the old one, or the new one together with the durable new body -/
theorem C17_partial_save_power (fs : FS) (st : FStore) (hs : st.sync = true) (seq : Int) (msg : Bytes) (i cut : Nat) :
    let full := applyPrims fs [.write .body (len fs.body) msg, .write .header (len fs.header) (headerLine seq (len fs.body) msg.length)]
    let img := crashImage ⟨fs, fs⟩ (saveMessagePrims st fs seq msg) i cut .power
    img.header = fs.header ∨ (img.header = full.header ∧ img.body = full.body) := by
  intro full img
  have : img = crashImage ⟨fs, fs⟩ (saveMessagePrims st fs seq msg) i 0 .power := C17_power_cut_irrelevant _ _ _ _
  rw [this]
  rcases i with _ | _ | _ | _ | _ | i <;>
    simp [full, crashImage, saveMessagePrims, hs, syncBH, applyPrimsD, applyPrimD, applyPrims, FS.set, FS.get]

/-! ## witnesses of the failing windows (concrete histories, replayed on the real store by the `crash` family) -/

private theorem fmt019_9 : fmt019 9 = [48,48,48,48,48,48,48,48,48,48,48,48,48,48,48,48,48,48,57] := by simp [fmt019, padZero, fmtNat, c0]
private theorem fmt019_10 : fmt019 10 = [48,48,48,48,48,48,48,48,48,48,48,48,48,48,48,48,48,49,48] := by simp [fmt019, padZero, fmtNat, c0]
private theorem fmt019_1 : fmt019 1 = [48,48,48,48,48,48,48,48,48,48,48,48,48,48,48,48,48,48,49] := by simp [fmt019, padZero, fmtNat, c0]

def C17w_fs0 : FS := { header := some [], body := some [], session := some (timeText 5),
                         sender := some [48,48,48,48,48,48,48,48,48,48,48,48,48,48,48,48,48,48,57],
                         target := some [48,48,48,48,48,48,48,48,48,48,48,48,48,48,48,48,48,48,49] }

/-- counter 9 → 10, process dies after 18 of the 19 bytes: a fresh store reads 19 -/
theorem C17_witness_torn_counter :
    (populateCache {} (crashImage ⟨C17w_fs0, C17w_fs0⟩ (setSeqNumPrims true .sender 10) 0 18 .process)).2.nextS = 19 := by
  simp only [setSeqNumPrims, fmt019_10]
  decide

def C17w_fs1 : FS := { header := some [49,44,48,44,53,10], body := some [65,65,65,65,65], session := some (timeText 5),
                         sender := some [48,48,48,48,48,48,48,48,48,48,48,48,48,48,48,48,48,48,57],
                         target := some [48,48,48,48,48,48,48,48,48,48,48,48,48,48,48,48,48,48,49] }
def C17w_st : FStore := { sync := true, opened := true }
def C17w_msgB : Bytes := [66,66,66,66,66,66,66,66,66,66,66,66]
def C17w_bigE : Int := 4611686018427387904

private theorem hl_2_5_12 : headerLine 2 5 12 = [50,44,53,44,49,50,10] := by simp [headerLine, fmtD, fmtInt, fmtNat, cComma, cNL]


private theorem savePrims_w : saveMessagePrims C17w_st C17w_fs1 2 C17w_msgB =
    [.write .body 5 C17w_msgB, .write .header 6 [50,44,53,44,49,50,10], .sync .body, .sync .header] := by
  simp [saveMessagePrims, C17w_st, C17w_fs1, C17w_msgB, len, hl_2_5_12, syncBH]

/-- torn index line, cut inside the offset: retrieval over the whole range fails although save 1 had completed -/
theorem C17_witness_torn_header_fails :
    let img := crashImage ⟨C17w_fs1, C17w_fs1⟩ (saveMessagePrims C17w_st C17w_fs1 2 C17w_msgB) 1 3 .process
    fileIterate (img.header.getD []) (img.body.getD []) 0 C17w_bigE 0 = ([[65,65,65,65,65]], .err) := by
  simp only [savePrims_w]
  decide

/-- torn index line, cut inside the size: one byte of a 12-byte message is returned for number 2 -/
theorem C17_witness_torn_header_bytes :
    let img := crashImage ⟨C17w_fs1, C17w_fs1⟩ (saveMessagePrims C17w_st C17w_fs1 2 C17w_msgB) 1 5 .process
    fileIterate (img.header.getD []) (img.body.getD []) 2 2 0 = ([[66]], .ok) := by
  simp only [savePrims_w]
  decide

def C17w_msgC : Bytes := [67,67,67,67,67,67,67,67,67,67]
private theorem hl_2_5_5 : headerLine 2 5 5 = [50,44,53,44,53,10] := by simp [headerLine, fmtD, fmtInt, fmtNat, cComma, cNL]
private theorem hl_2_5_10 : headerLine 2 5 10 = [50,44,53,44,49,48,10] := by simp [headerLine, fmtD, fmtInt, fmtNat, cComma, cNL]

private theorem savePrimsOrig_w : saveMessagePrimsOrig C17w_st C17w_fs1 2 [66,66,66,66,66] =
    [.write .header 6 [50,44,53,44,53,10], .write .body 5 [66,66,66,66,66], .sync .body, .sync .header] := by
  simp [saveMessagePrimsOrig, C17w_st, C17w_fs1, len, hl_2_5_5, syncBH]

/-- the original write order (index line first): the process dies between the two writes of `save 2 "BBBBB"`;
    after the restart the application saves number 2 again ("CCCCCCCCCC"): `GetMessages(2, 2)` now returns
    "CCCCC" — bytes never saved as a message — and "CCCCCCCCCC". -/
theorem C17_witness_header_before_body_orig :
    let img := crashImage ⟨C17w_fs1, C17w_fs1⟩ (saveMessagePrimsOrig C17w_st C17w_fs1 2 [66,66,66,66,66]) 1 0 .process
    let fs2 := applyPrims img [.write .body 5 C17w_msgC, .write .header 12 [50,44,53,44,49,48,10]]
    fileIterate (img.header.getD []) (img.body.getD []) 2 2 0 = ([], .err)
    ∧ fileIterate (fs2.header.getD []) (fs2.body.getD []) 2 2 0 = ([[67,67,67,67,67], C17w_msgC], .ok) := by
  simp only [savePrimsOrig_w]
  decide

/-- with the body written first the same crash point leaves only unreferenced bytes behind -/
theorem C17_fixed_order_same_point :
    let img := crashImage ⟨C17w_fs1, C17w_fs1⟩ (saveMessagePrims C17w_st C17w_fs1 2 C17w_msgB) 1 0 .process
    fileIterate (img.header.getD []) (img.body.getD []) 0 C17w_bigE 0 = ([[65,65,65,65,65]], .ok) := by
  simp only [savePrims_w]
  decide

/-!
Clause checklist (properties.jsonl C17 → here)
* "reopening the store succeeds": the model's open cannot fail (no I/O errors modelled); monitor clause `reopen_fails` on the real store.
* "every message whose save had completed is returned intact": FALSE inside the index-line write (C17_witness_torn_header_fails)
  and in Reset's remove-body/remove-header window (known finding, crash family); the original index-before-body order
  (C17_witness_header_before_body_orig) is fixed (C17_fixed_order_same_point, C17_partial_save_boundary, C17_partial_save_power).
* "each recovered counter equals its value before or after": FALSE inside the 19-byte rewrite (C17_witness_torn_counter);
  holds between primitives (C17_partial_counter_boundary) and for power loss (C17_power_cut_irrelevant + boundary).
* "no torn or foreign bytes": FALSE for an index line cut inside its size field (C17_witness_torn_header_bytes).
* "used ⇒ retrievable": order of SaveMessage / IncrNextSenderMsgSeqNum — monitor clause `used_not_retrievable` (never failed).
* SQL: C17_sql_atomic.
* full statement: `C17_full` (def, not proved; the recovered-view half of `C17_partial` needs the parse lemmas of C16_file_full).
-/
