/-
  C17 — "A crash never leaves the persistent store ahead of or without its messages."
  Statement (properties.jsonl): if the process dies at any point during a store operation (file store, syncing on),
  reopening succeeds; every message whose save had completed is returned intact; each recovered counter equals its value
  before or after the interrupted operation; when the recovered outbound counter says n was used, message n is
  retrievable intact — no torn or foreign bytes are ever returned for a sequence number.  SQL: a failure of either
  statement of save-and-increment leaves neither the message nor the increment behind.

  The statement is FALSE of the code (DESIGN §9 D12c).  This file holds: the full statement as `C17_full` (a `def`) and its
  refutation `C17_full_false` (torn 19-byte counter, on a 2-op history); `C17_partial`: the whole conclusion for every history,
  every operation and every crash point / cut / mode EXCEPT a process crash inside a counter rewrite; `C17_synced_between_ops`;
  what a raw crash image looked like before the three `fix:` commits (witnesses on concrete states); `C17_sql_atomic`.
  Clause checklist at the end.
-/
import Qfx.Model.Store
import Qfx.Spec.Store
import Qfx.Lemmas.Bytes
import Qfx.Lemmas.StoreCrash
open Qfx Qfx.Store Qfx.Spec.Store

/-! ## the statement -/

/-- what a fresh syncing store opened on an image reports: NextSenderMsgSeqNum, NextTargetMsgSeqNum, GetMessages over the whole
    `int` range (messages and ok / err / panic).  In the model the open itself cannot fail (no I/O errors are modelled). -/
def C17_view (img : FS) : Int × Int × (List Bytes × IterEnd) := recoveredView img

/-- the conclusion of C17 about a recovered view `v`, for the abstract store before (`pre`) and after (`post`) the interrupted
    operation:
    * every message whose save had completed is returned intact: the whole-range retrieval succeeds and returns the messages
      of `pre` or of `post` (nothing else — so no torn or foreign bytes either);
    * each recovered counter equals its value before or after the operation;
    * if the recovered outbound counter is the advanced one, the messages of `post` are the ones retrievable. -/
def C17_conclusion (pre post : AStore) (v : Int × Int × (List Bytes × IterEnd)) : Prop :=
  (v.2.2 = (values pre.msgs, IterEnd.ok) ∨ v.2.2 = (values post.msgs, IterEnd.ok))
  ∧ (v.1 = pre.sender ∨ v.1 = post.sender) ∧ (v.2.1 = pre.target ∨ v.2.1 = post.target)
  ∧ (v.1 = post.sender → (post.sender : Int) ≠ pre.sender → v.2.2 = (values post.msgs, IterEnd.ok))

/-- the view recovered from the crash image of operation `o` after history `ops` on a syncing file store that started on an
    empty directory: the first `i` primitives of `o` completed, `cut` bytes of the write in flight (if primitive `i` is one)
    reached the file; `mode` = process crash or power loss (everything before `o` was synced, see `C17_synced_between_ops`) -/
def C17_recovered (ops : List Op) (o : Op) (i cut : Nat) (mode : Mode) : Int × Int × (List Bytes × IterEnd) :=
  let w := ((FileW.open true {} 0).run ops).1
  C17_view (crashImage ⟨w.fs, w.fs⟩ (fileOpPrims w.st w.fs w.clock o).2.1 i cut mode)

/-- the full statement: for every history (ascending saves per epoch, numbers within Go's `int`), every operation, every crash
    point, every cut and both modes.  FALSE of the code: `C17_full_false`. -/
def C17_full : Prop :=
  ∀ (ops : List Op) (o : Op) (i cut : Nat) (mode : Mode), Asc none (ops ++ [o]) → FitsRun {} (ops ++ [o]) →
    C17_conclusion (({} : AStore).run ops).1 (((({} : AStore).run ops).1).step o).1 (C17_recovered ops o i cut mode)

/-- the primitives of operation `o` after history `ops` (as reported by the hook of the real store, compared on every run) -/
def C17_prims (ops : List Op) (o : Op) : List Prim :=
  let w := ((FileW.open true {} 0).run ops).1
  (fileOpPrims w.st w.fs w.clock o).2.1

/-- the one recorded window: the process dies INSIDE (`cut ≠ 0`) the in-place rewrite of a counter file -/
def C17_insideCounterWrite (ops : List Op) (o : Op) (i cut : Nat) : Prop :=
  ¬ (cut = 0 ∨ ∃ f off data, (C17_prims ops o)[i]? = some (.write f off data) ∧ f ≠ .sender ∧ f ≠ .target)

/-- **C17_partial** — for EVERY history, every operation, every crash point, every cut and both modes, except a process crash
    inside the in-place rewrite of a 19-byte counter file (the remaining recorded window, `C17_full_false`), the recovered view
    satisfies the whole conclusion: between primitives, inside the body write, inside the index-line write (since the `fix:` that
    drops an incomplete trailing index line on open), inside the session-file write, and at every power-loss point (syncing on). -/
theorem C17_partial (ops : List Op) (o : Op) (i cut : Nat) (mode : Mode)
    (ha : Asc none (ops ++ [o])) (hf : FitsRun {} (ops ++ [o]))
    (hpt : mode = .process → ¬ C17_insideCounterWrite ops o i cut) :
    C17_conclusion (({} : AStore).run ops).1 (((({} : AStore).run ops).1).step o).1 (C17_recovered ops o i cut mode) := by
  have hpt' : mode = .process → NotInCounterWrite (C17_prims ops o) i cut := fun hm => Classical.not_not.1 (hpt hm)
  obtain ⟨ha1, ha2⟩ := asc_append ops o none ha
  obtain ⟨hf1, hf2⟩ := fitsRun_append ops o {} hf
  obtain ⟨ents, B, hR⟩ := fileR_run_state ops {} _ none [] [] (fileR_init true) ha1 hf1
  have hsync : ((FileW.open true {} 0).run ops).1.st.sync = true := by
    rw [run_sync]; simp [FileW.open, fileOpenPrims, refreshOp]
  exact crash_good _ _ _ ents B o hR hsync ha2 hf2 i cut mode hpt'

/-- the assumption behind the power-loss images of `C17_recovered` ("everything before `o` was synced"): with syncing on, when an
    operation returns, the durable contents of every file equal the visible contents, and those are the files the next
    operation starts from — for every history. -/
theorem C17_synced_between_ops (ops : List Op) (o : Op) (ha : Asc none (ops ++ [o])) (hf : FitsRun {} (ops ++ [o])) :
    let w := ((FileW.open true {} 0).run ops).1
    let d := applyPrimsD ⟨w.fs, w.fs⟩ (fileOpPrims w.st w.fs w.clock o).2.1
    d.dur = d.vol ∧ d.vol = (w.step o).1.fs := by
  obtain ⟨ha1, _⟩ := asc_append ops o none ha
  obtain ⟨hf1, _⟩ := fitsRun_append ops o {} hf
  obtain ⟨ents, B, hR⟩ := fileR_run_state ops {} _ none [] [] (fileR_init true) ha1 hf1
  have hsync : ((FileW.open true {} 0).run ops).1.st.sync = true := by
    rw [run_sync]; simp [FileW.open, fileOpenPrims, refreshOp]
  have key : ∀ w' : FileW, FileR (({} : AStore).run ops).1 w' (ops.foldl hiAfter none) ents B → w'.st.sync = true →
      (applyPrimsD ⟨w'.fs, w'.fs⟩ (fileOpPrims w'.st w'.fs w'.clock o).2.1).dur
        = (applyPrimsD ⟨w'.fs, w'.fs⟩ (fileOpPrims w'.st w'.fs w'.clock o).2.1).vol
      ∧ (applyPrimsD ⟨w'.fs, w'.fs⟩ (fileOpPrims w'.st w'.fs w'.clock o).2.1).vol = (w'.step o).1.fs := by
    intro w' hR' hs'
    refine ⟨?_, ?_⟩
    · obtain ⟨⟨c, sync, opened⟩, fs, clock⟩ := w'
      have hop := hR'.opened
      have hfs := hR'.fs
      simp only at hs' hop hfs
      subst hs'; subst hop; subst hfs
      exact synced_after _ c clock _ ents B o hR'
    · rw [applyPrimsD_vol]
      cases o <;> rfl
  exact key _ hR hsync

/-! ## SQL -/

/-- "a failure of either statement of save-and-increment leaves neither the message nor the increment behind":
    tables and cache unchanged, the operation reports the error. -/
theorem C17_sql_atomic (w : SqlW) (n : Nat) (m : Bytes) (k : Nat) (hk : k = 1 ∨ k = 2) :
    ((w.stepF (some k) (.saveIncr n m)).1 = w) ∧ ((w.stepF (some k) (.saveIncr n m)).2.ok = false) := by
  rcases hk with rfl | rfl
  · simp [SqlW.stepF, fails, obsOf]
  · simp only [SqlW.stepF, fails]
    cases h : w.db.insertMsg n m <;> simp [obsOf]

/-! ## what holds: crash points between primitives, power loss -/

/-- power loss: bytes of an in-flight write never matter (only synced contents survive) -/
theorem C17_power_cut_irrelevant (d : DFS) (ps : List Prim) (i cut : Nat) :
    crashImage d ps i cut .power = crashImage d ps i 0 .power := by
  unfold crashImage
  cases h : ps[i]? with
  | none => simp
  | some p =>
    cases p with
    | write f off data => by_cases hc : cut = 0 <;> simp [hc, applyPrimD]
    | _ => simp

/-- counter rewrite, crash between primitives (process crash): the counter file is the old or the new one, never a mixture -/
theorem C17_partial_counter_boundary (d : DFS) (sync : Bool) (f : Ext) (n : Int) (i : Nat) :
    crashImage d (setSeqNumPrims sync f n) i 0 .process = d.vol
    ∨ crashImage d (setSeqNumPrims sync f n) i 0 .process = applyPrim d.vol (.write f 0 (fmt019 n)) := by
  cases sync <;> rcases i with _ | _ | _ | i <;>
    simp [crashImage, setSeqNumPrims, syncIf, applyPrimsD, applyPrimD]

/-- fixed `SaveMessage`, crash between primitives (process crash): the index line is there only if its bytes are -/
theorem C17_partial_save_boundary (d : DFS) (st : FStore) (seq : Int) (msg : Bytes) (i : Nat) :
    let img := crashImage d (saveMessagePrims st d.vol seq msg) i 0 .process
    img = d.vol
    ∨ img = applyPrim d.vol (.write .body (len d.vol.body) msg)
    ∨ img = applyPrims d.vol [.write .body (len d.vol.body) msg, .write .header (len d.vol.header) (headerLine seq (len d.vol.body) msg.length)] := by
  cases hs : st.sync <;> rcases i with _ | _ | _ | _ | _ | i <;>
    simp [crashImage, saveMessagePrims, hs, syncBH, applyPrimsD, applyPrimD, applyPrims]

/-- fixed `SaveMessage` with syncing on, power loss at any point (everything was synced before the operation):
    the durable index is the old one, or the new one together with the durable new body -/
theorem C17_partial_save_power (fs : FS) (st : FStore) (hs : st.sync = true) (seq : Int) (msg : Bytes) (i cut : Nat) :
    let full := applyPrims fs [.write .body (len fs.body) msg, .write .header (len fs.header) (headerLine seq (len fs.body) msg.length)]
    let img := crashImage ⟨fs, fs⟩ (saveMessagePrims st fs seq msg) i cut .power
    img.header = fs.header ∨ (img.header = full.header ∧ img.body = full.body) := by
  intro full img
  have : img = crashImage ⟨fs, fs⟩ (saveMessagePrims st fs seq msg) i 0 .power := C17_power_cut_irrelevant _ _ _ _
  rw [this]
  rcases i with _ | _ | _ | _ | _ | i <;>
    simp [full, crashImage, saveMessagePrims, hs, syncBH, applyPrimsD, applyPrimD, applyPrims, FS.set, FS.get]

/-! ## witnesses of the failing windows (concrete histories, replayed on the real store by the `crash` family) -/

private theorem fmt019_9 : fmt019 9 = [48,48,48,48,48,48,48,48,48,48,48,48,48,48,48,48,48,48,57] := by simp [fmt019, padZero, fmtNat, c0]
private theorem fmt019_10 : fmt019 10 = [48,48,48,48,48,48,48,48,48,48,48,48,48,48,48,48,48,49,48] := by simp [fmt019, padZero, fmtNat, c0]
private theorem fmt019_1 : fmt019 1 = [48,48,48,48,48,48,48,48,48,48,48,48,48,48,48,48,48,48,49] := by simp [fmt019, padZero, fmtNat, c0]

def C17w_fs0 : FS := { header := some [], body := some [], session := some (timeText 5),
                         sender := some [48,48,48,48,48,48,48,48,48,48,48,48,48,48,48,48,48,48,57],
                         target := some [48,48,48,48,48,48,48,48,48,48,48,48,48,48,48,48,48,48,49] }

/-- counter 9 → 10, process dies after 18 of the 19 bytes: a fresh store reads 19 -/
theorem C17_witness_torn_counter :
    (populateCache {} (crashImage ⟨C17w_fs0, C17w_fs0⟩ (setSeqNumPrims true .sender 10) 0 18 .process)).2.nextS = 19 := by
  simp only [setSeqNumPrims, fmt019_10]
  decide

def C17w_fs1 : FS := { header := some [49,44,48,44,53,10], body := some [65,65,65,65,65], session := some (timeText 5),
                         sender := some [48,48,48,48,48,48,48,48,48,48,48,48,48,48,48,48,48,48,57],
                         target := some [48,48,48,48,48,48,48,48,48,48,48,48,48,48,48,48,48,48,49] }
def C17w_st : FStore := { sync := true, opened := true }
def C17w_msgB : Bytes := [66,66,66,66,66,66,66,66,66,66,66,66]
def C17w_bigE : Int := 4611686018427387904

private theorem hl_2_5_12 : headerLine 2 5 12 = [50,44,53,44,49,50,10] := by simp [headerLine, fmtD, fmtInt, fmtNat, cComma, cNL]


private theorem savePrims_w : saveMessagePrims C17w_st C17w_fs1 2 C17w_msgB =
    [.write .body 5 C17w_msgB, .write .header 6 [50,44,53,44,49,50,10], .sync .body, .sync .header] := by
  simp [saveMessagePrims, C17w_st, C17w_fs1, C17w_msgB, len, hl_2_5_12, syncBH]

/-- why `dropIncompleteIndexLine` is needed — the raw image with a torn index line, cut inside the offset: reading the header as it
    is fails although save 1 had completed (a fresh store now truncates the header first: `C17_partial`) -/
theorem C17_witness_torn_header_fails :
    let img := crashImage ⟨C17w_fs1, C17w_fs1⟩ (saveMessagePrims C17w_st C17w_fs1 2 C17w_msgB) 1 3 .process
    fileIterate (img.header.getD []) (img.body.getD []) 0 C17w_bigE 0 = ([[65,65,65,65,65]], .err) := by
  simp only [savePrims_w]
  decide

/-- … cut inside the size: read as it is, one byte of a 12-byte message is returned for number 2 -/
theorem C17_witness_torn_header_bytes :
    let img := crashImage ⟨C17w_fs1, C17w_fs1⟩ (saveMessagePrims C17w_st C17w_fs1 2 C17w_msgB) 1 5 .process
    fileIterate (img.header.getD []) (img.body.getD []) 2 2 0 = ([[66]], .ok) := by
  simp only [savePrims_w]
  decide

def C17w_msgC : Bytes := [67,67,67,67,67,67,67,67,67,67]
private theorem hl_2_5_5 : headerLine 2 5 5 = [50,44,53,44,53,10] := by simp [headerLine, fmtD, fmtInt, fmtNat, cComma, cNL]
private theorem hl_2_5_10 : headerLine 2 5 10 = [50,44,53,44,49,48,10] := by simp [headerLine, fmtD, fmtInt, fmtNat, cComma, cNL]

private theorem savePrimsOrig_w : saveMessagePrimsOrig C17w_st C17w_fs1 2 [66,66,66,66,66] =
    [.write .header 6 [50,44,53,44,53,10], .write .body 5 [66,66,66,66,66], .sync .body, .sync .header] := by
  simp [saveMessagePrimsOrig, C17w_st, C17w_fs1, len, hl_2_5_5, syncBH]

/-- the original write order (index line first): the process dies between the two writes of `save 2 "BBBBB"`;
    after the restart the application saves number 2 again ("CCCCCCCCCC"): `GetMessages(2, 2)` now returns
    "CCCCC" — bytes never saved as a message — and "CCCCCCCCCC". -/
theorem C17_witness_header_before_body_orig :
    let img := crashImage ⟨C17w_fs1, C17w_fs1⟩ (saveMessagePrimsOrig C17w_st C17w_fs1 2 [66,66,66,66,66]) 1 0 .process
    let fs2 := applyPrims img [.write .body 5 C17w_msgC, .write .header 12 [50,44,53,44,49,48,10]]
    fileIterate (img.header.getD []) (img.body.getD []) 2 2 0 = ([], .err)
    ∧ fileIterate (fs2.header.getD []) (fs2.body.getD []) 2 2 0 = ([[67,67,67,67,67], C17w_msgC], .ok) := by
  simp only [savePrimsOrig_w]
  decide

/-- with the body written first the same crash point leaves only unreferenced bytes behind -/
theorem C17_fixed_order_same_point :
    let img := crashImage ⟨C17w_fs1, C17w_fs1⟩ (saveMessagePrims C17w_st C17w_fs1 2 C17w_msgB) 1 0 .process
    fileIterate (img.header.getD []) (img.body.getD []) 0 C17w_bigE 0 = ([[65,65,65,65,65]], .ok) := by
  simp only [savePrims_w]
  decide

/-! ## the full statement is false: the torn counter on a reachable state -/

private theorem torn19 (H B : Bytes) (ct T : Nat) :
    (viewOf (crashImage ⟨goodFS H B ct 9 T, goodFS H B ct 9 T⟩ (setSeqNumPrims true .sender 10) 0 18 .process)).1 = 19 := by
  have e9 : fmt019 ((9 : Nat) : Int) = [48,48,48,48,48,48,48,48,48,48,48,48,48,48,48,48,48,48,57] := fmt019_9
  simp only [setSeqNumPrims, goodFS, e9, fmt019_10]
  rfl

/-- history `setS 9` then `incS`, the process dies after 18 of the 19 bytes of the counter rewrite "…09" → "…10": the file
    reads "…19"; a fresh store reports NextSenderMsgSeqNum = 19, neither 9 nor 10.  (Replayed on the real store: corpus/C17/crash.ops
    case 1.) -/
theorem C17_full_false : ¬ C17_full := by
  intro hfull
  have ha : Asc none ([Op.setS 9] ++ [Op.incS]) := by simp [Asc, ascendingOk, hiAfter]
  have hf : FitsRun {} ([Op.setS 9] ++ [Op.incS]) := by simp [FitsRun, Fits, AStore.step, totalLen, maxInt]
  have hc := (hfull [.setS 9] .incS 0 18 .process ha hf).2.1
  -- the state after `setS 9`
  obtain ⟨ha1, _⟩ := asc_append [Op.setS 9] .incS none ha
  obtain ⟨hf1, _⟩ := fitsRun_append [Op.setS 9] .incS {} hf
  obtain ⟨ents, B, hR⟩ := fileR_run_state [Op.setS 9] {} _ none [] [] (fileR_init true) ha1 hf1
  have hsync : ((FileW.open true {} 0).run [Op.setS 9]).1.st.sync = true := by
    rw [run_sync]; simp [FileW.open, fileOpenPrims, refreshOp]
  have hs9 : (({} : AStore).run [Op.setS 9]).1 = { sender := 9 } := by simp [AStore.run, AStore.step]
  rw [hs9] at hR hc
  simp only [C17_recovered, C17_view, recoveredView_eq] at hc
  generalize ((FileW.open true {} 0).run [Op.setS 9]).1 = w at hc hR hsync
  obtain ⟨⟨c, sync, opened⟩, fs, clock⟩ := w
  have hfs := hR.fs
  have hcs := hR.cs
  simp only at hsync hfs hcs
  subst hsync; subst hfs
  have hc9 : c.nextS + 1 = 10 := by rw [hcs]; rfl
  simp only [fileOpPrims, hc9] at hc
  rw [torn19] at hc
  simp [AStore.step] at hc

/-!
Clause checklist (properties.jsonl C17 → here)
* "reopening the store succeeds": the model's open cannot fail (no I/O errors modelled); monitor clause `reopen_fails` on the real store.
* "every message whose save had completed is returned intact", "each recovered counter equals its value before or after",
  "used ⇒ retrievable", "no torn or foreign bytes": `C17_partial` — the whole conclusion (`C17_conclusion`) for EVERY history, every
  operation, every crash point and cut of a process crash except inside a counter rewrite, and every power-loss point (syncing on;
  its premise is `C17_synced_between_ops`).  The recovered view is what a fresh store reports (`C17_view`, through `recoveredView_eq`).
* the full statement `C17_full` is false: `C17_full_false` (torn 19-byte counter on the history `setS 9; incS`; known finding).
* the three fixes the model follows: body before index line (`saveMessagePrims` vs `saveMessagePrimsOrig`,
  `C17_witness_header_before_body_orig`, `C17_fixed_order_same_point`), header removed before body in Reset (`removePrims` vs
  `removePrimsOrig`), incomplete trailing index line dropped on open (`truncPrims`; raw images: `C17_witness_torn_header_fails`,
  `C17_witness_torn_header_bytes`).  `C17_partial` is about the fixed code and would not hold for the original.
* building blocks kept: C17_power_cut_irrelevant, C17_partial_counter_boundary, C17_partial_save_boundary, C17_partial_save_power.
* SQL: C17_sql_atomic.
-/
