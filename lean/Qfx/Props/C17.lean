/-
  C17 — a crash never leaves the persistent store ahead of or without its messages.
-/
import Qfx.Model.Store
import Qfx.Spec.Store
import Qfx.Lemmas.Bytes
open Qfx Qfx.Store

/-- SQL: a failure of either statement of save-and-increment leaves neither the message nor the increment behind
    (tables and cache unchanged, the operation reports the error). -/
theorem C17_sql_atomic (w : SqlW) (n : Nat) (m : Bytes) (k : Nat) (hk : k = 1 ∨ k = 2) :
    ((w.stepF (some k) (.saveIncr n m)).1 = w) ∧ ((w.stepF (some k) (.saveIncr n m)).2.ok = false) := by
  rcases hk with rfl | rfl
  · simp [SqlW.stepF, fails, obsOf]
  · simp only [SqlW.stepF, fails]
    cases h : w.db.insertMsg n m <;> simp [obsOf]
