/-
  C07 — "Sequence numbers persist across connections and reset only when agreed".
  Property theorems only (helpers: Qfx/Lemmas/SessC07.lean on top of the generic frame machinery SessPool.lean / SessRun.lean;
  predicates: Qfx/Spec/SessionTypedC07.lean; the string-level monitor run on implementation traces: Spec/Session.lean `c07`).

  properties.jsonl: "Unless a reset option is configured or a reset is negotiated, both sequence counters and the stored
  messages are unchanged by disconnecting and reconnecting. A Logon carrying ResetSeqNumFlag=Y (received, or sent because
  ResetOnLogon/ResetSeqTime applies) leaves both sides numbering from 1 - the Logon itself is number 1 and the reply echoes the
  flag - and ResetOnLogout/ResetOnDisconnect return both counters to 1 exactly at logout/disconnect. A SequenceReset can only
  move the expected inbound number forward: a lower NewSeqNo is rejected and changes nothing."
-/
import Qfx.Lemmas.SessC07
open Qfx Qfx.Sess

/-! ## continuity -/

/-- **continuity, every history.**  No reset option configured (the three flags off, no ResetSeqTime), no inbound or
    outbound Logon carrying 141=Y, no "new session" clock tick (CheckResetTime ticks are allowed): for every role / BeginString / other settings, initial counters and finite event history
    (connects, disconnects, traffic, timeouts, stops, gaps, replays, …) the store is never reset (`epoch` unchanged, no
    `reset` observation anywhere in the trace), every stored message is still stored (the old association list is a suffix of
    the new one) and neither counter ever moved backwards. -/
theorem C07_continuity (cfg : Cfg) (s0 t0 : Int) (evs : List Ev) (hcfg : NoResetOptions cfg) (hev : ∀ e ∈ evs, NoResetEv e) :
    (∀ o ∈ traceOf (initSess cfg s0 t0) evs, o ≠ Obs.reset)
    ∧ StoreMono (initSess cfg s0 t0).store (runEvents (initSess cfg s0 t0) evs).store := by
  have := continuity_run (initSess cfg s0 t0) evs hcfg (poolInv_init cfg s0 t0) hev
  exact ⟨this.1, this.2.1⟩

/-- the same between any two points of a history: from every state reached by such a history, every continuation of the
    same kind keeps the store monotone (so "unchanged by disconnecting and reconnecting" holds at any moment, not only from
    the initial state) -/
theorem C07_continuity_between (cfg : Cfg) (s0 t0 : Int) (pre post : List Ev) (hcfg : NoResetOptions cfg)
    (h1 : ∀ e ∈ pre, NoResetEv e) (h2 : ∀ e ∈ post, NoResetEv e) :
    let mid := runEvents (initSess cfg s0 t0) pre
    (∀ o ∈ traceOf mid post, o ≠ Obs.reset) ∧ StoreMono mid.store (runEvents mid post).store := by
  intro mid
  have a := continuity_run (initSess cfg s0 t0) pre hcfg (poolInv_init cfg s0 t0) h1
  have b := continuity_run mid post (by rw [a.2.2.2]; exact hcfg) a.2.2.1 h2
  exact ⟨b.1, b.2.1⟩

/-- "in particular", exactly: a disconnect with nothing buffered leaves the store untouched … -/
theorem C07_disconnect_keeps_store (s : Sess) (hc : s.st.connected = true) (hi : s.inbox = [])
    (hcfg : s.cfg.resetOnDisconnect = false) :
    (step s .disconnected).1.store = s.store ∧ (step s .disconnected).1.st = .latent := by
  obtain ⟨h1, h2⟩ := disconnected_store s hc hi
  exact ⟨h1.trans (discMid_keeps_store s.clearLog hcfg), h2⟩

/-- … reconnecting as acceptor leaves it untouched … -/
theorem C07_connect_acceptor_keeps_store (s : Sess) (hi : s.cfg.initiator = false) (hcfg : s.cfg.resetOnDisconnect = false) :
    (step s .connect).1.store = s.store :=
  connect_acceptor_store s.clearLog hi hcfg

/-- … and reconnecting as initiator continues the numbering: the Logon takes the next outbound number, the expected inbound
    number and everything stored are kept -/
theorem C07_connect_initiator_continues (s : Sess) (hc : s.st.connected = false) (ht : s.st.sessionTime = true)
    (hi : s.cfg.initiator = true) (hcfg : NoResetFlags s.cfg) :
    let logon : OutMsg := { stamp (connectBase s) (logonMsg (connectBase s) false) with seq := s.store.sender }
    let s' := (connect s).1
    s'.st = .logon ∧ s'.store.target = s.store.target ∧ s'.store.sender = s.store.sender + 1 ∧ s'.store.epoch = s.store.epoch
    ∧ s'.store.msgs = (if s.cfg.persist then (s.store.sender, logon) :: s.store.msgs else s.store.msgs)
    ∧ Obs.wire logon ∈ s'.log ∧ logon.f.get? 141 = none := by
  intro logon s'
  obtain ⟨c1, c2, c3⟩ := connectBase_frame s
  have hst : (connectBase s).store = s.store := by rw [connectBase_store, hcfg.1]; rfl
  have hsr : shouldSendReset (connectBase s) = false := shouldSendReset_false _ (by rw [c1]; exact hcfg)
  have hs' : s' = (sendLogonInReplyTo (connectBase s) false).setSt .logon := by
    show (connect s).1 = _; rw [connect_initiator s hc ht hi, hsr]
  obtain ⟨q1, q2, q3, q4, _, q6⟩ := sendLogon_plain (connectBase s)
  rw [hst] at q1 q2 q3 q4 q6
  rw [hs']
  refine ⟨rfl, q2, q1, q3, ?_, ?_, ?_⟩
  · show (sendLogonInReplyTo (connectBase s) false).store.msgs = _
    rw [q4, c1]
  · show Obs.wire logon ∈ (sendLogonInReplyTo (connectBase s) false).log
    rw [q6 c2]; simp [logon]
  · exact logonMsgX_no141 _ _

/-! ## a Logon carrying ResetSeqNumFlag=Y -/

/-- **received (acceptor).**  In the Logon state, an inbound Logon that passes the gates, carries 141=Y, is numbered 1 and
    is not the echo of a reset we asked for: the session is established, both counters are 2 (the inbound Logon was number 1,
    the reply Logon is outbound number 1), the reply carries 141=Y and is the only stored message, `sentReset` is down.
    `hnx` (new with EnableNextExpectedMsgSeqNum): the Logon does not claim, in tag 789, a number above 1 — after the reset
    we have sent nothing, such a Logon is refused (C07_next_expected_ahead_refused); without the option, or without a readable
    789, the hypothesis holds (`nxAbove_off`, `nxAbove_absent`).  The reply is `logonMsgRe base true m`: with the option on
    and a readable 789 in `m` it carries 789 = 2 (C07_next_expected_reply). -/
theorem C07_logon_reset_received (s : Sess) (m : InMsg) (hi : s.cfg.initiator = false) (hk : kindOf m = "A")
    (h5 : (s.cfg.bs == 5 && !m.f.has 1137) = false) (hg : GateMsg s.cfg m) (ht : TimeGate s m)
    (hv : callbackVerdict m = none) (hf : logonResetFlag m = true) (hsr : s.sentReset = false) (h34 : getInt m 34 = .val 1)
    (hnx : nxAbove s.cfg m 1 = false) :
    ∃ base : Sess, base.cfg = s.cfg ∧ base.store.target = 1 ∧
    let reply : OutMsg := { stamp base ((logonMsgRe base true m).inReplyTo m) with seq := 1 }
    let r := logonFixMsgIn s m
    r.2 = .inSession ∧ r.1.store.sender = 2 ∧ r.1.store.target = 2 ∧ r.1.sentReset = false
    ∧ r.1.store.msgs = (if s.cfg.persist then [(1, reply)] else [])
    ∧ (141, "Y") ∈ reply.f ∧ reply.kind = "A" ∧ reply.seq = 1
    ∧ (s.out = true → Obs.wire reply ∈ r.1.log) ∧ Obs.onLogon ∈ r.1.log ∧ Obs.reset ∈ r.1.log := by
  obtain ⟨base, hb, hbt, h⟩ := logon_reset_received s m hi h5 hg ht hv hf hsr h34 hnx
  refine ⟨base, hb, hbt, ?_⟩
  intro reply r
  have hr : r = ((handleLogon s m).1, .inSession) := logonFixMsgIn_of_ok s m hk h.1
  rw [hr]
  exact ⟨rfl, h.2⟩

/-- **sent (initiator).**  Connecting when `shouldSendReset` holds: the Logon is outbound number 1 and carries 141=Y, the
    store was reset for it (next outbound 2, expected inbound 1), `sentReset` is raised -/
theorem C07_logon_reset_sent (s : Sess) (hc : s.st.connected = false) (ht : s.st.sessionTime = true)
    (hi : s.cfg.initiator = true) (hr : shouldSendReset (connectBase s) = true) :
    let logon : OutMsg := { stamp (connectBase s) (logonMsg (connectBase s) true) with seq := 1 }
    let s' := (connect s).1
    s'.st = .logon ∧ s'.sentReset = true ∧ s'.store.sender = 2 ∧ s'.store.target = 1
    ∧ s'.store.msgs = (if s.cfg.persist then [(1, logon)] else [])
    ∧ Obs.wire logon ∈ s'.log ∧ (141, "Y") ∈ logon.f ∧ logon.kind = "A" := by
  intro logon s'
  obtain ⟨c1, c2, _⟩ := connectBase_frame s
  have hs' : s' = (sendLogonInReplyTo (connectBase s) true).setSt .logon := by
    show (connect s).1 = _; rw [connect_initiator s hc ht hi, hr]
  obtain ⟨q1, q2, q3, q4, _, _, _, _, q9⟩ := sendLogon_reset (connectBase s)
  rw [hs']
  refine ⟨rfl, q4, q1, q2, ?_, ?_, logonMsg_mem141 _, rfl⟩
  · show (sendLogonInReplyTo (connectBase s) true).store.msgs = _
    rw [q3, c1]
  · show Obs.wire logon ∈ (sendLogonInReplyTo (connectBase s) true).log
    rw [q9 c2]; simp [logon]

/-- when the initiator sends the flag: from FIX.4.1 on, some reset option is configured, and both counters are 1 at that
    moment (ResetOnLogon makes them so) -/
theorem C07_logon_reset_sent_iff (s : Sess) :
    shouldSendReset (connectBase s) = true ↔
      (1 ≤ s.cfg.bs ∧ (s.cfg.resetOnLogon = true
        ∨ ((s.cfg.resetOnDisconnect = true ∨ s.cfg.resetOnLogout = true) ∧ s.store.target = 1 ∧ s.store.sender = 1))) := by
  obtain ⟨c1, _, _⟩ := connectBase_frame s
  unfold shouldSendReset
  rw [c1, connectBase_store]
  cases h1 : s.cfg.resetOnLogon <;> cases h2 : s.cfg.resetOnDisconnect <;> cases h3 : s.cfg.resetOnLogout <;>
    simp [Store.reset] <;> omega

/-- FIX.4.0 has no ResetSeqNumFlag: the initiator never sends it -/
theorem C07_no_reset_flag_fix40 (s : Sess) (h : s.cfg.bs = 0) : shouldSendReset (connectBase s) = false :=
  shouldSendReset_fix40 _ (by rw [(connectBase_frame s).1]; exact h)

/-- **the echo.**  The initiator that sent the flag (`sentReset`) receives the acceptor's Logon with 141=Y: no second reset —
    no `reset` observation, the store only moves forward (the expected number by one when the Logon is accepted) -/
theorem C07_logon_reset_echo (s : Sess) (m : InMsg) (hi : s.cfg.initiator = true) (hsr : s.sentReset = true) :
    (∃ extra, (handleLogon s m).1.log = extra ++ s.log ∧ ∀ o ∈ extra, o ≠ Obs.reset)
    ∧ StoreMono s.store (handleLogon s m).1.store := by
  have := logon_echo_no_reset s m hi hsr
  exact ⟨this.log, this.store⟩

/-- **the echo, acceptor** (after `fix:` cbdc133).  An acceptor that sent the reset Logon itself (ResetSeqTime: `sentReset`
    up, session established) receives the peer's answer: no second reset, no `reset` observation, the store only moves
    forward.  (ResetOnLogon off: with it an acceptor resets on every Logon, by configuration.) -/
theorem C07_logon_reset_echo_acceptor (s : Sess) (m : InMsg) (hi : s.cfg.initiator = false) (hrol : s.cfg.resetOnLogon = false)
    (hsr : s.sentReset = true) (hl : s.st.loggedOn = true) :
    (∃ extra, (handleLogon s m).1.log = extra ++ s.log ∧ ∀ o ∈ extra, o ≠ Obs.reset)
    ∧ StoreMono s.store (handleLogon s m).1.store := by
  have := logon_echo_no_reset_acceptor s m hi hrol hsr hl
  exact ⟨this.log, this.store⟩

/-- … and the answer itself is not answered again: in an established session the acceptor's reply step does nothing but
    adopt the HeartBtInt when the Logon carries ResetSeqNumFlag=Y and `sentReset` is up (store, queue, log untouched) -/
theorem C07_own_reset_answer_not_answered (s : Sess) (m : InMsg) (hsr : s.sentReset = true) (hl : s.st.loggedOn = true) :
    (logonReply s m true).store = s.store ∧ (logonReply s m true).log = s.log ∧ (logonReply s m true).toSend = s.toSend := by
  have hb : (replyBase s m).sentReset = true ∧ (replyBase s m).st.loggedOn = true ∧ (replyBase s m).store = s.store
      ∧ (replyBase s m).log = s.log ∧ (replyBase s m).toSend = s.toSend := by
    unfold replyBase; split
    · cases getInt m 108 <;> exact ⟨hsr, hl, rfl, rfl, rfl⟩
    · exact ⟨hsr, hl, rfl, rfl, rfl⟩
  rw [logonReply_base]
  split
  · rw [hb.1, hb.2.1]; exact ⟨hb.2.2.1, hb.2.2.2.1, hb.2.2.2.2⟩
  · exact ⟨rfl, rfl, rfl⟩

/-- **the code before the fix** (`logonReplyOrig`): the acceptor answered the answer — with `sentReset` up and the flag set
    its reply step sent another Logon carrying 141=Y through `dropAndSend`, so the store was reset a second time and a
    second Logon numbered 1 went out on the same connection (the defect `fix:` cbdc133 repairs; monitor clause
    `C07.echo_of_own_reset_resets_again{role=acceptor}` on the unfixed tree) -/
theorem C07_orig_echo_of_own_reset_resets_again (s : Sess) (m : InMsg) (hi : s.cfg.initiator = false) :
    let base := replyBase s m
    let again : OutMsg := { stamp base ((logonMsgRe base true m).inReplyTo m) with seq := 1 }
    let s' := logonReplyOrig s m true
    s'.store.epoch = s.store.epoch + 1 ∧ s'.store.sender = 2 ∧ s'.store.target = 1
    ∧ s'.store.msgs = (if s.cfg.persist then [(1, again)] else []) ∧ (141, "Y") ∈ again.f ∧ again.kind = "A"
    ∧ (s.out = true → Obs.wire again ∈ s'.log ∧ Obs.reset ∈ s'.log) := by
  intro base again s'
  obtain ⟨b1, _, b3, b4, _⟩ := replyBase_frame s m
  have hs' : s' = sendLogonRe base true m := by
    show logonReplyOrig s m true = _
    unfold logonReplyOrig
    rw [hi]; rfl
  obtain ⟨q1, q2, q3, _, _, _, _, q8, q9⟩ := sendLogonRe_reset base m
  rw [hs']
  refine ⟨by rw [q8, b3], q1, q2, by rw [q3, b1], logonMsgRe_mem141 _ _, rfl, fun ho => ?_⟩
  have := q9 (by rw [b4]; exact ho)
  rw [this]
  exact ⟨by simp [again], by simp⟩

/-! ## ResetSeqTime: the reset Logon sent in the middle of a connection (stateMachine.CheckResetTime) -/

/-- when the clock "crosses": today's reset instant — second `rs` of the UTC day `now` lies in — is later than the
    previous check and not later than `now` (pure integer arithmetic on the harness clock, whose origin is a midnight) -/
theorem C07_reset_time_crossing (rs : Nat) (last now : Int) (h : rs < 86400) :
    (crossedReset rs last now = true ↔ last < resetInstant rs now ∧ resetInstant rs now ≤ now)
    ∧ resetInstant rs now / 86400 = now / 86400 ∧ resetInstant rs now % 86400 = rs :=
  ⟨crossedReset_iff rs last now, resetInstant_day rs now h⟩

/-- **ResetSeqTime applies.**  ResetSeqTime configured, a previous check recorded, a connection in place (in particular:
    logged on), and the reset instant crossed: the store is reset (new epoch, nothing of the old numbering kept), the
    engine's Logon is outbound number 1 and carries ResetSeqNumFlag=Y, the next outbound number is 2 and the next expected
    inbound number is 1 — both sides number from 1 —, `sentReset` is raised (so that the echo does not reset again), the
    state is unchanged, the clock is recorded; with the connection's outbound channel in place the Logon is written, after
    the reset and the save.  No hypothesis on role, BeginString, counters, queue or state beyond "connected". -/
theorem C07_reset_time_sends_reset_logon (s : Sess) (now last : Int) (rs : Nat) (hrs : s.cfg.resetSeqTime = some rs)
    (hl : s.lastCheckedReset = some last) (hc : s.st.connected = true) (hx : crossedReset rs last now = true) :
    let logon : OutMsg := { stamp s (logonMsg s true) with seq := 1 }
    let s' := checkResetTime s now
    s'.store.sender = 2 ∧ s'.store.target = 1 ∧ s'.store.msgs = (if s.cfg.persist then [(1, logon)] else [])
    ∧ s'.store.epoch = s.store.epoch + 1 ∧ s'.sentReset = true ∧ s'.st = s.st ∧ s'.lastCheckedReset = some now
    ∧ logon.kind = "A" ∧ logon.seq = 1 ∧ (141, "Y") ∈ logon.f
    ∧ (s.out = true → s'.log = .wire logon :: (if s.cfg.persist then .saved 1 "A" (resendable logon) else .incS) :: .reset :: s.log) := by
  intro logon s'
  have hs' : s' = (sendLogonInReplyTo s true).setLastChecked now := checkResetTime_crossed s now last rs hrs hl hc hx
  obtain ⟨q1, q2, q3, q4, _, q6, _, q8, q9⟩ := sendLogon_reset s
  rw [hs']
  exact ⟨q1, q2, q3, q8, q4, q6, rfl, rfl, rfl, logonMsg_mem141 _, q9⟩

/-- the same as one whole event of a logged-on session: the observations of `CheckResetTime(now)` are exactly the store
    reset, the save of Logon number 1 (or the bare counter increment without persistence) and the write of that Logon
    carrying 141=Y; afterwards the counters are (2, 1) -/
theorem C07_reset_time_step (s : Sess) (now last : Int) (rs : Nat) (hrs : s.cfg.resetSeqTime = some rs)
    (hl : s.lastCheckedReset = some last) (hon : s.st.loggedOn = true) (ho : s.out = true) (hx : crossedReset rs last now = true) :
    let logon : OutMsg := { stamp s (logonMsg s true) with seq := 1 }
    (step s (.resetTime now)).2.1 = [.reset, (if s.cfg.persist then .saved 1 "A" (resendable logon) else .incS), .wire logon]
    ∧ (step s (.resetTime now)).1.store.sender = 2 ∧ (step s (.resetTime now)).1.store.target = 1
    ∧ (step s (.resetTime now)).1.sentReset = true ∧ (141, "Y") ∈ logon.f := by
  intro logon
  have hc : s.clearLog.st.connected = true := by
    show s.st.connected = true
    cases h : s.st <;> simp_all [SState.loggedOn, SState.connected]
  obtain ⟨q1, q2, _, _, q5, _, _, _, _, q10, q11⟩ :=
    C07_reset_time_sends_reset_logon s.clearLog now last rs hrs hl hc hx
  have hlog := q11 ho
  refine ⟨?_, q1, q2, q5, q10⟩
  show (checkResetTime s.clearLog now).log.reverse = _
  rw [hlog]
  have e1 : stamp s.clearLog (logonMsg s.clearLog true) = stamp s (logonMsg s true) := rfl
  have e2 : s.clearLog.cfg = s.cfg := rfl
  have e3 : s.clearLog.log = [] := rfl
  rw [e1, e2, e3]
  simp [logon]

/-- **… and only then.**  ResetSeqTime not configured, or the first check (nothing recorded yet), or no connection, or the
    reset instant not crossed: `CheckResetTime` sends nothing and leaves the store, both counters, the queue, `sentReset`
    and the state as they were (it only records the clock when ResetSeqTime is configured) -/
theorem C07_reset_time_only_when_crossed (s : Sess) (now : Int)
    (h : s.cfg.resetSeqTime = none ∨ s.lastCheckedReset = none ∨ s.st.connected = false
         ∨ (∀ rs last, s.cfg.resetSeqTime = some rs → s.lastCheckedReset = some last → crossedReset rs last now = false)) :
    let s' := checkResetTime s now
    s'.store = s.store ∧ s'.log = s.log ∧ s'.toSend = s.toSend ∧ s'.sentReset = s.sentReset ∧ s'.st = s.st
    ∧ (step s (.resetTime now)).2.1 = [] ∧ (step s (.resetTime now)).1.store = s.store := by
  intro s'
  have hq : ∀ x : Sess, (x.cfg.resetSeqTime = none ∨ x.lastCheckedReset = none ∨ x.st.connected = false
         ∨ (∀ rs last, x.cfg.resetSeqTime = some rs → x.lastCheckedReset = some last → crossedReset rs last now = false)) →
      (checkResetTime x now).store = x.store ∧ (checkResetTime x now).log = x.log ∧ (checkResetTime x now).toSend = x.toSend
      ∧ (checkResetTime x now).sentReset = x.sentReset ∧ (checkResetTime x now).st = x.st := by
    intro x hx
    rcases checkResetTime_quiet x now hx with e | e <;> rw [e] <;> exact ⟨rfl, rfl, rfl, rfl, rfl⟩
  obtain ⟨a1, a2, a3, a4, a5⟩ := hq s h
  obtain ⟨b1, b2, _, _, _⟩ := hq s.clearLog h
  refine ⟨a1, a2, a3, a4, a5, ?_, ?_⟩
  · show (checkResetTime s.clearLog now).log.reverse = []
    rw [b2]; rfl
  · show (checkResetTime s.clearLog now).clearLog.store = s.store
    exact b1

/-- every check with ResetSeqTime configured records its clock: the next crossing is judged from this check -/
theorem C07_reset_time_records_clock (s : Sess) (now : Int) (rs : Nat) (hrs : s.cfg.resetSeqTime = some rs) :
    (checkResetTime s now).lastCheckedReset = some now :=
  checkResetTime_records s now rs hrs

/-! ## EnableNextExpectedMsgSeqNum: tag 789 of the Logons we send, the peer's tag 789

No property sentence speaks about this option; the theorems below DESCRIBE what session.go does (l.189–206, l.577–596), they
claim nothing about what it should do.  The option is tied to the code by the correspondence runs only.  Where the behaviour
looks unintended it is written up in notes/proofs_b_nx.md (observations 1–5, proposed patch notes/nx_proposed.diff). -/

/-- **what our own Logon carries** (initiator at connect, ResetSeqTime): with the option on, tag 789 = `NextTargetMsgSeqNum() + 1`
    as it stands BEFORE the Logon is prepared for sending — one more than the inbound number expected (and, for a Logon carrying
    141=Y, a number from before the reset: the expected number afterwards is 1); with the option off there is no tag 789 -/
theorem C07_next_expected_own (s : Sess) (reset : Bool) :
    (s.cfg.nextExpected = true → (789, toString (s.store.target + 1)) ∈ (logonMsg s reset).f)
    ∧ (s.cfg.nextExpected = false → (logonMsg s reset).f.get? 789 = none)
    ∧ (sendLogonInReplyTo s reset).store.target = (if reset then 1 else s.store.target) := by
  have ht : (sendLogonInReplyTo s reset).store.target = (if reset then 1 else s.store.target) := by
    cases reset
    · exact (sendLogon_plain s).2.1
    · exact (sendLogon_reset s).2.1
  refine ⟨fun h => ?_, fun h => ?_, ht⟩
  · have : logonMsg s reset = logonMsgX s reset (some (s.store.target + 1)) := by
      unfold logonMsg nxOwn; rw [h]; rfl
    rw [this]; exact logonMsgX_mem789 s reset _
  · have : logonMsg s reset = logonMsgX s reset none := by unfold logonMsg; rw [nxOwn_off s h]
    rw [this]; exact logonMsgX_no789 s reset

/-- **what the acceptor's reply carries**: with the option on and a readable tag 789 in the Logon being answered, tag 789 =
    `NextTargetMsgSeqNum() + 1` (the Logon being answered is not counted yet: this is the expected number after the Logon has
    been accepted, `C07_next_expected_accepted`); without the option, or when the peer's Logon has no readable 789, the reply
    has no tag 789 -/
theorem C07_next_expected_reply (s : Sess) (reset : Bool) (m : InMsg) :
    (s.cfg.nextExpected = true → (peerNext m).isSome = true → (789, toString (s.store.target + 1)) ∈ (logonMsgRe s reset m).f)
    ∧ ((s.cfg.nextExpected = false ∨ peerNext m = none) → (logonMsgRe s reset m).f.get? 789 = none) := by
  refine ⟨fun h1 h2 => ?_, fun h => ?_⟩
  · have : logonMsgRe s reset m = logonMsgX s reset (some (s.store.target + 1)) := by
      unfold logonMsgRe nxReply; rw [h1, h2]; rfl
    rw [this]; exact logonMsgX_mem789 s reset _
  · have : logonMsgRe s reset m = logonMsgX s reset none := by
      unfold logonMsgRe nxReply
      rcases h with h | h
      · rw [h]; rfl
      · rw [h]; simp
    rw [this]; exact logonMsgX_no789 s reset

/-- **higher, acceptor: a Logon whose tag 789 is above our next outbound number is refused** (`sendLogonInReplyTo`: "we can't
    resend what we never sent"), whenever the acceptor is about to answer — a Logon carrying tag 141 included (after that reset
    our number is 1): `handleLogon` ends with RejectLogon before the reply, before the logon notification and before the
    Logon's number is counted; nothing is stored or sent, `sentReset` stays (the HeartBtInt has been adopted by then).
    An initiator never refuses (`logonRefuses` is false for it by definition): it treats a higher 789 like a lower one. -/
theorem C07_next_expected_ahead_refused (s : Sess) (m : InMsg) (n ns : Int) (hi : s.cfg.initiator = false)
    (hnx : s.cfg.nextExpected = true) (hp : peerNext m = some n) (hgt : n > s.store.sender)
    (hrole : (logonResetFlag m && s.sentReset && s.st.loggedOn) = false) :
    logonTail s m ns = (logonRefused s m, some (.rej .rejectLogon))
    ∧ (logonRefused s m).store = s.store ∧ (logonRefused s m).log = s.log ∧ (logonRefused s m).toSend = s.toSend
    ∧ (logonRefused s m).sentReset = s.sentReset := by
  have hr : logonRefuses s m (logonResetFlag m) = true := by
    unfold logonRefuses nxRefuses nxAbove
    rw [hnx, hp, hi, hrole]
    simp [hgt]
  refine ⟨by unfold logonTail; rw [if_pos hr], ?_⟩
  unfold logonRefused
  split
  · split <;> exact ⟨rfl, rfl, rfl, rfl⟩
  · exact ⟨rfl, rfl, rfl, rfl⟩

/-- … and only then: a refusal means an acceptor with the option on and a Logon whose 789 is above our next outbound number -/
theorem C07_next_expected_refused_only_ahead (s : Sess) (m : InMsg) (flag : Bool) (h : logonRefuses s m flag = true) :
    s.cfg.initiator = false ∧ s.cfg.nextExpected = true ∧ ∃ n, peerNext m = some n ∧ n > s.store.sender := by
  unfold logonRefuses nxRefuses nxAbove at h
  simp only [Bool.and_eq_true] at h
  obtain ⟨⟨h0, _⟩, h1, h2⟩ := h
  refine ⟨by simpa using h0, h1, ?_⟩
  cases hp : peerNext m with
  | none => rw [hp] at h2; cases h2
  | some n => rw [hp] at h2; exact ⟨n, rfl, by simpa using h2⟩

/-- in the logon state the refusal is answered with a Logout, the Logon's number is counted and the connection dropped -/
theorem C07_next_expected_refusal_logs_out (s s' : Sess) (m : InMsg) (hk : kindOf m = "A")
    (h : handleLogon s m = (s', some (.rej .rejectLogon))) : logonFixMsgIn s m = shutdownWithReason s' m true := by
  unfold logonFixMsgIn
  rw [if_neg (by simp [hk]), h]

/-- **equal, absent, unreadable, option off, or a Logon carrying tag 141: nothing happens** -/
theorem C07_next_expected_equal (s : Sess) (m : InMsg) (ns : Int)
    (h : s.cfg.nextExpected = false ∨ m.f.has 141 = true ∨ peerNext m = none ∨ peerNext m = some ns) : nxEval s m ns = (s, none) :=
  nxEval_quiet s m ns h

/-- **different (lower — or, for an initiator, higher), with message persistence: the implied gap fill.**  Option on, no tag
    141, the peer's 789 = `n` differs from `ns`, our next outbound number when the Logon arrived (before a reset the Logon
    caused, before our reply): exactly one SequenceReset-GapFill with PossDupFlag is handed to `EnqueueBytesAndSend`, numbered
    `n`, NewSeqNo = `ns + 1` (the `+ 1` is the acceptor's reply; an initiator sends none).  Nothing is replayed.  The store is
    not touched: nothing stored is lost, both counters stay.  With a connection it is the last thing written (behind whatever
    was queued, when logged on). -/
theorem C07_next_expected_differs (s : Sess) (m : InMsg) (ns n : Int) (hnx : s.cfg.nextExpected = true) (h141 : m.f.has 141 = false)
    (hp : peerNext m = some n) (hne : n ≠ ns) (hper : s.cfg.persist = true) :
    let gf := gapFillRe s m n (ns + 1)
    nxEval s m ns = (enqueueAndSend s gf, none)
    ∧ gf.kind = "4" ∧ gf.seq = n ∧ gf.f = [(36, toString (ns + 1)), (43, "Y"), (122, "+"), (123, "Y")]
    ∧ (nxEval s m ns).1.store = s.store
    ∧ (s.out = true → (nxEval s m ns).1.toSend = []
        ∧ (nxEval s m ns).1.log = .wire gf :: ((if s.st.loggedOn then s.toSend else []).map Obs.wire).reverse ++ s.log) := by
  intro gf
  have e := nxEval_fill s m ns n hnx h141 hp hne hper
  refine ⟨e, rfl, rfl, rfl, (nxEval_frame s m ns).1, fun ho => ?_⟩
  rw [e]
  exact ⟨(enqueueAndSend_log s gf ho).2, (enqueueAndSend_log s gf ho).1⟩

/-- **different, without message persistence: the error `targetTooHigh{peer's 789, our outbound number}`.**  Nothing is sent
    and nothing changes at this point; `logonFinish` returns the error AFTER the reply, the peer timer and the logon
    notification and BEFORE the Logon's own number is checked and counted. -/
theorem C07_next_expected_differs_nopersist (s : Sess) (m : InMsg) (ns n : Int) (hnx : s.cfg.nextExpected = true)
    (h141 : m.f.has 141 = false) (hp : peerNext m = some n) (hne : n ≠ ns) (hper : s.cfg.persist = false) :
    nxEval s m ns = (s, some (.tooHigh n ns))
    ∧ logonFinish s m ns = (((s.setSentReset false).emit (.armPeer (1200 * s.hb))).emit .onLogon, some (.rej (.tooHigh n ns))) := by
  refine ⟨nxEval_nopersist s m ns n hnx h141 hp hne hper, ?_⟩
  unfold logonFinish
  rw [nxEval_nopersist (((s.setSentReset false).emit (.armPeer (1200 * s.hb))).emit .onLogon) m ns n hnx h141 hp hne hper]

/-- … which the logon state treats like a gap in the INBOUND numbers (`doTargetTooHigh`): whatever pair `handleLogon` reports,
    a ResendRequest from the second number to the first − 1 is queued and the state becomes `resend` with that range.  For
    the pair above that is a request from OUR next outbound number to the peer's 789 − 1. -/
theorem C07_next_expected_nopersist_logon_state (s s' : Sess) (m : InMsg) (n t : Int) (hk : kindOf m = "A")
    (h : handleLogon s m = (s', some (.rej (.tooHigh n t)))) :
    logonFixMsgIn s m = ((sendResendRequest s' t (n - 1)).1, .resend [] (sendResendRequest s' t (n - 1)).2.1 (sendResendRequest s' t (n - 1)).2.2) := by
  unfold logonFixMsgIn
  rw [if_neg (by simp [hk]), h]

/-- **a Logon accepted, end to end** (either role; no reset configured or asked for; the Logon carries the expected number;
    an acceptor does not refuse it; message persistence on): the session is notified, the expected inbound number advances by
    one, the outbound number by one for the acceptor's reply and not at all for an initiator, nothing stored is lost (the reply
    is the only new entry), the epoch stays.  The acceptor's reply is written and — option on, readable 789 in the peer's
    Logon — carries in tag 789 exactly the inbound number expected afterwards.  When the peer's 789 differs from our next
    outbound number as it was on arrival, the gap fill from the peer's 789 is written with NewSeqNo = that number + 1: the
    number an acceptor uses next, one MORE than the number an initiator uses next. -/
theorem C07_next_expected_accepted (s : Sess) (m : InMsg)
    (h5 : (s.cfg.bs == 5 && !m.f.has 1137) = false) (hg : GateMsg s.cfg m) (ht : TimeGate s m)
    (hv : callbackVerdict m = none) (hro : (if s.cfg.initiator then false else s.cfg.resetOnLogon) = false)
    (hf : logonResetFlag m = false) (h34 : getInt m 34 = .val s.store.target)
    (hnr : s.cfg.initiator = true ∨ nxRefuses s m = false) (hper : s.cfg.persist = true) :
    let r := handleLogon s m
    r.2 = none ∧ r.1.store.target = s.store.target + 1
    ∧ r.1.store.sender = (if s.cfg.initiator then s.store.sender else s.store.sender + 1)
    ∧ r.1.store.epoch = s.store.epoch ∧ s.store.msgs <:+ r.1.store.msgs ∧ Obs.onLogon ∈ r.1.log
    ∧ (s.cfg.initiator = false → ∃ base : Sess, base.cfg = s.cfg ∧ base.store = s.store ∧
        let reply : OutMsg := { stamp base ((logonMsgRe base false m).inReplyTo m) with seq := s.store.sender }
        (s.out = true → Obs.wire reply ∈ r.1.log)
        ∧ (s.cfg.nextExpected = true → (peerNext m).isSome = true → (789, toString r.1.store.target) ∈ reply.f))
    ∧ (s.cfg.nextExpected = true → m.f.has 141 = false → ∀ n, peerNext m = some n → n ≠ s.store.sender → s.out = true →
        ∃ gf : OutMsg, Obs.wire gf ∈ r.1.log ∧ gf.kind = "4" ∧ gf.seq = n
          ∧ gf.f = [(36, toString (s.store.sender + 1)), (43, "Y"), (122, "+"), (123, "Y")]) := by
  intro r
  obtain ⟨s2, c1, c2, c3, c4, c5, c6, _, _, hl⟩ :=
    handleLogon_passes s m h5 hg ht hv hro (Or.inl hf) s.store.target h34 (Int.le_refl _)
  have hnr2 : logonRefuses s2 m (logonResetFlag m) = false := by
    unfold logonRefuses
    rcases hnr with hi | hnr
    · rw [c1, hi]; rfl
    · have : nxRefuses s2 m = nxRefuses s m := by unfold nxRefuses; rw [c1, c3]
      rw [this, hnr, Bool.and_false]
  -- the reply step
  have hx : ∃ x : Sess, logonReply s2 m false = x ∧ x.store.target = s.store.target
      ∧ x.store.sender = (if s.cfg.initiator then s.store.sender else s.store.sender + 1)
      ∧ x.store.epoch = s.store.epoch ∧ s.store.msgs <:+ x.store.msgs ∧ x.cfg = s.cfg ∧ x.out = s.out
      ∧ (s.cfg.initiator = false → ∃ base : Sess, base.cfg = s.cfg ∧ base.store = s.store ∧
          (s.out = true → Obs.wire { stamp base ((logonMsgRe base false m).inReplyTo m) with seq := s.store.sender } ∈ x.log)) := by
    cases hi : s.cfg.initiator
    · obtain ⟨b1, b2, b3, b4, b5⟩ := replyBase_frame s2 m
      obtain ⟨q1, q2, q3, q4, _, q6, _, q8, q9⟩ := sendLogonRe_plain (replyBase s2 m) m
      have e : logonReply s2 m false = sendLogonRe (replyBase s2 m) false m := by
        rw [logonReply_base, c1, hi]; rfl
      refine ⟨_, e, by rw [q2, b3, c3], by rw [q1, b3, c3]; rfl, by rw [q3, b3, c3], ?_, by rw [q6, b1, c1], by rw [q8, b4, c5], fun _ => ?_⟩
      · rw [q4, b3, c3]
        split
        · exact List.suffix_cons _ _
        · exact List.suffix_refl _
      · refine ⟨replyBase s2 m, b1.trans c1, b3.trans c3, fun ho => ?_⟩
        have := (q9 (by rw [b4, c5]; exact ho)).1
        rw [this, b3, c3]; simp
    · have e : logonReply s2 m false = s2 := by unfold logonReply; rw [c1, hi]; rfl
      exact ⟨s2, e, by rw [c3], by rw [c3]; rfl, by rw [c3], by rw [c3]; exact List.suffix_refl _, c1, c5, fun h => by cases h⟩
  obtain ⟨x, ex, x1, x2, x3, x4, x5, x6, x7⟩ := hx
  -- notification, the peer's 789, the number consumed
  obtain ⟨y, hy⟩ : ∃ y, y = ((x.setSentReset false).emit (.armPeer (1200 * x.hb))).emit .onLogon := ⟨_, rfl⟩
  have ys : y.store = x.store := by rw [hy]; rfl
  have ycfg : y.cfg = s.cfg := by rw [hy]; exact x5
  obtain ⟨z, hz⟩ : ∃ z, z = (nxEval y m s.store.sender).1 := ⟨_, rfl⟩
  obtain ⟨f1, _, _, _, _, _⟩ := nxEval_frame y m s.store.sender
  have zs : z.store = x.store := by rw [hz, f1, ys]
  obtain ⟨pre, hpre⟩ := nxEval_log y m s.store.sender
  have hnone : (nxEval y m s.store.sender).2 = none := nxEval_noErr y m _ (Or.inr (by rw [ycfg]; exact hper))
  have hfin : logonFinish x m s.store.sender = (incrTarget z, none) := by
    unfold logonFinish
    rw [← hy]
    have e : nxEval y m s.store.sender = (z, none) := by rw [hz, ← hnone]
    rw [e]
    simp only []
    have : checkTooHigh z m = none := by
      unfold checkTooHigh; rw [h34]; simp only []
      rw [if_neg]; rw [zs, x1]; omega
    rw [this]
  have hr : r = (incrTarget z, none) := by
    show handleLogon s m = _
    rw [hl]; unfold logonTail; rw [hnr2, hf]; simp only [Bool.false_eq_true, if_false]
    rw [ex, hfin]
  have hzlog : z.log = pre ++ (Obs.onLogon :: Obs.armPeer (1200 * x.hb) :: x.log) := by rw [hz, hpre, hy]; rfl
  rw [hr]
  refine ⟨rfl, ?_, ?_, ?_, ?_, ?_, fun hi => ?_, fun hnx h141 n hp hne ho => ?_⟩
  · show z.store.target + 1 = _; rw [zs, x1]
  · show z.store.sender = _; rw [zs, x2]
  · show z.store.epoch = _; rw [zs, x3]
  · show s.store.msgs <:+ z.store.msgs; rw [zs]; exact x4
  · show Obs.onLogon ∈ Obs.incT :: z.log; rw [hzlog]; simp
  · obtain ⟨base, hb1, hb2, hb3⟩ := x7 hi
    refine ⟨base, hb1, hb2, ?_⟩
    intro reply
    refine ⟨fun ho => ?_, fun hnx hps => ?_⟩
    · show Obs.wire reply ∈ Obs.incT :: z.log
      rw [hzlog]
      have := hb3 ho
      simp only [List.mem_cons, List.mem_append]
      exact Or.inr (Or.inr (Or.inr (Or.inr this)))
    · show (789, toString (z.store.target + 1)) ∈ (logonMsgRe base false m).f
      rw [zs, x1, ← hb2]
      exact (C07_next_expected_reply base false m).1 (by rw [hb1]; exact hnx) hps
  · obtain ⟨_, k2, k3, k4, _, k6⟩ := C07_next_expected_differs y m s.store.sender n (by rw [ycfg]; exact hnx) h141 hp hne
      (by rw [ycfg]; exact hper)
    have hyo : y.out = true := by rw [hy]; show x.out = true; rw [x6]; exact ho
    refine ⟨gapFillRe y m n (s.store.sender + 1), ?_, k2, k3, k4⟩
    show Obs.wire _ ∈ Obs.incT :: z.log
    rw [hz, (k6 hyo).2]; simp

/-! ## ResetOnLogout / ResetOnDisconnect -/

/-- with ResetOnLogout, whenever the Logout handler ends the session (answering the peer's Logout, or receiving the answer
    to ours) both counters are 1 and nothing is stored, exactly then (the reset is the last store mutation of the handler) -/
theorem C07_reset_on_logout (s : Sess) (m : InMsg) (hcfg : s.cfg.resetOnLogout = true) (hl : (handleLogout s m).2 = .latent) :
    (handleLogout s m).1.store.sender = 1 ∧ (handleLogout s m).1.store.target = 1 ∧ (handleLogout s m).1.store.msgs = []
    ∧ Obs.reset ∈ (handleLogout s m).1.log :=
  reset_on_logout s m hcfg hl

/-- with ResetOnDisconnect the disconnect processing of any state resets the store … -/
theorem C07_reset_on_disconnect_mid (s : Sess) (hcfg : s.cfg.resetOnDisconnect = true) :
    (discMid s).store.sender = 1 ∧ (discMid s).store.target = 1 ∧ (discMid s).store.msgs = [] ∧ Obs.reset ∈ (discMid s).log := by
  obtain ⟨h1, h2⟩ := reset_on_disconnect_mid s hcfg
  rw [h1]; exact ⟨rfl, rfl, rfl, h2⟩

/-- … so right after a disconnect (nothing buffered) both counters are 1 -/
theorem C07_reset_on_disconnect (s : Sess) (hc : s.st.connected = true) (hi : s.inbox = []) (hcfg : s.cfg.resetOnDisconnect = true) :
    (step s .disconnected).1.store.sender = 1 ∧ (step s .disconnected).1.store.target = 1
    ∧ (step s .disconnected).1.store.msgs = [] ∧ (step s .disconnected).1.st = .latent := by
  obtain ⟨h1, h2⟩ := disconnected_store s hc hi
  rw [h1, (reset_on_disconnect_mid s.clearLog hcfg).1]
  exact ⟨rfl, rfl, rfl, h2⟩

/-! ## SequenceReset -/

/-- **forward only.**  Every SequenceReset that passes the gates — any MsgSeqNum, NewSeqNo `n`, GapFillFlag (absent, N or Y;
    with Y the sequence checks are part of the gate), PossDup — in any state: `n` above the expected number moves it to
    `n`; equal changes nothing; below leaves it unchanged and is answered with a Reject, reason 5.  (`s1` is `s` after the
    FromAdmin callback observation.) -/
theorem C07_seqreset_forward_only (s : Sess) (m : InMsg) (n : Int) (h123 : getBool m 123 ≠ .garbled)
    (h36 : getInt m 36 = .val n) (hg : GateMsg s.cfg m) (ht : TimeGate s m) (hv : callbackVerdict m = none)
    (hseq : SeqGate s m (gapFillOf m) (gapFillOf m)) :
    let s1 := s.emit (cbObs s m)
    (n > s.store.target → handleSequenceReset s m = ((s1.setTarget n).emit (.setT n), .inSession))
    ∧ (n = s.store.target → handleSequenceReset s m = (s1, .inSession))
    ∧ (n < s.store.target → handleSequenceReset s m = (doReject s1 m 5 none false, .inSession)
        ∧ (doReject s1 m 5 none false).store.target = s.store.target) := by
  intro s1
  obtain ⟨a, b, c⟩ := seqreset_forward_only s m n h123 h36 hg ht hv hseq
  exact ⟨a, b, fun h => ⟨c h, doReject_target s1 m 5 none false⟩⟩

/-- **never backwards**, with no hypothesis on the message at all (any 34 / 36 / 123 / 43, gates passing or failing, any
    state): handling a SequenceReset never resets the store, never lowers the expected inbound number (nor the outbound one),
    never loses a stored message -/
theorem C07_seqreset_never_backwards (s : Sess) (m : InMsg) (hk : kindOf m = "4") :
    s.store.target ≤ (handleSequenceReset s m).1.store.target ∧ StoreMono s.store (handleSequenceReset s m).1.store
    ∧ (∃ extra, (handleSequenceReset s m).1.log = extra ++ s.log ∧ ∀ o ∈ extra, o ≠ Obs.reset) := by
  have := seqreset_never_backwards s m hk
  exact ⟨this.store.target, this.store, this.log⟩

/-! ## non-vacuity (evaluated by the interpreter at build time; String functions do not reduce in the kernel) -/

def c07Wires (l : List Obs) : List (String × Int × Fields) :=
  l.filterMap fun o => match o with | .wire m => some (m.kind, m.seq, m.f) | _ => none
def c07Logon (seq : Nat) (extra : Fields) : InMsg :=
  { f := [(8, "FIX.4.2"), (35, "A"), (49, "TGT"), (56, "SND"), (34, toString seq), (52, "@0"), (98, "0"), (108, "30")] ++ extra }
def c07Msg (kind : String) (seq : Nat) (extra : Fields) : InMsg :=
  { f := [(8, "FIX.4.2"), (35, kind), (49, "TGT"), (56, "SND"), (34, toString seq), (52, "@0")] ++ extra }
/-- (next outbound, next expected inbound, stored numbers, epoch, state) -/
def c07Summary (s : Sess) : Int × Int × List Int × Nat × String :=
  (s.store.sender, s.store.target, s.store.msgs.map (·.1), s.store.epoch, s.st.name)
def c07Hist : List Ev := [.connect, .incomingMsg (some (c07Logon 7 [])), .incomingMsg (some (c07Msg "D" 8 [])),
   .disconnected, .connect, .incomingMsg (some (c07Logon 9 []))]

-- the hypotheses of C07_continuity are satisfiable (kernel-checked) …
example : NoResetOptions {} := ⟨⟨rfl, rfl, rfl⟩, rfl⟩
example : NoResetEv .connect ∧ NoResetEv .disconnected ∧ NoResetEv (.sessionTime true true) ∧ NoResetEv (.timeout .peerTimeout) :=
  ⟨trivial, trivial, rfl, trivial⟩
-- … and a history that satisfies them does real work: two connections, counters continue from (5, 7) to (7, 10), both
-- Logon replies (5 and 6) are still stored, epoch 0, no reset observation
#guard c07Summary (runEvents (initSess {} 5 7) c07Hist) == (7, 10, [6, 5], 0, "InSession")
#guard ((traceOf (initSess {} 5 7) c07Hist).filter (· == .reset)).isEmpty
-- reset received by the acceptor: counters (2, 2), reply is Logon number 1 with 141=Y, sentReset down
#guard (let r := step (runEvents (initSess {} 5 7) [.connect]) (.incomingMsg (some (c07Logon 1 [(141, "Y")])))
        (c07Summary r.1, c07Wires r.2.1, r.1.sentReset))
       == ((2, 2, [1], 2, "InSession"), [("A", 1, [(108, "30"), (141, "Y")])], false)
-- reset sent by the initiator (ResetOnLogon): Logon number 1 with 141=Y, sentReset raised; the echo does not reset again
#guard (let r := step (initSess { initiator := true, resetOnLogon := true } 5 7) .connect
        (c07Summary r.1, c07Wires r.2.1, r.1.sentReset))
       == ((2, 1, [1], 2, "Logon"), [("A", 1, [(108, "30"), (141, "Y")])], true)
#guard (let s := runEvents (initSess { initiator := true, resetOnLogon := true } 5 7) [.connect]
        let r := step s (.incomingMsg (some (c07Logon 1 [(141, "Y")])))
        (c07Summary r.1, r.1.sentReset, r.2.1.filter (· == .reset)))
       == ((2, 2, [1], 2, "InSession"), false, [])
-- FIX.4.0: the flag is never sent (the configured reset still happens locally)
#guard (let r := step (initSess { initiator := true, resetOnLogon := true, bs := 0 } 5 7) .connect
        c07Wires r.2.1) == [("A", 1, [(108, "30")])]
-- ResetSeqTime = 12:00:00 UTC (second 43200 of the day).  An acceptor logged on with counters (6, 8) whose previous check was
-- at 11:59:50 of day 1 satisfies the hypotheses of C07_reset_time_sends_reset_logon for a check at 12:00:00 …
def c07Rst : Cfg := { resetSeqTime := some 43200 }
def c07Up (cfg : Cfg) (logon : InMsg := c07Logon 7 []) : Sess :=
  runEvents (initSess cfg 5 7) [.connect, .incomingMsg (some logon), .resetTime (86400 + 43190)]
#guard crossedReset 43200 (86400 + 43190) (86400 + 43200) && !crossedReset 43200 (86400 + 43190) (86400 + 43199)
       && !crossedReset 43200 (86400 + 43200) (86400 + 43201) && crossedReset 43200 (86400 + 43190) (2 * 86400 + 50000)
       && !crossedReset 43200 (86400 + 43190) (2 * 86400 + 100)
#guard (c07Summary (c07Up c07Rst), (c07Up c07Rst).lastCheckedReset, (c07Up c07Rst).st.connected, (c07Up c07Rst).out)
       == ((6, 8, [5], 0, "InSession"), some (86400 + 43190), true, true)
-- … and the check does what the theorem says: store reset, Logon number 1 with 141=Y written, counters (2, 1), sentReset
#guard (let r := step (c07Up c07Rst) (.resetTime (86400 + 43200))
        (c07Summary r.1, c07Wires r.2.1, r.1.sentReset, r.2.1.filter (· == .reset), r.1.lastCheckedReset))
       == ((2, 1, [1], 1, "InSession"), [("A", 1, [(108, "30"), (141, "Y")])], true, [.reset], some (86400 + 43200))
-- one second earlier: nothing (C07_reset_time_only_when_crossed); likewise the first check, a check without a connection,
-- and any check when ResetSeqTime is not configured
#guard (let r := step (c07Up c07Rst) (.resetTime (86400 + 43199)); (c07Summary r.1, r.2.1)) == ((6, 8, [5], 0, "InSession"), [])
#guard (let s := runEvents (initSess c07Rst 5 7) [.connect, .incomingMsg (some (c07Logon 7 []))]
        let r := step s (.resetTime (86400 + 43200)); (c07Summary r.1, r.2.1, r.1.lastCheckedReset))
       == ((6, 8, [5], 0, "InSession"), [], some (86400 + 43200))
#guard (let s := runEvents (initSess c07Rst 5 7) [.resetTime (86400 + 43190)]
        let r := step s (.resetTime (86400 + 43200)); (c07Summary r.1, r.2.1)) == ((5, 7, [], 0, "Latent"), [])
#guard (let r := step (c07Up {}) (.resetTime (86400 + 43200)); (c07Summary r.1, r.2.1, r.1.lastCheckedReset))
       == ((6, 8, [5], 0, "InSession"), [], none)
-- the peer's answer (Logon 1 with 141=Y) to an INITIATOR's time-triggered reset: accepted, no second reset, counters (2, 2)
#guard (let s := (step (c07Up { c07Rst with initiator := true }) (.resetTime (86400 + 43200))).1
        let r := step s (.incomingMsg (some (c07Logon 1 [(141, "Y")])))
        (c07Summary r.1, c07Wires r.2.1, r.1.sentReset, r.2.1.filter (· == .reset)))
       == ((2, 2, [1], 1, "InSession"), [], false, [])
-- the same answer received by an ACCEPTOR (after `fix:` cbdc133): accepted, not answered, no second reset, counters (2, 2) …
#guard (let s := (step (c07Up c07Rst) (.resetTime (86400 + 43200))).1
        let r := step s (.incomingMsg (some (c07Logon 1 [(141, "Y")])))
        (c07Summary r.1, c07Wires r.2.1, r.1.sentReset, r.2.1.filter (· == .reset)))
       == ((2, 2, [1], 1, "InSession"), [], false, [])
-- … whereas the code before the fix (`logonReplyOrig`, C07_orig_echo_of_own_reset_resets_again) answered it with a second Logon
-- numbered 1 carrying 141=Y and reset the store once more (epoch 2)
#guard (let s := (step (c07Up c07Rst) (.resetTime (86400 + 43200))).1
        let r := logonReplyOrig s (c07Logon 1 [(141, "Y")]) true
        (c07Summary r, c07Wires r.log, r.log.filter (· == .reset)))
       == ((2, 1, [1], 2, "InSession"), [("A", 1, [(108, "30"), (141, "Y")])], [.reset])
-- before the handshake a Logon is a logon request and is answered as before, also when `sentReset` is up (the acceptor
-- crossed the reset instant while waiting for the peer's Logon): reply number 1 with 141=Y
#guard (let s := runEvents (initSess c07Rst 5 7) [.resetTime (86400 + 43190), .connect, .resetTime (86400 + 43200)]
        let r := step s (.incomingMsg (some (c07Logon 1 [(141, "Y")])))
        (s.sentReset, s.st.name, c07Summary r.1, c07Wires r.2.1))
       == (true, "Logon", (2, 2, [1], 2, "InSession"), [("A", 1, [(108, "30"), (141, "Y")])])
-- REMARK (not a finding: the property text says nothing about FIX.4.0 on this path, and the monitor clause
-- `C07.reset_flag_in_fix40` is restricted to the paths where `shouldSendReset` decides): CheckResetTime passes `true` whatever
-- the BeginString — C07_reset_time_sends_reset_logon has no hypothesis on `bs` — so a FIX.4.0 session sends tag 141 here
#guard (let logon40 : InMsg := { f := [(8, "FIX.4.0"), (35, "A"), (49, "TGT"), (56, "SND"), (34, "7"), (52, "@0"), (98, "0"), (108, "30")] }
        let r := step (c07Up { c07Rst with bs := 0 } logon40) (.resetTime (86400 + 43200))
        (c07Summary r.1, c07Wires r.2.1)) == ((2, 1, [1], 1, "InSession"), [("A", 1, [(108, "30"), (141, "Y")])])
/-! ### EnableNextExpectedMsgSeqNum (tag 789): what the code does (no property speaks about it; notes/proofs_b_nx.md) -/
def c07NxA : Cfg := { nextExpected := true }
def c07NxI : Cfg := { nextExpected := true, initiator := true }
/-- connected, the peer's Logon not yet received; counters (5, 7) — an initiator has sent its Logon: (6, 7) -/
def c07Conn (cfg : Cfg) : Sess := runEvents (initSess cfg 5 7) [.connect]
-- the hypotheses of C07_next_expected_accepted hold for the acceptor and a Logon numbered 7 whose 789 is 3 or 5
#guard (checkBeginString (c07Conn c07NxA) (c07Logon 7 [(789, "3")])).isNone && (checkCompID (c07Conn c07NxA) (c07Logon 7 [(789, "3")])).isNone
        && (checkSendingTime (c07Conn c07NxA) (c07Logon 7 [(789, "3")])).isNone && (validate c07NxA (c07Logon 7 [(789, "3")])).isNone
        && (callbackVerdict (c07Logon 7 [(789, "3")])).isNone && !logonResetFlag (c07Logon 7 [(789, "3")])
        && !nxRefuses (c07Conn c07NxA) (c07Logon 7 [(789, "3")]) && !nxRefuses (c07Conn c07NxA) (c07Logon 7 [(789, "5")])
        && nxRefuses (c07Conn c07NxA) (c07Logon 7 [(789, "6")])
-- acceptor, equal: our next outbound number is 5, the peer expects 5: the reply (number 5) carries 789 = 8, nothing else is sent
#guard (let r := step (c07Conn c07NxA) (.incomingMsg (some (c07Logon 7 [(789, "5")]))); (c07Summary r.1, c07Wires r.2.1))
       == ((6, 8, [5], 0, "InSession"), [("A", 5, [(108, "30"), (789, "8")])])
-- acceptor, lower: the peer expects 3: reply, then ONE gap fill 3 → 6; counters as before, nothing lost
#guard (let r := step (c07Conn c07NxA) (.incomingMsg (some (c07Logon 7 [(789, "3")]))); (c07Summary r.1, c07Wires r.2.1))
       == ((6, 8, [5], 0, "InSession"), [("A", 5, [(108, "30"), (789, "8")]), ("4", 3, [(36, "6"), (43, "Y"), (122, "+"), (123, "Y")])])
-- acceptor, higher: the peer expects 6, we have not sent 5 yet: refused — Logout, no logon notification, the Logon's number counted
#guard (let r := step (c07Conn c07NxA) (.incomingMsg (some (c07Logon 7 [(789, "6")]))); (c07Summary r.1, c07Wires r.2.1, r.2.1.filter (· == .onLogon)))
       == ((6, 8, [5], 0, "Latent"), [("5", 5, [])], [])
-- no 789 in the peer's Logon, or the option off: the reply has none either, nothing else happens
#guard (let r := step (c07Conn c07NxA) (.incomingMsg (some (c07Logon 7 []))); c07Wires r.2.1) == [("A", 5, [(108, "30")])]
#guard (let r := step (c07Conn {}) (.incomingMsg (some (c07Logon 7 [(789, "3")]))); c07Wires r.2.1) == [("A", 5, [(108, "30")])]
-- a reset Logon (141=Y): its 789 is not evaluated for a gap fill, but 789 = 2 is above the reset acceptor's number 1: refused
#guard (let r := step (c07Conn c07NxA) (.incomingMsg (some (c07Logon 1 [(141, "Y"), (789, "1")]))); (c07Summary r.1, c07Wires r.2.1))
       == ((2, 2, [1], 2, "InSession"), [("A", 1, [(108, "30"), (141, "Y"), (789, "2")])])
#guard (let r := step (c07Conn c07NxA) (.incomingMsg (some (c07Logon 1 [(141, "Y"), (789, "2")]))); (c07Summary r.1, c07Wires r.2.1))
       == ((2, 2, [1], 1, "Latent"), [("5", 1, [])])
-- OBSERVATIONS (notes/proofs_b_nx.md 1–5; none of them breaks a property sentence as written, see there):
-- (1) the initiator's Logon carries 789 = 8 while it expects 7; the ResetSeqTime Logon carries the number from before its own reset
#guard (let r := step (initSess c07NxI 5 7) .connect; (c07Summary r.1, c07Wires r.2.1)) == ((6, 7, [5], 0, "Logon"), [("A", 5, [(108, "30"), (789, "8")])])
#guard (let r := step (c07Up { c07Rst with nextExpected := true }) (.resetTime (86400 + 43200)); (c07Summary r.1, c07Wires r.2.1))
       == ((2, 1, [1], 1, "InSession"), [("A", 1, [(108, "30"), (141, "Y"), (789, "9")])])
-- (2) without persistence a lower 789 is reported as `targetTooHigh{3, 5}`: reply and logon notification given, then a ResendRequest
--     from OUR outbound number 5 queued, state Resend, and the Logon's own number NOT counted (expected stays 7)
#guard (let r := step (c07Conn { c07NxA with persist := false }) (.incomingMsg (some (c07Logon 7 [(789, "3")])))
        (c07Summary r.1, c07Wires r.2.1, r.1.toSend.map (fun o => (o.kind, o.f)), r.2.1.filter (· == .onLogon)))
       == ((7, 7, [], 0, "Resend"), [("A", 5, [(108, "30"), (789, "8")])], [("2", [(7, "5"), (16, "0")])], [.onLogon])
-- (3) an initiator's gap fill carries NewSeqNo 7 while its next message is 6
#guard (let r := step (c07Conn c07NxI) (.incomingMsg (some (c07Logon 7 [(789, "3")]))); (c07Summary r.1, c07Wires r.2.1))
       == ((6, 8, [5], 0, "InSession"), [("4", 3, [(36, "7"), (43, "Y"), (122, "+"), (123, "Y")])])
-- (4) ResetOnLogon: the peer's 789 = 1 is compared with the number from before the reset (5): a gap fill 1 → 6 behind reply number 1
#guard (let r := step (c07Conn { c07NxA with resetOnLogon := true }) (.incomingMsg (some (c07Logon 1 [(789, "1")]))); (c07Summary r.1, c07Wires r.2.1))
       == ((2, 2, [1], 1, "InSession"), [("A", 1, [(108, "30"), (789, "2")]), ("4", 1, [(36, "6"), (43, "Y"), (122, "+"), (123, "Y")])])
-- (5) an initiator accepts a Logon whose 789 = 9 is above its next number 6 and sends a gap fill numbered 9 with NewSeqNo 7
#guard (let r := step (c07Conn c07NxI) (.incomingMsg (some (c07Logon 7 [(789, "9")]))); (c07Summary r.1, c07Wires r.2.1, r.2.1.filter (· == .onLogon)))
       == ((6, 8, [5], 0, "InSession"), [("4", 9, [(36, "7"), (43, "Y"), (122, "+"), (123, "Y")])], [.onLogon])
-- a Logon that opens a gap (number 9, expected 7) with 789 = 3, persistence on: reply (789 = 8), gap fill, and the ResendRequest for
-- [7, ∞) queued behind them — the expected number stays 7
#guard (let r := step (c07Conn c07NxA) (.incomingMsg (some (c07Logon 9 [(789, "3")]))); (c07Summary r.1, c07Wires r.2.1, r.1.toSend.map (fun o => (o.kind, o.f))))
       == ((7, 7, [6, 5], 0, "Resend"), [("A", 5, [(108, "30"), (789, "8")]), ("4", 3, [(36, "6"), (43, "Y"), (122, "+"), (123, "Y")])], [("2", [(7, "7"), (16, "0")])])
-- ResetOnLogout / ResetOnDisconnect: (1, 1) right after
#guard (let s := runEvents (initSess { resetOnLogout := true } 5 7) [.connect, .incomingMsg (some (c07Logon 7 []))]
        c07Summary (step s (.incomingMsg (some (c07Msg "5" 8 [])))).1) == (1, 1, [], 1, "Latent")
#guard (let s := runEvents (initSess { resetOnDisconnect := true } 5 7) [.connect, .incomingMsg (some (c07Logon 7 []))]
        c07Summary (step s .disconnected).1) == (1, 1, [], 1, "Latent")
-- SequenceReset from expected 8: to 20 applies; to 3 is rejected (reason 5) and changes nothing; to 8 changes nothing
#guard (let s := runEvents (initSess {} 5 7) [.connect, .incomingMsg (some (c07Logon 7 []))]
        ((step s (.incomingMsg (some (c07Msg "4" 8 [(36, "20")])))).1.store.target,
         (let r := step s (.incomingMsg (some (c07Msg "4" 8 [(36, "3")]))); (r.1.store.target, c07Wires r.2.1)),
         (step s (.incomingMsg (some (c07Msg "4" 8 [(36, "8")])))).1.store.target))
       == (20, (8, [("3", 6, [(373, "5"), (372, "4"), (45, "8")])]), 8)

/-!
Clause checklist (properties.jsonl C07 → theorems)
* unless a reset option is configured or a reset is negotiated, both counters and the stored messages are unchanged by
  disconnecting and reconnecting
      : C07_continuity (every cfg with the three options off, every history without 141=Y Logons / new-session ticks:
        epoch constant, no `reset` observation, old messages still stored, counters never decrease), C07_continuity_between
        (same from every reachable state), and exactly: C07_disconnect_keeps_store, C07_connect_acceptor_keeps_store,
        C07_connect_initiator_continues (the initiator's Logon takes the next outbound number).
        The expected inbound number never decreasing is also C01_inorder_exactly_once.
* a Logon carrying 141=Y received: both sides number from 1, the Logon is number 1, the reply echoes the flag
      : C07_logon_reset_received (counters (2,2), reply = outbound 1 with (141,"Y"), only stored message)
* … sent because ResetOnLogon / reset options apply                : C07_logon_reset_sent, C07_logon_reset_sent_iff (when), C07_logon_reset_echo (no second reset)
* … sent because ResetSeqTime applies (CheckResetTime, in the middle of a connection)
      : C07_reset_time_sends_reset_logon (crossing while connected: store reset, Logon outbound 1 with (141,"Y"), counters (2,1),
        sentReset), C07_reset_time_step (the whole event: exactly [reset, save 1 A, wire Logon]), C07_reset_time_crossing (when:
        last check < second rs of now's UTC day ≤ now), C07_reset_time_only_when_crossed (not configured / first check / no
        connection / not crossed: nothing sent, store, counters, queue, sentReset untouched), C07_reset_time_records_clock;
        the answer: initiator — C07_logon_reset_echo (no second reset); acceptor — C07_logon_reset_echo_acceptor,
        C07_own_reset_answer_not_answered (after `fix:` cbdc133; before it — C07_orig_echo_of_own_reset_resets_again — the engine
        answered the peer's answer with another Logon 1 / 141=Y and reset again: C07.echo_of_own_reset_resets_again{role=acceptor})
* EnableNextExpectedMsgSeqNum (tag 789): NO sentence of the property speaks about it; the option is tied to the code by the
  correspondence only, and the theorems are descriptive: what our own Logon carries (C07_next_expected_own: NextTarget+1 read before
  the send), what the acceptor's reply carries (C07_next_expected_reply, = the expected number after acceptance:
  C07_next_expected_accepted), acceptor + peer's 789 higher ⇒ refused (C07_next_expected_ahead_refused, _refused_only_ahead,
  _refusal_logs_out), equal / absent / unreadable / option off / tag 141 ⇒ nothing (C07_next_expected_equal), different + persistence
  ⇒ one gap fill from the peer's 789 to (number on arrival + 1), store untouched (C07_next_expected_differs), different without
  persistence ⇒ `targetTooHigh{789, our outbound number}` (C07_next_expected_differs_nopersist, _nopersist_logon_state).  With the
  option off the Logons carry no 789 and `handleLogon` is what it was (`logonTail_off`, `nxEval_off`).
* the reset flag exists from FIX.4.1                               : C07_no_reset_flag_fix40 (+ `1 ≤ bs` in C07_logon_reset_sent_iff) for the
        Logon of `connect`; remark (#guard): the ResetSeqTime Logon carries 141 whatever the BeginString — the property is silent there
* ResetOnLogout / ResetOnDisconnect return both counters to 1 exactly at logout / disconnect
      : C07_reset_on_logout, C07_reset_on_disconnect_mid, C07_reset_on_disconnect; "exactly": with the options off nothing resets (C07_continuity)
* a SequenceReset can only move the expected number forward; a lower NewSeqNo is rejected and changes nothing
      : C07_seqreset_forward_only (n > T ⇒ T' = n; n = T ⇒ nothing; n < T ⇒ Reject reason 5, T' = T), C07_seqreset_never_backwards (no hypotheses)
* quantifier: every combination of ResetOnLogon/Logout/Disconnect/RefreshOnLogon, role, BeginString, prior counters
      : all theorems are ∀ cfg / ∀ s; RefreshOnLogon, role, BeginString, persistence are unconstrained everywhere
* model boundary: ResetSeqTime is modelled in UTC (`Cfg.resetSeqTime` = second of the day, `Ev.resetTime now` with the clock
  as seconds since a midnight; the TimeZone setting is outside); with `NoResetOptions` (no ResetSeqTime) `resetTime` events
  are allowed in C07_continuity and do nothing; the "new session" tick of CheckSessionTime (`sessionTime _ false`) is the
  model's only other reset and is excluded by `NoResetEv`; store I/O errors are outside.
* ResetOnLogon on the acceptor resets on every Logon (covered by the hypothesis `NoResetOptions` of continuity; its effect is
  the `logonResets` term of C06_gate_logon).
-/
