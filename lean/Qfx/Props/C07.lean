/- C07 — resets and continuity. First theorems; whole-history continuity in progress (DESIGN §5 C07). -/
import Qfx.Spec.Session
open Qfx Qfx.Sess

/-- a reset returns both counters to 1, forgets all messages and starts a new epoch -/
theorem C07_reset_counters (s : Sess) :
    s.storeReset.store.sender = 1 ∧ s.storeReset.store.target = 1 ∧ s.storeReset.store.msgs = [] ∧ s.storeReset.store.epoch = s.store.epoch + 1 :=
  ⟨rfl, rfl, rfl, rfl⟩

/-- FIX.4.0 never initiates the reset flag -/
theorem C07_fix40_never_sends_flag (s : Sess) (h : s.cfg.bs = 0) : shouldSendReset s = false := by
  simp [shouldSendReset, h]

/-- the flag is only initiated when a reset option is configured and both counters are 1 -/
theorem C07_send_reset_only_when_configured (s : Sess) (h : shouldSendReset s = true) :
    (s.cfg.resetOnLogon || s.cfg.resetOnDisconnect || s.cfg.resetOnLogout) = true ∧ s.store.target = 1 ∧ s.store.sender = 1 := by
  unfold shouldSendReset at h
  split at h
  · cases h
  · simp only [Bool.and_eq_true, beq_iff_eq] at h
    exact ⟨h.1.1, h.1.2, h.2⟩

/-- ResetOnLogout / ResetOnDisconnect go through dropAndReset: counters (1,1), queue dropped -/
theorem C07_dropAndReset (s : Sess) : (dropAndReset s).store.sender = 1 ∧ (dropAndReset s).store.target = 1 ∧ (dropAndReset s).toSend = [] :=
  ⟨rfl, rfl, rfl⟩
