/-
  C02 — "Outbound messages are numbered consecutively and persisted before sending".
  Property theorems only (helpers: Qfx/Lemmas/ConcC02.lean, Qfx/Lemmas/SessC02.lean; models: Qfx/Model/Conc.lean,
  Qfx/Model/Session.lean; monitors: Qfx/Spec/Conc.lean, Qfx/Spec/SessionTypedC02.lean).

  properties.jsonl: "Every message accepted for sending is assigned the next unused outbound MsgSeqNum, so the numbers
  handed out in one epoch are n, n+1, n+2 and so on with no gap and no repeat whichever goroutines submit them;
  first-time transmissions appear on the wire in increasing number order, and while the session stays logged on every
  assigned number is transmitted. With persistence enabled the exact bytes sent under number n are retrievable from
  the message store under n no later than they reach the wire, and the store's next outbound number is one past the
  highest number handed out. While a ResendRequest is being answered no first-time message is transmitted between the
  replayed ones."   Quantifier: every interleaving of concurrent application sends with engine traffic and replays.

  Two layers.
  (A) CONCURRENT: the lock-level model `Qfx.Conc` (threads = session goroutine + any number of application goroutines,
      entry points as programs of atomic steps, mutex/rwmutex enabledness, ANY schedule).  The programs are pinned to
      the source by the regenerated lock skeletons `Qfx.Gen.skel_*` (obligations `C02_skel_*` below).
  (B) SEQUENTIAL: the session model `Qfx.Sess` (which the correspondence check compares with the real session event
      by event): numbering and persist-before-wire over ALL event histories.
-/
import Qfx.Lemmas.ConcC02
import Qfx.Lemmas.SessC02
import Qfx.Lemmas.SessC02b
import Qfx.Gen.Facts
open Qfx Qfx.Conc

/-! ## (A) the concurrent layer -/

/-- programs built from the entry points are well-formed: thread 0 any list of session calls, every other thread any
    sequence of `SendToTarget` (`queueForSend`) and `ResetSession` calls (ShutdownNow's Logout through either branch of
    `sendInReplyTo`, or nothing, then `dropAndReset`) -/
theorem C02_compile_wf (p : Bool) (sess : List SCall) (apps : Nat → List ACall) (t : Nat) :
    wf (t == 0) p ⟨.free, .none⟩ (compile p sess apps t) = true := by
  cases t with
  | zero => simp [wf, compile, wfTo_sess]
  | succ i => simp [wf, compile, wfTo_apps]

/-! ### the theorem -/

/-- **C02, all schedules, any well-formed thread programs.**  Whatever the programs of the threads are, as long as each
    respects the lock discipline `wf` (numbering, queue and store are touched only inside `sendMutex`; a foreign
    goroutine enqueues a first-time message only inside `resendMutex.RLock`; only the session goroutine replays or sends
    without `resendMutex`; a store reset leaves `sendMutex` only after the queue has been dropped), the monitor accepts
    the trace of EVERY schedule. -/
theorem C02_all_schedules_wf (p : Bool) (n0 : Nat) (hn : 0 < n0) (progs : Nat → List Step)
    (hwf : ∀ t, wf (t == 0) p ⟨.free, .none⟩ (progs t) = true) (sched : List Nat) :
    MonitorC02 p n0 (run (initRaw n0 progs) sched).trace = true :=
  (inv_run sched (inv_init hn hwf)).monitor

/-- **C02, all schedules of the real entry points.**  Thread 0 runs any sequence of session-side calls (with any flush
    outcomes, logged-on flags, replay contents), thread i+1 runs the calls `apps i` — `SendToTarget` and the operator's
    `ResetSession` (whose Logout is a first-time message sent from a FOREIGN goroutine, and whose reset is an epoch
    boundary for the monitor) in any number and order, any number of threads; `sched` is any interleaving of any length (a scheduled thread that is blocked on a mutex or has
    finished does nothing).  Then: (i) the numbers handed out are consecutive without gap or repeat and the store's
    next number is one past the last; (ii) first-time messages reach the wire in increasing order (per epoch);
    (iii) with persistence every first-time write of n comes after the store saved n; (iv) between the first replayed
    message of a replay and the release of `resendMutex` no first-time message is written. -/
theorem C02_all_schedules (persist : Bool) (n0 : Nat) (hn : 0 < n0) (sess : List SCall) (apps : Nat → List ACall)
    (sched : List Nat) :
    MonitorC02 persist n0 (run (init persist n0 sess apps) sched).trace = true :=
  C02_all_schedules_wf persist n0 hn _ (C02_compile_wf persist sess apps) sched

/-- at the end of every schedule the store is what the monitor computed from the trace: next outbound number one past
    the numbers handed out, saved numbers exactly the ones the trace saved in this epoch -/
theorem C02_final_store (persist : Bool) (n0 : Nat) (hn : 0 < n0) (sess : List SCall) (apps : Nat → List ACall)
    (sched : List Nat) :
    monitorFinal persist n0 (run (init persist n0 sess apps) sched).trace
      = some ((run (init persist n0 sess apps) sched).sender, (run (init persist n0 sess apps) sched).persisted) := by
  unfold init
  obtain ⟨m, hI⟩ := inv_run sched (inv_init hn (C02_compile_wf persist sess apps))
  simp [monitorFinal, hI.run, hI.glob.cur, hI.glob.saved]

/-- mutual exclusion, as a state fact: after any schedule at most the session goroutine writes `resendMutex`, and then
    nobody reads it -/
theorem C02_resend_lock_exclusive (persist : Bool) (n0 : Nat) (hn : 0 < n0) (sess : List SCall) (apps : Nat → List ACall)
    (sched : List Nat) (w : Nat) (h : (run (init persist n0 sess apps) sched).writerR = some w) :
    w = 0 ∧ (run (init persist n0 sess apps) sched).readersR = [] := by
  obtain ⟨m, hI⟩ := inv_run sched (inv_init hn (C02_compile_wf persist sess apps))
  exact hI.glob.wr w h

/-! ### the theorem is not vacuous, and it is false without the locks -/

/-- two application goroutines, two sends each, a session goroutine that logs on, flushes, answers a ResendRequest
    and sends a heartbeat; under this interleaving the first EnqueueBytesAndSend of the replay still flushes three
    queued first-time messages (allowed: they precede the first replayed one), then the two replayed ones follow
    without interruption -/
def demoSess : List SCall :=
  [.dropAndSendInReplyTo false none, .sendAppMessages true none,
   .resendMessages [⟨true, 2, none⟩, ⟨true, 3, none⟩], .sendInReplyTo none]
def demoSched : List Nat := (List.replicate 24 [1, 2, 0, 2, 1, 0, 0]).flatten

set_option maxRecDepth 100000 in
example : (run (init true 1 demoSess (fun _ => sends 2)) demoSched).trace =
    [.assign 1 2 true, .wire 1 .first, .assign 2 3 true, .wire 2 .first, .assign 3 4 true, .assign 4 5 true,
     .assign 5 6 true, .lockR, .wire 3 .first, .wire 4 .first, .wire 5 .first, .wire 2 (.dup 1), .wire 3 (.dup 1),
     .unlockR, .assign 6 7 true, .wire 6 .first] := by decide

/-- `queueForSend` WITHOUT `sendMutex` (the skeleton one gets by deleting the Lock/Unlock pair) -/
def prog_queueForSend_noS : List Step :=
  [.rlockR, .readSeq, .persistIncr, .enqueue, .notify, .runlockR]

/-- … two application goroutines read the same number: the monitor REJECTS this schedule (clause `consecutive`).
    So `C02_all_schedules` really depends on the lock. -/
theorem C02_false_without_sendMutex :
    monitorVerdict true 1
      (run (initRaw 1 (fun t => if t = 0 then [] else prog_queueForSend_noS)) [1, 1, 2, 2, 1, 2]).trace
      = some "C02.consecutive" := by decide

/-- `queueForSend` WITHOUT `resendMutex.RLock` -/
def prog_queueForSend_noR : List Step :=
  [.lockS, .readSeq, .persistIncr, .enqueue, .notify, .unlockS]

/-- … an application message queued in the middle of a replay is flushed between two replayed messages -/
theorem C02_false_without_resendMutex :
    monitorVerdict true 1
      (run (initRaw 1 (fun t => if t = 0 then
              (SCall.resendMessages [⟨true, 1, none⟩, ⟨true, 2, none⟩]).prog true else prog_queueForSend_noR))
        [0, 0, 0, 0, 0, 1, 1, 1, 1, 1, 1, 0, 0, 0]).trace
      = some "C02.replay_exclusive" := by decide

/-- `sendInReplyTo` with `persist` moved AFTER the enqueue and flush -/
def prog_sendInReplyTo_persistLate : List Step :=
  [.rlockR, .lockS, .readSeq, .enqueue, .flush none, .persistIncr, .unlockS, .runlockR]

theorem C02_false_with_late_persist :
    monitorVerdict true 1
      (run (initRaw 1 (fun t => if t = 0 then prog_sendInReplyTo_persistLate else [])) [0, 0, 0, 0, 0]).trace
      = some "C02.persist_before_wire" := by decide

/-- `ResetSession` whose `sendInReplyTo` (logged-on branch) takes `sendMutex` but NOT `resendMutex.RLock` -/
def prog_resetSession_noR : List Step :=
  [.lockS, .readSeq, .persistIncr, .enqueue, .flush none, .unlockS] ++ prog_dropAndReset

/-- … an operator calling ResetSession in the middle of a replay puts the Logout between two replayed messages -/
theorem C02_false_without_RLock_in_sendInReplyTo :
    monitorVerdict true 1
      (run (initRaw 1 (fun t => if t = 0 then
              (SCall.resendMessages [⟨true, 1, none⟩, ⟨true, 2, none⟩]).prog true else
              if t = 1 then prog_resetSession_noR else []))
        [0, 0, 0, 0, 0, 1, 1, 1, 1, 1]).trace
      = some "C02.replay_exclusive" := by decide

/-- with the RLock the same operator waits for the replay to end: the Logout (number 5) follows the two replayed
    messages, then the reset starts a new epoch and the next application message is number 1 again (5 was queued by
    thread 2 before the replay and is flushed by its first EnqueueBytesAndSend, ahead of the replayed messages) -/
def demoResetSched : List Nat :=
  [2,2,2,2,2,2,2,2, 0,0,0,0,0, 1,1,1, 0,0,0,0,0,0,0,0,0, 1,1,1,1,1,1,1,1,1,1,1,1, 2,2,2,2,2,2,2,2, 0,0,0]
set_option maxRecDepth 100000 in
example : (run (init true 5 [.resendMessages [⟨true, 1, none⟩, ⟨true, 2, none⟩], .sendAppMessages true none]
              (fun i => if i = 0 then [.resetSession (.logout true none)] else if i = 1 then sends 2 else [])) demoResetSched).trace =
    [.assign 5 6 true, .lockR, .wire 5 .first, .wire 1 (.dup 1), .wire 2 (.dup 1), .unlockR, .assign 6 7 true,
     .wire 6 .first, .reset, .assign 1 2 true] := by decide

example : wf false true ⟨.free, .none⟩ prog_resetSession_noR = false := by decide
/-- the three broken programs are rejected by the discipline, as they must be -/
example : wf false true ⟨.free, .none⟩ prog_queueForSend_noS = false := by decide
example : wf false true ⟨.free, .none⟩ prog_queueForSend_noR = false := by decide
example : wf true true ⟨.free, .none⟩ prog_sendInReplyTo_persistLate = false := by decide

/-! ### tie to the source: the regenerated lock skeletons are the programs of the model

`Qfx.Gen.skel_*` is rewritten from session.go / session_state.go / in_session.go by `qfxh extract` on every run of
`./check`.  Removing, adding or reordering a lock operation or a protected action changes a skeleton and breaks the
obligation of that name. -/

theorem C02_skel_queueForSend (o : Opts) :
    expand .queueForSend { o with reset := false } Gen.skel_queueForSend
      = some ((prog_queueForSend o.persist).filter (· != Step.notify)) := by
  obtain ⟨p, r, l, lim, n⟩ := o; cases p <;> rfl

/-- both branches: `if !IsLoggedOn { return queueForSend }`, then RLock, Lock, prep, enqueue, flush -/
theorem C02_skel_sendInReplyTo (o : Opts) :
    expandSendInReplyTo { o with reset := false } Gen.skel_sendInReplyTo
      = some (prog_sendInReplyToFull o.persist o.loggedOn o.lim) := by
  obtain ⟨p, r, l, lim, n⟩ := o; cases p <;> cases l <;> rfl

/-- `quickfix.ResetSession` = ShutdownNow; dropAndReset — and ShutdownNow is either empty or sendLogout →
    sendLogoutInReplyTo → sendInReplyTo; no other implementation of ShutdownNow exists -/
theorem C02_skel_resetSession :
    resetSessionShapeOK Gen.skel_resetSession Gen.skel_shutdownNow_loggedOn Gen.skel_shutdownNow_notLoggedOn
      Gen.skel_shutdownNow_latent Gen.skel_sendLogout Gen.skel_sendLogoutInReplyTo Gen.shutdownNowImpls = true := by decide

theorem C02_skel_dropAndSendInReplyTo (o : Opts) :
    expand .dropAndSendInReplyTo o Gen.skel_dropAndSendInReplyTo
      = some (prog_dropAndSendInReplyTo o.persist o.reset o.lim) := by
  obtain ⟨p, r, l, lim, n⟩ := o; cases p <;> cases r <;> rfl

theorem C02_skel_dropAndReset (o : Opts) :
    expand .dropAndReset o Gen.skel_dropAndReset = some prog_dropAndReset := by
  obtain ⟨p, r, l, lim, n⟩ := o; rfl

theorem C02_skel_enqueueBytesAndSend (o : Opts) :
    expand .enqueueBytesAndSend o Gen.skel_enqueueBytesAndSend
      = some (prog_enqueueBytesAndSend o.loggedOn o.num o.lim) := by
  obtain ⟨p, r, l, lim, n⟩ := o; cases l <;> rfl

theorem C02_skel_sendAppMessages (o : Opts) :
    expand .sendAppMessages o Gen.skel_sendAppMessages = some (prog_sendAppMessages o.loggedOn o.lim) := by
  obtain ⟨p, r, l, lim, n⟩ := o; cases l <;> rfl

/-- prepMessageForSend (with `persist` inlined): read, [reset, read again], save-and-increment or increment -/
theorem C02_skel_prepMessageForSend (o : Opts) :
    expandPrep Gen.skel_persist o Gen.skel_prepMessageForSend = some (prog_prep o.persist o.reset) := by
  obtain ⟨p, r, l, lim, n⟩ := o; cases p <;> cases r <;> rfl

/-- resendMessages: everything between `resendMutex.Lock` and its deferred `Unlock` is EnqueueBytesAndSend traffic
    (directly or through generateSequenceReset) -/
theorem C02_skel_resendMessages :
    resendShapeOK Gen.skel_generateSequenceReset Gen.skel_resendMessages = true := by decide

/-- sendQueued / dropQueued only read and rewrite the queue and call sendBytes: no lock, no store access.
    `notifyMessageOut` (Step.notify: no effect on the model state, `Conc.stepThread`) is not part of the skeletons — its
    position inside a critical section is not observable; WHO calls it is pinned instead. -/
theorem C02_skel_sendQueued :
    Gen.skel_sendQueued = ["queueRead", "sendBytes", "queueWrite", "dropQ"] ∧
    Gen.skel_dropQueued = ["queueWrite"] ∧
    Gen.notifyCallers = ["queueForSend", "sendQueued"] := by decide

/-- the functions of session.go, in_session.go, session_state.go, registry.go and the state files that touch the send
    queue, the numbering or persistence are exactly the modelled ones: a new function doing so changes this list -/
theorem C02_send_path_functions :
    Gen.sendPathFunctions =
      ["EnqueueBytesAndSend", "SendAppMessages", "dropAndReset", "dropAndSendInReplyTo", "dropQueued", "persist",
       "prepMessageForSend", "queueForSend", "sendInReplyTo", "sendQueued"] := by decide

/-! ## (B) the sequential layer: the session model `Qfx.Sess`, all event histories -/

namespace C02seq
open Qfx.Sess Qfx.Sess.C02

/-- the monitor state agrees with the session: nothing violated, same next outbound number, persistence as configured,
    every queued message is a replay or has been saved -/
def Good (p : Bool) (g : G2) (s : Sess) : Prop :=
  g.ok = true ∧ g.S = s.store.sender ∧ s.cfg.persist = p ∧ (p = true → ∀ m ∈ s.toSend, covered g m = true)

/-- the concatenated observations of a history -/
def traceOf (s : Sess) : List Sess.Ev → List Obs
  | [] => []
  | e :: es => (step s e).2.1 ++ traceOf (step s e).1 es

def runEvents (s : Sess) : List Sess.Ev → Sess
  | [] => s
  | e :: es => runEvents (step s e).1 es

end C02seq
open C02seq Qfx.Sess Qfx.Sess.C02 in
/-- one event, any state, any event: the monitor accepts the event's observations and stays in agreement -/
theorem C02_seq_step (p : Bool) (s : Sess) (e : Sess.Ev) (g : G2) (h : Good p g s) :
    Good p ((step s e).2.1.foldl (g2Step p) g) (step s e).1 := by
  have h0 : K p g s.clearLog := by
    unfold Good at h
    unfold K g2Of Sess.clearLog
    simpa using h
  have h1 := K_stepCore p g s.clearLog e h0
  unfold step
  simp only []
  generalize stepCore s.clearLog e = r at h1
  obtain ⟨s', status⟩ := r
  simp only [] at h1 ⊢
  unfold K g2Of at h1
  exact h1

open C02seq Qfx.Sess Qfx.Sess.C02 in
theorem C02_seq_run (p : Bool) (s : Sess) (evs : List Sess.Ev) (g : G2) (h : Good p g s) :
    Good p ((traceOf s evs).foldl (g2Step p) g) (runEvents s evs) := by
  induction evs generalizing s g with
  | nil => exact h
  | cons e es ih =>
    simp only [traceOf, runEvents, List.foldl_append]
    exact ih _ _ (C02_seq_step p s e g h)

open C02seq Qfx.Sess Qfx.Sess.C02 in
/-- **C02, sequential layer**: every configuration (role, BeginString, reset options, persistence on or off, …), every
    initial pair of counters, every finite history of events (connects, inbound messages of any kind — Logon with or
    without ResetSeqNumFlag, ResendRequests, TestRequests, garbage —, timeouts, application sends, flushes, disconnects,
    stops, session-time changes): every `saved n` happens at exactly the tracked next outbound number, which then
    becomes n+1 (`incS` likewise without storing, `reset` ⇒ 1); with persistence every first-time write to the
    connection (PossDupFlag ≠ Y, administrative or application) of number n, MsgType k comes after the store saved
    (n, k); and the tracked number at the end is the store's next outbound number. -/
theorem C02_seq (cfg : Cfg) (s0 t0 : Int) (evs : List Sess.Ev) :
    c02SeqAccepts cfg.persist s0 (traceOf (initSess cfg s0 t0) evs) = true ∧
    c02SeqSender cfg.persist s0 (traceOf (initSess cfg s0 t0) evs) = (runEvents (initSess cfg s0 t0) evs).store.sender := by
  have hg : Good cfg.persist (G2.init s0) (initSess cfg s0 t0) :=
    ⟨rfl, rfl, rfl, fun _ m hm => by simp [initSess] at hm⟩
  obtain ⟨a, b, _, _⟩ := C02_seq_run cfg.persist (initSess cfg s0 t0) evs (G2.init s0) hg
  exact ⟨a, b⟩

open C02seq Qfx.Sess Qfx.Sess.C02 in
/-- … and what is still queued after any history is covered too: nothing unsaved can ever be flushed later -/
theorem C02_seq_queue_saved (cfg : Cfg) (s0 t0 : Int) (evs : List Sess.Ev) (hp : cfg.persist = true) :
    ∀ m ∈ (runEvents (initSess cfg s0 t0) evs).toSend,
      covered ((traceOf (initSess cfg s0 t0) evs).foldl (g2Step cfg.persist) (G2.init s0)) m = true := by
  have hg : Good cfg.persist (G2.init s0) (initSess cfg s0 t0) :=
    ⟨rfl, rfl, rfl, fun _ m hm => by simp [initSess] at hm⟩
  obtain ⟨_, _, _, d⟩ := C02_seq_run cfg.persist (initSess cfg s0 t0) evs (G2.init s0) hg
  exact d hp

/-! ### per-epoch clauses of the sequential layer: wire order, and "saved since the last reset" -/

namespace C02seq
open Qfx.Sess Qfx.Sess.C02 Qfx.Sess.C02b
def GoodE (p : Bool) (g : G3) (s : Sess) : Prop :=
  g.ok = true ∧ s.cfg.persist = p ∧ QSeq g.lastFirst s.toSend s.store.sender ∧
  (p = true → ∀ m ∈ s.toSend, firstTime m = true → triple m ∈ g.savedE)
end C02seq

open C02seq Qfx.Sess Qfx.Sess.C02 Qfx.Sess.C02b in
theorem C02_seq_epoch_step (p : Bool) (s : Sess) (e : Sess.Ev) (hb : benign e = true) (g : G3) (h : GoodE p g s) :
    GoodE p ((step s e).2.1.foldl (g3Step p) g) (step s e).1 := by
  have h0 : E p g s.clearLog := by
    unfold GoodE at h
    unfold E g3Of Sess.clearLog
    simpa using h
  have h1 := E_stepCore p g s.clearLog e hb h0
  unfold step
  simp only []
  generalize stepCore s.clearLog e = r at h1
  obtain ⟨s', status⟩ := r
  simp only [] at h1 ⊢
  unfold E g3Of at h1
  exact h1

open C02seq Qfx.Sess Qfx.Sess.C02 Qfx.Sess.C02b in
theorem C02_seq_epoch_run (p : Bool) (s : Sess) (evs : List Sess.Ev) (hb : ∀ e ∈ evs, benign e = true) (g : G3)
    (h : GoodE p g s) : GoodE p ((traceOf s evs).foldl (g3Step p) g) (runEvents s evs) := by
  induction evs generalizing s g with
  | nil => exact h
  | cons e es ih =>
    simp only [traceOf, runEvents, List.foldl_append]
    exact ih _ (fun x hx => hb x (by simp [hx])) _ (C02_seq_epoch_step p s e (hb e (by simp)) g h)

open C02seq Qfx.Sess Qfx.Sess.C02 Qfx.Sess.C02b in
/-- **C02, sequential layer, per epoch**: every configuration, every initial outbound number ≥ 1, every history in which
    the application does not itself submit a Logon carrying ResetSeqNumFlag=Y (`benign`; the engine's own Logons go
    through `dropAndSendInReplyTo`): first-time messages are written to the connection in strictly increasing number
    order within an epoch (a reset starts a new epoch), and with persistence a first-time write of (n, MsgType,
    resend verdict) happens only after the store saved exactly that SINCE THE LAST RESET — what is written is still in
    the store.  (After the `fix:` every reset either drops the queue first or replaces it.) -/
theorem C02_seq_epoch (cfg : Cfg) (s0 t0 : Int) (hs : 0 < s0) (evs : List Sess.Ev) (hb : ∀ e ∈ evs, benign e = true) :
    c02SeqEpochAccepts cfg.persist (traceOf (initSess cfg s0 t0) evs) = true := by
  have hg : GoodE cfg.persist G3.init (initSess cfg s0 t0) :=
    ⟨rfl, rfl, by simpa [initSess, G3.init, QSeq] using hs, fun _ m hm => by simp [initSess] at hm⟩
  exact (C02_seq_epoch_run cfg.persist (initSess cfg s0 t0) evs hb G3.init hg).1

open Qfx.Sess Qfx.Sess.C02b in
/-- liveness of one wake-up, sequential model: a flush (`SendAppMessages`) of a logged-on session that has a
    connection writes everything that is queued, in queue order, and leaves nothing queued -/
theorem C02_seq_flush_transmits_all (s : Sess) (hl : s.st.loggedOn = true) (ho : s.out = true) :
    (step s .flush).1.toSend = [] ∧ (step s .flush).2.1 = s.toSend.map Obs.wire := by
  unfold step stepCore
  have hf : fuelOf s.clearLog = (4 * s.inbox.length + 7) + 1 := by simp [fuelOf, Sess.clearLog]
  simp only [hf]
  rw [checkSessionTime_inrange _ _ (loggedOn_sessionTime _ (by simpa [Sess.clearLog] using hl))]
  simp [Sess.clearLog, hl, sendQueued, ho]

/- the hypotheses of the flush theorem are satisfiable (interpreter-checked): after connect + Logon an acceptor is
   logged on and has a connection -/
#guard (let s := C02seq.runEvents (Sess.initSess {} 1 1) [.connect, .incomingMsg (some
    { f := [(8, "FIX.4.2"), (35, "A"), (49, "TGT"), (56, "SND"), (34, "1"), (52, "@0"), (98, "0"), (108, "30")] })]
  s.out && s.st.loggedOn)

/-! ### the sequential monitor is not vacuous -/
section
open Qfx.Sess Qfx.Sess.C02
def c02m (k : String) (n : Int) (dup : Bool) : OutMsg := { kind := k, seq := n, f := if dup then [(43, "Y")] else [] }
#guard c02SeqAccepts true 5 [.saved 5 "D" true, .wire (c02m "D" 5 false), .saved 6 "0" true, .wire (c02m "0" 6 false)] == true
#guard c02SeqAccepts true 5 [.saved 6 "D" true] == false                                   -- a gap
#guard c02SeqAccepts true 5 [.saved 5 "D" true, .saved 5 "D" true] == false                -- a repeat
#guard c02SeqAccepts true 5 [.wire (c02m "D" 5 false)] == false                            -- written before saved
#guard c02SeqAccepts true 5 [.saved 5 "D" true, .wire (c02m "8" 5 false)] == false         -- saved as another message
#guard c02SeqAccepts true 5 [.wire (c02m "D" 2 true)] == true                              -- replays are exempt
#guard c02SeqAccepts false 5 [.incS, .wire (c02m "D" 5 false)] == true                     -- persistence off
#guard c02SeqAccepts true 5 [.saved 5 "D" true, .reset, .saved 1 "A" true] == true         -- a reset starts at 1
#guard c02SeqAccepts true 5 [.saved 5 "D" true, .reset, .saved 6 "A" true] == false
#guard c02SeqEpochAccepts true [.saved 5 "D" true, .saved 6 "D" true, .wire (c02m "D" 5 false), .wire (c02m "D" 6 false)] == true
#guard c02SeqEpochAccepts true [.saved 5 "D" true, .saved 6 "D" true, .wire (c02m "D" 6 false), .wire (c02m "D" 5 false)] == false  -- out of order
#guard c02SeqEpochAccepts true [.saved 5 "D" true, .reset, .wire (c02m "D" 5 false)] == false                   -- no longer in the store
#guard c02SeqEpochAccepts true [.saved 5 "D" true, .wire (c02m "D" 5 false), .reset, .saved 1 "A" true, .wire (c02m "A" 1 false)] == true
#guard c02SeqEpochAccepts false [.incS, .incS, .wire (c02m "D" 6 false), .wire (c02m "D" 5 false)] == false      -- order also without persistence

/-- non-vacuity of the theorem: an acceptor logs on, the application sends twice, a flush writes both -/
def c02Logon : InMsg :=
  { f := [(8, "FIX.4.2"), (35, "A"), (49, "TGT"), (56, "SND"), (34, "1"), (52, "@0"), (98, "0"), (108, "30")] }
#guard ((C02seq.traceOf (initSess {} 1 1) [.connect, .incomingMsg (some c02Logon), .send (mkOut "D" []), .send (mkOut "D" []),
            .flush]).filterMap (fun o => match o with
              | .saved n k _ => some (s!"saved {n} {k}") | .wire m => some (s!"wire {m.seq} {m.kind}") | _ => none))
          == ["saved 1 A", "wire 1 A", "saved 2 D", "saved 3 D", "wire 2 D", "wire 3 D"]
end

/-- The Logon-triggered reset (`handleLogon`: ResetOnLogon or a received ResetSeqNumFlag; `Connect`: initiator with
    ResetOnLogon).  On the unchanged tree it called `store.Reset()` directly: outside `sendMutex` (an application
    goroutine between reading the number and saving got a pre-reset number saved after the reset — reproduced by the
    stress harness, signature C02/consecutive) and without dropping the queue (sequentially: initiator, a message
    queued while the Logon is outstanding, the peer's Logon carries 141=Y ⇒ the old model trace was
    `saved 1 A, wire 1 A, saved 2 D, reset, wire 2 D, saved 1 D, saved 2 D, wire 1 D, wire 2 D`: message 2 written
    although the store no longer held it, and number 2 handed out twice).  After the `fix:` both sites go through
    `dropAndReset` like every other reset; the model follows, and the same history now gives: -/
def c02ResetLogon : Sess.InMsg :=
  { f := [(8, "FIX.4.2"), (35, "A"), (49, "TGT"), (56, "SND"), (34, "1"), (52, "@0"), (98, "0"), (108, "30"), (141, "Y")] }
#guard ((C02seq.traceOf (Sess.initSess { initiator := true } 1 1)
          [.connect, .send (Sess.mkOut "D" []), .incomingMsg (some c02ResetLogon), .flush,
           .send (Sess.mkOut "D" []), .send (Sess.mkOut "D" []), .flush]).filterMap (fun o => match o with
              | .saved n k _ => some (s!"saved {n} {k}") | .wire m => some (s!"wire {m.seq} {m.kind}")
              | .reset => some "reset" | _ => none))
        == ["saved 1 A", "wire 1 A", "saved 2 D", "reset", "saved 1 D", "saved 2 D", "wire 1 D", "wire 2 D"]

/-! Remark on readings.  "Retrievable from the store no later than it reaches the wire" is stated on the observation
trace (`C02_seq_epoch`: a `saved (n, kind, resendable)` since the last `reset` precedes the first-time `wire`), not on
the store AFTER the event: an event may write and then legitimately reset (a Logout answered under ResetOnLogout
flushes the Logout and then calls dropAndReset), so "the store after the step still holds n" is false for correct
behaviour.  Resets are the only way the model's store forgets, hence the observation-level statement is the exact one. -/

/-!
Clause checklist (properties.jsonl C02 → theorems)
* next unused number, n, n+1, … no gap no repeat, whichever goroutines : C02_all_schedules (clauses consecutive, sender_next), for ALL schedules
                                                                          of the lock-level model; C02_seq (sequential model, all histories)
* first-time transmissions on the wire in increasing order             : C02_all_schedules (clause wire_order, per epoch); C02_seq_epoch (sequential model)
* while logged on every assigned number is transmitted                 : C02_seq_flush_transmits_all (one flush of a logged-on, connected session writes the whole
                                                                          queue, sequential model); that the wake-up happens (messageEvent) is NOT proved — sampled by
                                                                          the stress harness (every number handed out after logon is read from the connection).
* bytes under n retrievable from the store no later than the wire      : C02_all_schedules (clause persist_before_wire) + C02_final_store;
                                                                          C02_seq / C02_seq_queue_saved / C02_seq_epoch (number, MsgType, resend verdict of the saved
                                                                          message; saved since the last reset);
                                                                          byte identity is the codec family's business (C10/C11)
* store's next outbound number one past the highest handed out         : C02_final_store, C02_seq (second conjunct)
* no first-time message between the replayed ones                      : C02_all_schedules (clauses replay_exclusive, replay_lock), C02_resend_lock_exclusive
* the theorem is false without the locks                               : C02_false_without_sendMutex, C02_false_without_resendMutex, C02_false_with_late_persist
* tie of the programs to the source                                    : C02_skel_* (8 obligations on regenerated skeletons), C02_send_path_functions
* assumed, not proved: Go memory model; sync.Mutex / sync.RWMutex semantics as modelled (a superset of Go's schedules); atomicity at the granularity
  of lock operations and protected actions; store operations succeed; schedules of the real engine are only sampled (stress harness `conc`)
-/
