/-
  C09 — "No bytes from the wire, a file or the API can crash the engine".
  The theorems say `≠ fault` (or "ends with an error value") about the panic-explicit models of the pieces; each model is
  tied to the code by its own family, and the `robust` family runs every entry point of the REAL code on hostile bytes
  under recover + timeout.  Pieces proved elsewhere are re-exported here (framer: Props/C09Framer.lean; codec: see below).
-/
import Qfx.Model.Settings
import Qfx.Lemmas.Values
import Qfx.Props.C09Framer
import Qfx.Props.C11
open Qfx

/-! ## integers: every typed integer accessor goes through `atoi` -/

/-- `atoi` (after `fix:` 6f6d29f) returns a value or an error for EVERY byte string — GetInt, BodyLength, NumInGroup counts … -/
theorem C09_atoi_total (b : Bytes) : (atoi b).isFault = false := atoi_not_fault b

/-- the pinned original panicked exactly on the empty value (`34=`, `9=`, FIXInt.Read("")) -/
theorem C09_atoi_orig_witness : (atoiUnguarded []).isFault = true := rfl

/-! ## settings text: the section-pointer automaton of ParseSettings -/

open Qfx.Settings in
/-- after `fix:` 60da55c no sequence of lines dereferences an unset section pointer -/
theorem C09_settings_total (p : Ptr) (ls : List Line) : (run true p ls).isFault = false := by
  induction ls generalizing p with
  | nil => rfl
  | cons l ls ih =>
    unfold run
    cases l <;> cases p <;> simp only [stepLine, if_true] <;> first | exact ih _ | rfl

open Qfx.Settings in
/-- the pinned original: a `key=value` line before any section header is a nil dereference (D4) -/
theorem C09_settings_orig_witness : run false .nil [.setting] = .fault "nil pointer dereference" := rfl

open Qfx.Settings in
/-- and that is the only way the original could fault: once a section header was seen it never does -/
theorem C09_settings_orig_safe_after_header (p : Ptr) (hp : p ≠ .nil) (ls : List Line) : (run false p ls).isFault = false := by
  induction ls generalizing p with
  | nil => rfl
  | cons l ls ih =>
    cases p with
    | nil => exact (hp rfl).elim
    | global => unfold run; cases l <;> simp only [stepLine] <;> first | exact ih _ (by decide) | rfl
    | sess => unfold run; cases l <;> simp only [stepLine] <;> first | exact ih _ (by decide) | rfl

/-! ## parsing any byte string, reading any field of the result (codec model; proofs in Props/C11.lean) -/

/-- `ParseMessage` / `ParseMessageWithDataDictionary` (after the `fix:` commits 4186cca, b3fbcae) return a message or an error for
    EVERY byte string and every pair of dictionaries: no index expression of the parser leaves its slice -/
theorem C09_parse_total (d : Dicts) (w : Bytes) : ∀ x, parseMessage Fixes.cur d w ≠ .fault x := C11_parse_total d w

/-!
Clause checklist (properties.jsonl C09)
* framing any byte stream                    : C09_framer_total, C09_framer_no_fault (Props/C09Framer.lean; original: C09_framer_orig_witness)
* typed accessors on integers                : C09_atoi_total (original: C09_atoi_orig_witness); booleans/timestamps/floats: total by construction
                                               of the models in Qfx/Model/Values.lean (they return `Res.ok` or `Res.err` only — see C14)
* parsing any byte string as a FIX message   : C09_parse_total (= C11_parse_total); typed getters on the result: C11_getters_total; originals: C11_orig_no_checksum_faults (D2), C11_orig_xml_len_faults (D3)
* loading any settings text                  : C09_settings_total (pointer automaton; the five regular expressions and AddSession are executed, not modelled)
* loading any dictionary text                : C19 (cycle check: `loads well-formed / refuses cyclic`), encoding/xml is executed, not modelled
* validating against any shipped dictionary  : C15's validator model is total by construction (structural recursion); executed by the `robust` family
* a session that received garbage still processes the next well-formed message :
    model: `incoming _ s none` only re-arms the peer timer (Qfx.Sess.incoming); implementation: `sessraw` ops of the `robust` family
* NOT proved: panics outside the modelled index arithmetic (nil maps, library code) — reachable only by the generated runs (partial)
-/
