/-
  C15 — validation accepts conforming messages and names the defect otherwise.

  Theorems about the validator model `Qfx.Validate.validate` (mirror of validation.go), for EVERY dictionary view
  `VDict`, every parsed message and all 2^5 settings (no sampling).  `tr`/`app` are the transport / application
  dictionaries of `validatePipeline` (FIX 4.x: both the same dictionary; FIXT: admin types use the transport one twice).

  Clause checklist (statement of C15 → theorem):
    accepts conforming                 C15_accepts_flat (+ _fix, _fixt) — messages WITHOUT repeating groups; with groups: C15_accepts_full (def, monitor only)
    unknown msg type                   C15_defect_unknown_msgtype, C15_defect_unknown_msgtype_fixt
    required missing (top level)       C15_defect_required_missing_body, C15_defect_required_missing_header
    required missing (in group entry)  monitor only (clause defect_required_missing)
    tag not in dictionary              C15_defect_not_in_dictionary (+ C15_relaxed_not_in_dictionary)
    empty value                        C15_defect_empty_value (RejectInvalidMessage route); CheckFieldsHaveValues route: C15_defect_empty_value_content_full (def)
    bad enum / bad format              C15_defect_bad_enum, C15_defect_bad_format
    duplicate tag                      C15_defect_duplicate_tag
    tag not defined for type, group count mismatch, member out of order, header/body/trailer order
                                       monitor only (clauses defect_not_defined_for_type, defect_group_count, defect_member_order, defect_section_order)
    settings that relax                C15_relaxed_reject_invalid, C15_relaxed_content, C15_relaxed_not_in_dictionary
-/
import Qfx.Lemmas.Validate
open Qfx Qfx.Dict Qfx.Validate

/-- what a conforming message without repeating groups is, for the pipeline over (`tr`, `app`) -/
structure C15_ConformingFlat (tr app : VDict) (m : PMsg) (mt : Bytes) (h b t : MDef) : Prop where
  hdef : tr.header = some h
  bdef : app.msg? mt = some b
  tdef : tr.trailer = some t
  reqH : ∀ x ∈ h.reqTags, x ∈ m.hdr
  reqB : ∀ x ∈ b.reqTags, x ∈ m.body
  reqT : ∀ x ∈ t.reqTags, x ∈ m.trl
  sectioned : Sectioned m.fields
  values : AllValues m.fields
  nodup : (m.fields.map (·.tag)).Nodup
  typed : ∀ f ∈ m.fields, ∃ ft p, (if isHeaderTag f.tag || isTrailerTag f.tag then tr else app).ftype f.tag = some ft ∧
            (ft.enums = [] ∨ f.value ∈ ft.enums) ∧ ft.proto = some p ∧ protoReads p f.value = true
  plain : ∀ f ∈ m.fields, PlainDefined tr b f

theorem C15_walk_fuel (m : PMsg) : m.fields.length + 2 < walkFuel m := by
  unfold walkFuel; omega

/-- the three dictionary-independent stages and the per-field stage pass on a conforming flat message -/
theorem C15_accepts_flat (tr app : VDict) (s : Settings) (m : PMsg) (mt : Bytes) (h b t : MDef)
    (c : C15_ConformingFlat tr app m mt h b t) : validatePipeline tr app s mt m = .ok () := by
  have h1 : validateMsgType app mt = .ok () := by simp [validateMsgType, c.bdef]
  have h2 : validateRequired tr app mt m = .ok () := by
    simp only [validateRequired, c.hdef, c.bdef, c.tdef, bind, Except.bind]
    rw [requiredFieldMap_ok c.reqH, requiredFieldMap_ok c.reqB, requiredFieldMap_ok c.reqT]
  have h3 : validateFieldContent m s.checkHaveValues s.checkOrder = .ok () :=
    validateFieldContent_ok m _ _ c.sectioned (c.values.valuesOK _)
  have h4 : validateFields tr app s m.fields = .ok () := by
    apply validateFields_ok
    intro f hf _
    obtain ⟨ft, p, hd, he, hp, hr⟩ := c.typed f hf
    have hv : f.value ≠ [] := by
      have := c.values f hf
      intro e; simp [e] at this
    exact validateField_ok _ s f ft p hv hd he hp hr
  have h5 : validateWalk tr app s mt m = .ok () := by
    simp only [validateWalk, c.bdef]
    apply walkLoop_flat
    · have := C15_walk_fuel m; omega
    · exact c.nodup
    · intro f _; simp
    · exact c.plain
  simp only [validatePipeline, bind, Except.bind, h1, h2, h3, h4, h5]
  cases s.rejectInvalid <;> simp [pure, Except.pure]

/-- FIX 4.x validator (`NewValidator(settings, dd, nil)`) accepts every conforming flat message under all settings -/
theorem C15_accepts_flat_fix (d : VDict) (s : Settings) (m : PMsg) (mt : Bytes) (h b t : MDef)
    (h35 : 35 ∈ m.hdr) (hmt : m.msgType = some mt) (c : C15_ConformingFlat d d m mt h b t) :
    validate d none s m = .ok () := by
  simp [validate, h35, hmt, C15_accepts_flat d d s m mt h b t c]

/-- FIXT validator on an application message -/
theorem C15_accepts_flat_fixt (app tr : VDict) (s : Settings) (m : PMsg) (mt : Bytes) (h b t : MDef)
    (h35 : 35 ∈ m.hdr) (hmt : m.msgType = some mt) (hadm : isAdminMsgType mt = false)
    (c : C15_ConformingFlat tr app m mt h b t) :
    validate app (some tr) s m = .ok () := by
  simp [validate, h35, hmt, hadm, C15_accepts_flat tr app s m mt h b t c]

/-- an unknown MsgType is named with reason 11 whatever the settings and the rest of the message (FIX 4.x validator) -/
theorem C15_defect_unknown_msgtype (app : VDict) (s : Settings) (m : PMsg) (mt : Bytes)
    (h35 : 35 ∈ m.hdr) (hmt : m.msgType = some mt) (hunk : app.msg? mt = none) :
    validate app none s m = .error (.reject ⟨11, none⟩) := by
  simp [validate, h35, hmt, validatePipeline, validateMsgType, hunk, bind, Except.bind]

/-- … and by the FIXT validator for a non-admin type unknown to the application dictionary -/
theorem C15_defect_unknown_msgtype_fixt (app tr : VDict) (s : Settings) (m : PMsg) (mt : Bytes)
    (h35 : 35 ∈ m.hdr) (hmt : m.msgType = some mt) (hadm : isAdminMsgType mt = false) (hunk : app.msg? mt = none) :
    validate app (some tr) s m = .error (.reject ⟨11, none⟩) := by
  simp [validate, h35, hmt, hadm, validatePipeline, validateMsgType, hunk, bind, Except.bind]

/-- the result is one of the expected identifications of the planted kind -/
theorem C15_unknown_msgtype_expected (t : Nat) : expected .unknownMsgType t ⟨11, none⟩ = true := by
  simp [expected]

/-- a single required body tag missing from the Body map is named (reason 1, that tag), under all settings -/
theorem C15_defect_required_missing_body (tr app : VDict) (s : Settings) (m : PMsg) (mt : Bytes) (h b t : MDef) (x : Nat)
    (hdef : tr.header = some h) (bdef : app.msg? mt = some b) (tdef : tr.trailer = some t)
    (reqH : ∀ y ∈ h.reqTags, y ∈ m.hdr)
    (hx : x ∈ b.reqTags) (hmiss : x ∉ m.body) (honly : ∀ y ∈ b.reqTags, y ≠ x → y ∈ m.body) :
    validatePipeline tr app s mt m = .error (.reject ⟨1, some x⟩) := by
  have h1 : validateMsgType app mt = .ok () := by simp [validateMsgType, bdef]
  have h2 : validateRequired tr app mt m = .error (.reject ⟨1, some x⟩) := by
    simp only [validateRequired, hdef, bdef, tdef, bind, Except.bind]
    rw [requiredFieldMap_ok reqH, requiredFieldMap_single hx hmiss honly]
  simp only [validatePipeline, bind, Except.bind, h1, h2]

/-- a single required header tag missing from the Header map is named -/
theorem C15_defect_required_missing_header (tr app : VDict) (s : Settings) (m : PMsg) (mt : Bytes) (h b t : MDef) (x : Nat)
    (hdef : tr.header = some h) (bdef : app.msg? mt = some b) (tdef : tr.trailer = some t)
    (hx : x ∈ h.reqTags) (hmiss : x ∉ m.hdr) (honly : ∀ y ∈ h.reqTags, y ≠ x → y ∈ m.hdr) :
    validatePipeline tr app s mt m = .error (.reject ⟨1, some x⟩) := by
  have h1 : validateMsgType app mt = .ok () := by simp [validateMsgType, bdef]
  have h2 : validateRequired tr app mt m = .error (.reject ⟨1, some x⟩) := by
    simp only [validateRequired, hdef, bdef, tdef, bind, Except.bind]
    rw [requiredFieldMap_single hx hmiss honly]
  simp only [validatePipeline, bind, Except.bind, h1, h2]

/--
  Field-level defects: the message is as a conforming flat one up to the per-field stage, its fields are
  `pre ++ f :: post`, everything in `pre` is well-typed and `f` fails `validateField` with `e`: then, with
  RejectInvalidMessage on, the verdict is exactly `e`.
-/
theorem C15_defect_field (tr app : VDict) (s : Settings) (m : PMsg) (mt : Bytes) (h b t : MDef)
    (pre post : List TV) (f : TV) (e : Stop)
    (hdef : tr.header = some h) (bdef : app.msg? mt = some b) (tdef : tr.trailer = some t)
    (reqH : ∀ x ∈ h.reqTags, x ∈ m.hdr) (reqB : ∀ x ∈ b.reqTags, x ∈ m.body) (reqT : ∀ x ∈ t.reqTags, x ∈ m.trl)
    (sectioned : Sectioned m.fields) (values : ValuesOK s.checkHaveValues m.fields)
    (hri : s.rejectInvalid = true) (hfs : m.fields = pre ++ f :: post)
    (hpre : ∀ g ∈ pre, g.tag ≠ 35 → validateField (if isHeaderTag g.tag || isTrailerTag g.tag then tr else app) s g = .ok ())
    (h35 : f.tag ≠ 35)
    (hf : validateField (if isHeaderTag f.tag || isTrailerTag f.tag then tr else app) s f = .error e) :
    validatePipeline tr app s mt m = .error e := by
  have h1 : validateMsgType app mt = .ok () := by simp [validateMsgType, bdef]
  have h2 : validateRequired tr app mt m = .ok () := by
    simp only [validateRequired, hdef, bdef, tdef, bind, Except.bind]
    rw [requiredFieldMap_ok reqH, requiredFieldMap_ok reqB, requiredFieldMap_ok reqT]
  have h3 : validateFieldContent m s.checkHaveValues s.checkOrder = .ok () :=
    validateFieldContent_ok m _ _ sectioned values
  have h4 : validateFields tr app s m.fields = .error e := by
    rw [hfs]; exact validateFields_first hpre h35 hf
  simp only [validatePipeline, bind, Except.bind, h1, h2, h3, h4, hri]
  simp

/-- a value outside the declared enumeration is named: reason 5, that tag -/
theorem C15_defect_bad_enum (d : VDict) (s : Settings) (f : TV) (ft : FType) (hv : f.value ≠ [])
    (hd : d.ftype f.tag = some ft) (hne : ft.enums ≠ []) (hnot : f.value ∉ ft.enums)
    (htok : ft.multi = false ∨ ∃ tok ∈ splitOn32 f.value [], tok ∉ ft.enums) :
    validateField d s f = .error (.reject ⟨5, some f.tag⟩) ∧ expected .badEnum f.tag ⟨5, some f.tag⟩ = true :=
  ⟨validateField_bad_enum d s f ft hv hd hne hnot htok, by simp [expected]⟩

/-- a value not in the declared type's grammar is named: reason 6, that tag -/
theorem C15_defect_bad_format (d : VDict) (s : Settings) (f : TV) (ft : FType) (p : Proto) (hv : f.value ≠ [])
    (hd : d.ftype f.tag = some ft) (henum : ft.enums = [] ∨ f.value ∈ ft.enums)
    (hp : ft.proto = some p) (hbad : protoReads p f.value = false) :
    validateField d s f = .error (.reject ⟨6, some f.tag⟩) ∧ expected .badFormat f.tag ⟨6, some f.tag⟩ = true :=
  ⟨validateField_bad_format d s f ft p hv hd henum hp hbad, by simp [expected]⟩

/-- a tag unknown to the dictionary is named (reason 0) exactly when the settings do not tolerate it -/
theorem C15_defect_not_in_dictionary (d : VDict) (s : Settings) (f : TV) (hv : f.value ≠ [])
    (hu : d.ftype f.tag = none) (hs : undefinedTolerated s f.tag = false) :
    validateField d s f = .error (.reject ⟨0, some f.tag⟩) ∧ expected .notInDictionary f.tag ⟨0, some f.tag⟩ = true :=
  ⟨validateField_undefined d s f hv hu (by simpa [undefinedTolerated, checkFieldNotDefined] using hs), by simp [expected]⟩

theorem C15_relaxed_not_in_dictionary (d : VDict) (s : Settings) (f : TV) (hv : f.value ≠ [])
    (hu : d.ftype f.tag = none) (hs : undefinedTolerated s f.tag = true) :
    validateField d s f = .ok () :=
  validateField_undefined_tolerated d s f hv hu (by simpa [undefinedTolerated, checkFieldNotDefined] using hs)

/-- an empty value is named by the per-field stage: reason 4, that tag -/
theorem C15_defect_empty_value (d : VDict) (s : Settings) (f : TV) (h : f.value = []) :
    validateField d s f = .error (.reject ⟨4, some f.tag⟩) ∧ expected .emptyValue f.tag ⟨4, some f.tag⟩ = true :=
  ⟨validateField_empty d s f h, by simp [expected]⟩

/-- a repeated top-level tag is named: reason 13, that tag (group-free prefix, RejectInvalidMessage on) -/
theorem C15_defect_duplicate_tag (tr app : VDict) (s : Settings) (m : PMsg) (mt : Bytes) (h b t : MDef)
    (pre post : List TV) (f : TV)
    (hdef : tr.header = some h) (bdef : app.msg? mt = some b) (tdef : tr.trailer = some t)
    (reqH : ∀ x ∈ h.reqTags, x ∈ m.hdr) (reqB : ∀ x ∈ b.reqTags, x ∈ m.body) (reqT : ∀ x ∈ t.reqTags, x ∈ m.trl)
    (sectioned : Sectioned m.fields) (values : AllValues m.fields)
    (hri : s.rejectInvalid = true) (hfs : m.fields = pre ++ f :: post)
    (typed : ∀ g ∈ m.fields, g.tag ≠ 35 → validateField (if isHeaderTag g.tag || isTrailerTag g.tag then tr else app) s g = .ok ())
    (nodup : (pre.map (·.tag)).Nodup) (plain : ∀ g ∈ pre, PlainDefined tr b g)
    (hdup : f.tag ∈ pre.map (·.tag)) :
    validatePipeline tr app s mt m = .error (.reject ⟨13, some f.tag⟩) := by
  have h1 : validateMsgType app mt = .ok () := by simp [validateMsgType, bdef]
  have h2 : validateRequired tr app mt m = .ok () := by
    simp only [validateRequired, hdef, bdef, tdef, bind, Except.bind]
    rw [requiredFieldMap_ok reqH, requiredFieldMap_ok reqB, requiredFieldMap_ok reqT]
  have h3 : validateFieldContent m s.checkHaveValues s.checkOrder = .ok () :=
    validateFieldContent_ok m _ _ sectioned (values.valuesOK _)
  have h4 : validateFields tr app s m.fields = .ok () := validateFields_ok typed
  have hdefd : (defFor tr b f.tag).isSome = true := by
    simp only [defFor]
    split
    · simp [hdef]
    · split
      · simp [tdef]
      · simp
  have h5 : validateWalk tr app s mt m = .error (.reject ⟨13, some f.tag⟩) := by
    simp only [validateWalk, bdef]
    rw [hfs]
    apply walkLoop_duplicate
    · have := C15_walk_fuel m
      rw [hfs] at this
      simp only [List.length_append, List.length_cons] at this
      have h6 : walkFuel m = walkFuel { m with fields := pre ++ f :: post } := by rw [← hfs]
      omega
    · exact nodup
    · intro g _; simp
    · exact plain
    · exact Or.inr hdup
    · exact hdefd
  simp only [validatePipeline, bind, Except.bind, h1, h2, h3, h4, h5, hri]
  simp

/-- RejectInvalidMessage off: the verdict is decided by the first three rules only (types, enums, walk are not consulted) -/
theorem C15_relaxed_reject_invalid (tr app : VDict) (s : Settings) (mt : Bytes) (m : PMsg) (h : s.rejectInvalid = false) :
    validatePipeline tr app s mt m =
      (do validateMsgType app mt; validateRequired tr app mt m; validateFieldContent m s.checkHaveValues s.checkOrder) := by
  simp only [validatePipeline, h, bind, Except.bind]
  cases validateMsgType app mt <;> simp
  cases validateRequired tr app mt m <;> simp
  cases validateFieldContent m s.checkHaveValues s.checkOrder <;> simp [pure, Except.pure]

/-- CheckFieldsHaveValues and CheckFieldsOutOfOrder both off: validateFieldContent passes anything -/
theorem C15_relaxed_content (m : PMsg) : validateFieldContent m false false = .ok () := by
  simp [validateFieldContent]

/-- non-vacuity: a (tiny) dictionary and message satisfying `C15_ConformingFlat`, accepted by `decide`-free evaluation -/
def C15_exDict : VDict :=
  { msg? := fun mt => if mt = [48] then some (newMessageDef [.fld (.mk 112 false [] [])]) else none
    header := some (newMessageDef [.fld (.mk 8 true [] []), .fld (.mk 35 true [] [])])
    trailer := some (newMessageDef [.fld (.mk 10 true [] [])])
    ftype := fun t => if t = 8 ∨ t = 35 ∨ t = 10 ∨ t = 112 then some { proto := some .str, enums := [] } else none }

def C15_exMsg : PMsg :=
  { fields := [⟨8, [70]⟩, ⟨35, [48]⟩, ⟨112, [65]⟩, ⟨10, [48]⟩], hdr := [8, 35], body := [112], trl := [10] }

/-- Bool observer of a verdict (so that closed examples are `decide`d) -/
def C15_verdictIs (v : V Unit) (o : Option Reject) : Bool :=
  match v, o with
  | .ok _, none => true
  | .error (.reject r), some r' => r == r'
  | _, _ => false

example : C15_verdictIs (validate C15_exDict none defaultSettings C15_exMsg) none = true := by decide
example : C15_verdictIs (validate C15_exDict none defaultSettings
    { C15_exMsg with fields := [⟨8, [70]⟩, ⟨35, [48]⟩, ⟨112, []⟩, ⟨10, [48]⟩] }) (some ⟨4, some 112⟩) = true := by decide
example : C15_verdictIs (validate C15_exDict none defaultSettings
    { C15_exMsg with fields := [⟨8, [70]⟩, ⟨35, [48]⟩, ⟨112, [65]⟩, ⟨112, [65]⟩, ⟨10, [48]⟩] }) (some ⟨13, some 112⟩) = true := by decide

/-! ### the unchanged tree: decided witnesses for the three validator defects fixed by `fix:` commits -/

def C15_isOk {α} : V α → Bool | .ok _ => true | _ => false
def C15_isRej {α} (v : V α) (r : Reject) : Bool := match v with | .error (.reject r') => r' == r | _ => false

def C15_wDict : VDict :=
  { msg? := fun _ => none, header := none, trailer := none
    ftype := fun t => if t = 18 then some { proto := some .str, enums := [[73], [84]], multi := true }
                      else if t = 35 then some { proto := some .str, enums := [[48]] } else none }

/-- D13: `18=I T` with `I` and `T` declared — rejected (5, 18) by the original check, accepted by the fixed one -/
theorem C15_multiple_value_orig_witness :
    C15_isRej (validateFieldOrig C15_wDict defaultSettings ⟨18, [73, 32, 84]⟩) ⟨5, some 18⟩ = true ∧
    C15_isOk (validateField C15_wDict defaultSettings ⟨18, [73, 32, 84]⟩) = true ∧
    C15_isRej (validateField C15_wDict defaultSettings ⟨18, [73, 32, 88]⟩) ⟨5, some 18⟩ = true := by decide

/-- MsgType `BR` not in the transport enumeration: rejected (5, 35) by the original per-field stage, skipped by the fixed one -/
theorem C15_msgtype_enum_orig_witness :
    C15_isRej (validateFieldsOrig C15_wDict C15_wDict defaultSettings [⟨35, [66, 82]⟩]) ⟨5, some 35⟩ = true ∧
    C15_isOk (validateFields C15_wDict C15_wDict defaultSettings [⟨35, [66, 82]⟩]) = true := by decide

/-- group 73 with members 11 (delimiter) and 6, both required -/
def C15_wGroup : FDef := .mk 73 false [.mk 11 true [] [], .mk 6 true [] []] [11, 6]

/-- `73=2 | 11=a | 11=b 6=c | 10=x`: member 6 missing at the end of the FIRST entry — accepted by the original walk,
    named (1, 6) by the fixed one -/
theorem C15_group_tail_orig_witness :
    C15_isOk (visitFieldOrig 20 C15_wGroup [⟨73, [50]⟩, ⟨11, [97]⟩, ⟨11, [98]⟩, ⟨6, [99]⟩, ⟨10, [120]⟩]) = true ∧
    C15_isRej (visitField 20 C15_wGroup [⟨73, [50]⟩, ⟨11, [97]⟩, ⟨11, [98]⟩, ⟨6, [99]⟩, ⟨10, [120]⟩]) ⟨1, some 6⟩ = true := by
  decide

/-- NOT proved (monitor + correspondence only): the CheckFieldsHaveValues route names the FIRST empty field even when
    RejectInvalidMessage is off -/
def C15_defect_empty_value_content_full : Prop :=
  ∀ (m : PMsg) (ord : Bool) (pre post : List TV) (f : TV), m.fields = pre ++ f :: post → Sectioned m.fields →
    AllValues pre → f.value = [] → validateFieldContent m true ord = .error (.reject ⟨4, some f.tag⟩)
