import Qfx.Spec.Validate
open Qfx Qfx.Dict Qfx.Validate

/-- an unknown MsgType is named with reason 11 whatever the settings and the rest of the message (FIX 4.x validator) -/
theorem C15_defect_unknown_msgtype (app : VDict) (s : Settings) (m : PMsg) (mt : Bytes)
    (h35 : 35 ∈ m.hdr) (hmt : m.msgType = some mt) (hunk : app.msg? mt = none) :
    validate app none s m = .error (.reject ⟨11, none⟩) := by
  simp [validate, h35, hmt, validatePipeline, validateMsgType, hunk, bind, Except.bind]
