/-
  C15 — validation accepts conforming messages and names the defect otherwise.

  Theorems about the validator model `Qfx.Validate.validate` (mirror of validation.go), for EVERY dictionary view
  `VDict`, every parsed message and all 2^5 settings (no sampling).  `tr`/`app` are the transport / application
  dictionaries of `validatePipeline` (FIX 4.x: both the same dictionary; FIXT: admin types use the transport one twice).

  Clause checklist (statement of C15 → theorem):
    accepts conforming                 C15_accepts (+ _fix, _fixt, _sections): instance trees WITH repeating groups (`Inst`, `InstOK`,
                                       `EntryOK` of Spec/ValidateTree.lean), nested groups included, with validateWalk's own budget
                                       `walkFuel` shown adequate for dictionaries whose member lists are shorter than 3998
                                       (`fd.maxWidth + 3 ≤ 4000`; the walk of an instance needs ≤ wire fields × (maxWidth + 3) fuel);
                                       core lemma C15_visit_conforming (explicit fuel) / C15_visit_conforming_ex, C15_walk_conforming;
                                       group-free special case C15_accepts_flat (+ _fix, _fixt)
    unknown msg type                   C15_defect_unknown_msgtype, C15_defect_unknown_msgtype_fixt
    required missing (top level)       C15_defect_required_missing_body, C15_defect_required_missing_header
    required missing (in group entry)  C15_defect_group_required_missing (visitField level: mid-entry, end of a non-last entry — the
                                       `fix:` — and end of the last entry), C15_defect_group_required_missing_pipeline (top-level group);
                                       something must follow the entry (`es2 ≠ [] ∨ rest ≠ []`): when the field list ends right after
                                       the incomplete last entry the loop — Go's `for len(fieldStack) > 0` as well — ends silently;
                                       on a parsed message the trailer always follows
    tag not in dictionary              C15_defect_not_in_dictionary (+ C15_relaxed_not_in_dictionary)
    empty value                        C15_defect_empty_value (RejectInvalidMessage route); CheckFieldsHaveValues route:
                                       C15_defect_empty_value_content (first empty field), C15_defect_empty_value_pipeline
    bad enum / bad format              C15_defect_bad_enum, C15_defect_bad_format
    duplicate tag                      C15_defect_duplicate_tag
    tag not defined for type           C15_defect_not_defined_for_type_walk, C15_defect_not_defined_for_type (pipeline; plain prefix),
                                       C15_relaxed_not_defined_for_type
    group count mismatch               C15_defect_group_count (16), C15_defect_group_count_unreadable (6), C15_defect_group_count_pipeline
    member out of order                C15_defect_member_order: TOP-LEVEL group, two adjacent PLAIN members of an entry swapped
                                       (`EntrySwapped`; the delimiter is not one of them), displaced tag < 5000 and not a top-level
                                       field of its section, unknown fields not tolerated ⇒ reject with reason 1, 16 or 2 (⊆ the
                                       spec's {15,14,16,1,2}).  Nested groups and swaps involving the delimiter: monitor only
    header/body/trailer order          C15_defect_section_order, C15_defect_section_order_pipeline, C15_defect_section_order_behind_trailer,
                                       C15_orig_accepts_body_behind_trailer (witness for the repaired defect)
    settings that relax                C15_relaxed_reject_invalid, C15_relaxed_content, C15_relaxed_not_in_dictionary,
                                       C15_relaxed_not_defined_for_type
    generic                            C15_pipeline_to_walk (stages before the walk), C15_defect_walk_first (first failing top-level field)
  Statements differ from the informal ones in: the field after an instance must be outside the definition's MEMBER tags
  (`HeadNotIn fd.childTags`, weaker than `∉ fd.allTags`); fuel bounds are explicit, never existential, in the pipeline theorems.
-/
import Qfx.Lemmas.ValidateGroups
open Qfx Qfx.Dict Qfx.Validate

/-- what a conforming message without repeating groups is, for the pipeline over (`tr`, `app`) -/
structure C15_ConformingFlat (tr app : VDict) (m : PMsg) (mt : Bytes) (h b t : MDef) : Prop where
  hdef : tr.header = some h
  bdef : app.msg? mt = some b
  tdef : tr.trailer = some t
  reqH : ∀ x ∈ h.reqTags, x ∈ m.hdr
  reqB : ∀ x ∈ b.reqTags, x ∈ m.body
  reqT : ∀ x ∈ t.reqTags, x ∈ m.trl
  sectioned : Sectioned m.fields
  values : AllValues m.fields
  nodup : (m.fields.map (·.tag)).Nodup
  typed : ∀ f ∈ m.fields, ∃ ft p, (if isHeaderTag f.tag || isTrailerTag f.tag then tr else app).ftype f.tag = some ft ∧
            (ft.enums = [] ∨ f.value ∈ ft.enums) ∧ ft.proto = some p ∧ protoReads p f.value = true
  plain : ∀ f ∈ m.fields, PlainDefined tr b f

theorem C15_walk_fuel (m : PMsg) : m.fields.length + 2 < walkFuel m := by
  unfold walkFuel; omega

/-- the three dictionary-independent stages and the per-field stage pass on a conforming flat message -/
theorem C15_accepts_flat (tr app : VDict) (s : Settings) (m : PMsg) (mt : Bytes) (h b t : MDef)
    (c : C15_ConformingFlat tr app m mt h b t) : validatePipeline tr app s mt m = .ok () := by
  have h1 : validateMsgType app mt = .ok () := by simp [validateMsgType, c.bdef]
  have h2 : validateRequired tr app mt m = .ok () := by
    simp only [validateRequired, c.hdef, c.bdef, c.tdef, bind, Except.bind]
    rw [requiredFieldMap_ok c.reqH, requiredFieldMap_ok c.reqB, requiredFieldMap_ok c.reqT]
  have h3 : validateFieldContent m s.checkHaveValues s.checkOrder = .ok () :=
    validateFieldContent_ok m _ _ c.sectioned (c.values.valuesOK _)
  have h4 : validateFields tr app s m.fields = .ok () := by
    apply validateFields_ok
    intro f hf _
    obtain ⟨ft, p, hd, he, hp, hr⟩ := c.typed f hf
    have hv : f.value ≠ [] := by
      have := c.values f hf
      intro e; simp [e] at this
    exact validateField_ok _ s f ft p hv hd he hp hr
  have h5 : validateWalk tr app s mt m = .ok () := by
    simp only [validateWalk, c.bdef]
    apply walkLoop_flat
    · have := C15_walk_fuel m; omega
    · exact c.nodup
    · intro f _; simp
    · exact c.plain
  simp only [validatePipeline, bind, Except.bind, h1, h2, h3, h4, h5]
  cases s.rejectInvalid <;> simp [pure, Except.pure]

/-- FIX 4.x validator (`NewValidator(settings, dd, nil)`) accepts every conforming flat message under all settings -/
theorem C15_accepts_flat_fix (d : VDict) (s : Settings) (m : PMsg) (mt : Bytes) (h b t : MDef)
    (h35 : 35 ∈ m.hdr) (hmt : m.msgType = some mt) (c : C15_ConformingFlat d d m mt h b t) :
    validate d none s m = .ok () := by
  simp [validate, h35, hmt, C15_accepts_flat d d s m mt h b t c]

/-- FIXT validator on an application message -/
theorem C15_accepts_flat_fixt (app tr : VDict) (s : Settings) (m : PMsg) (mt : Bytes) (h b t : MDef)
    (h35 : 35 ∈ m.hdr) (hmt : m.msgType = some mt) (hadm : isAdminMsgType mt = false)
    (c : C15_ConformingFlat tr app m mt h b t) :
    validate app (some tr) s m = .ok () := by
  simp [validate, h35, hmt, hadm, C15_accepts_flat tr app s m mt h b t c]

/-- an unknown MsgType is named with reason 11 whatever the settings and the rest of the message (FIX 4.x validator) -/
theorem C15_defect_unknown_msgtype (app : VDict) (s : Settings) (m : PMsg) (mt : Bytes)
    (h35 : 35 ∈ m.hdr) (hmt : m.msgType = some mt) (hunk : app.msg? mt = none) :
    validate app none s m = .error (.reject ⟨11, none⟩) := by
  simp [validate, h35, hmt, validatePipeline, validateMsgType, hunk, bind, Except.bind]

/-- … and by the FIXT validator for a non-admin type unknown to the application dictionary -/
theorem C15_defect_unknown_msgtype_fixt (app tr : VDict) (s : Settings) (m : PMsg) (mt : Bytes)
    (h35 : 35 ∈ m.hdr) (hmt : m.msgType = some mt) (hadm : isAdminMsgType mt = false) (hunk : app.msg? mt = none) :
    validate app (some tr) s m = .error (.reject ⟨11, none⟩) := by
  simp [validate, h35, hmt, hadm, validatePipeline, validateMsgType, hunk, bind, Except.bind]

/-- the result is one of the expected identifications of the planted kind -/
theorem C15_unknown_msgtype_expected (t : Nat) : expected .unknownMsgType t ⟨11, none⟩ = true := by
  simp [expected]

/-- a single required body tag missing from the Body map is named (reason 1, that tag), under all settings -/
theorem C15_defect_required_missing_body (tr app : VDict) (s : Settings) (m : PMsg) (mt : Bytes) (h b t : MDef) (x : Nat)
    (hdef : tr.header = some h) (bdef : app.msg? mt = some b) (tdef : tr.trailer = some t)
    (reqH : ∀ y ∈ h.reqTags, y ∈ m.hdr)
    (hx : x ∈ b.reqTags) (hmiss : x ∉ m.body) (honly : ∀ y ∈ b.reqTags, y ≠ x → y ∈ m.body) :
    validatePipeline tr app s mt m = .error (.reject ⟨1, some x⟩) := by
  have h1 : validateMsgType app mt = .ok () := by simp [validateMsgType, bdef]
  have h2 : validateRequired tr app mt m = .error (.reject ⟨1, some x⟩) := by
    simp only [validateRequired, hdef, bdef, tdef, bind, Except.bind]
    rw [requiredFieldMap_ok reqH, requiredFieldMap_single hx hmiss honly]
  simp only [validatePipeline, bind, Except.bind, h1, h2]

/-- a single required header tag missing from the Header map is named -/
theorem C15_defect_required_missing_header (tr app : VDict) (s : Settings) (m : PMsg) (mt : Bytes) (h b t : MDef) (x : Nat)
    (hdef : tr.header = some h) (bdef : app.msg? mt = some b) (tdef : tr.trailer = some t)
    (hx : x ∈ h.reqTags) (hmiss : x ∉ m.hdr) (honly : ∀ y ∈ h.reqTags, y ≠ x → y ∈ m.hdr) :
    validatePipeline tr app s mt m = .error (.reject ⟨1, some x⟩) := by
  have h1 : validateMsgType app mt = .ok () := by simp [validateMsgType, bdef]
  have h2 : validateRequired tr app mt m = .error (.reject ⟨1, some x⟩) := by
    simp only [validateRequired, hdef, bdef, tdef, bind, Except.bind]
    rw [requiredFieldMap_single hx hmiss honly]
  simp only [validatePipeline, bind, Except.bind, h1, h2]

/--
  Field-level defects: the message is as a conforming flat one up to the per-field stage, its fields are
  `pre ++ f :: post`, everything in `pre` is well-typed and `f` fails `validateField` with `e`: then, with
  RejectInvalidMessage on, the verdict is exactly `e`.
-/
theorem C15_defect_field (tr app : VDict) (s : Settings) (m : PMsg) (mt : Bytes) (h b t : MDef)
    (pre post : List TV) (f : TV) (e : Stop)
    (hdef : tr.header = some h) (bdef : app.msg? mt = some b) (tdef : tr.trailer = some t)
    (reqH : ∀ x ∈ h.reqTags, x ∈ m.hdr) (reqB : ∀ x ∈ b.reqTags, x ∈ m.body) (reqT : ∀ x ∈ t.reqTags, x ∈ m.trl)
    (sectioned : Sectioned m.fields) (values : ValuesOK s.checkHaveValues m.fields)
    (hri : s.rejectInvalid = true) (hfs : m.fields = pre ++ f :: post)
    (hpre : ∀ g ∈ pre, g.tag ≠ 35 → validateField (if isHeaderTag g.tag || isTrailerTag g.tag then tr else app) s g = .ok ())
    (h35 : f.tag ≠ 35)
    (hf : validateField (if isHeaderTag f.tag || isTrailerTag f.tag then tr else app) s f = .error e) :
    validatePipeline tr app s mt m = .error e := by
  have h1 : validateMsgType app mt = .ok () := by simp [validateMsgType, bdef]
  have h2 : validateRequired tr app mt m = .ok () := by
    simp only [validateRequired, hdef, bdef, tdef, bind, Except.bind]
    rw [requiredFieldMap_ok reqH, requiredFieldMap_ok reqB, requiredFieldMap_ok reqT]
  have h3 : validateFieldContent m s.checkHaveValues s.checkOrder = .ok () :=
    validateFieldContent_ok m _ _ sectioned values
  have h4 : validateFields tr app s m.fields = .error e := by
    rw [hfs]; exact validateFields_first hpre h35 hf
  simp only [validatePipeline, bind, Except.bind, h1, h2, h3, h4, hri]
  simp

/-- a value outside the declared enumeration is named: reason 5, that tag -/
theorem C15_defect_bad_enum (d : VDict) (s : Settings) (f : TV) (ft : FType) (hv : f.value ≠ [])
    (hd : d.ftype f.tag = some ft) (hne : ft.enums ≠ []) (hnot : f.value ∉ ft.enums)
    (htok : ft.multi = false ∨ ∃ tok ∈ splitOn32 f.value [], tok ∉ ft.enums) :
    validateField d s f = .error (.reject ⟨5, some f.tag⟩) ∧ expected .badEnum f.tag ⟨5, some f.tag⟩ = true :=
  ⟨validateField_bad_enum d s f ft hv hd hne hnot htok, by simp [expected]⟩

/-- a value not in the declared type's grammar is named: reason 6, that tag -/
theorem C15_defect_bad_format (d : VDict) (s : Settings) (f : TV) (ft : FType) (p : Proto) (hv : f.value ≠ [])
    (hd : d.ftype f.tag = some ft) (henum : ft.enums = [] ∨ f.value ∈ ft.enums)
    (hp : ft.proto = some p) (hbad : protoReads p f.value = false) :
    validateField d s f = .error (.reject ⟨6, some f.tag⟩) ∧ expected .badFormat f.tag ⟨6, some f.tag⟩ = true :=
  ⟨validateField_bad_format d s f ft p hv hd henum hp hbad, by simp [expected]⟩

/-- a tag unknown to the dictionary is named (reason 0) exactly when the settings do not tolerate it -/
theorem C15_defect_not_in_dictionary (d : VDict) (s : Settings) (f : TV) (hv : f.value ≠ [])
    (hu : d.ftype f.tag = none) (hs : undefinedTolerated s f.tag = false) :
    validateField d s f = .error (.reject ⟨0, some f.tag⟩) ∧ expected .notInDictionary f.tag ⟨0, some f.tag⟩ = true :=
  ⟨validateField_undefined d s f hv hu (by simpa [undefinedTolerated, checkFieldNotDefined] using hs), by simp [expected]⟩

theorem C15_relaxed_not_in_dictionary (d : VDict) (s : Settings) (f : TV) (hv : f.value ≠ [])
    (hu : d.ftype f.tag = none) (hs : undefinedTolerated s f.tag = true) :
    validateField d s f = .ok () :=
  validateField_undefined_tolerated d s f hv hu (by simpa [undefinedTolerated, checkFieldNotDefined] using hs)

/-- an empty value is named by the per-field stage: reason 4, that tag -/
theorem C15_defect_empty_value (d : VDict) (s : Settings) (f : TV) (h : f.value = []) :
    validateField d s f = .error (.reject ⟨4, some f.tag⟩) ∧ expected .emptyValue f.tag ⟨4, some f.tag⟩ = true :=
  ⟨validateField_empty d s f h, by simp [expected]⟩

/-- a repeated top-level tag is named: reason 13, that tag (group-free prefix, RejectInvalidMessage on) -/
theorem C15_defect_duplicate_tag (tr app : VDict) (s : Settings) (m : PMsg) (mt : Bytes) (h b t : MDef)
    (pre post : List TV) (f : TV)
    (hdef : tr.header = some h) (bdef : app.msg? mt = some b) (tdef : tr.trailer = some t)
    (reqH : ∀ x ∈ h.reqTags, x ∈ m.hdr) (reqB : ∀ x ∈ b.reqTags, x ∈ m.body) (reqT : ∀ x ∈ t.reqTags, x ∈ m.trl)
    (sectioned : Sectioned m.fields) (values : AllValues m.fields)
    (hri : s.rejectInvalid = true) (hfs : m.fields = pre ++ f :: post)
    (typed : ∀ g ∈ m.fields, g.tag ≠ 35 → validateField (if isHeaderTag g.tag || isTrailerTag g.tag then tr else app) s g = .ok ())
    (nodup : (pre.map (·.tag)).Nodup) (plain : ∀ g ∈ pre, PlainDefined tr b g)
    (hdup : f.tag ∈ pre.map (·.tag)) :
    validatePipeline tr app s mt m = .error (.reject ⟨13, some f.tag⟩) := by
  have h1 : validateMsgType app mt = .ok () := by simp [validateMsgType, bdef]
  have h2 : validateRequired tr app mt m = .ok () := by
    simp only [validateRequired, hdef, bdef, tdef, bind, Except.bind]
    rw [requiredFieldMap_ok reqH, requiredFieldMap_ok reqB, requiredFieldMap_ok reqT]
  have h3 : validateFieldContent m s.checkHaveValues s.checkOrder = .ok () :=
    validateFieldContent_ok m _ _ sectioned (values.valuesOK _)
  have h4 : validateFields tr app s m.fields = .ok () := validateFields_ok typed
  have hdefd : (defFor tr b f.tag).isSome = true := by
    simp only [defFor]
    split
    · simp [hdef]
    · split
      · simp [tdef]
      · simp
  have h5 : validateWalk tr app s mt m = .error (.reject ⟨13, some f.tag⟩) := by
    simp only [validateWalk, bdef]
    rw [hfs]
    apply walkLoop_duplicate
    · have := C15_walk_fuel m
      rw [hfs] at this
      simp only [List.length_append, List.length_cons] at this
      have h6 : walkFuel m = walkFuel { m with fields := pre ++ f :: post } := by rw [← hfs]
      omega
    · exact nodup
    · intro g _; simp
    · exact plain
    · exact Or.inr hdup
    · exact hdefd
  simp only [validatePipeline, bind, Except.bind, h1, h2, h3, h4, h5, hri]
  simp

/-- RejectInvalidMessage off: the verdict is decided by the first three rules only (types, enums, walk are not consulted) -/
theorem C15_relaxed_reject_invalid (tr app : VDict) (s : Settings) (mt : Bytes) (m : PMsg) (h : s.rejectInvalid = false) :
    validatePipeline tr app s mt m =
      (do validateMsgType app mt; validateRequired tr app mt m; validateFieldContent m s.checkHaveValues s.checkOrder) := by
  simp only [validatePipeline, h, bind, Except.bind]
  cases validateMsgType app mt <;> simp
  cases validateRequired tr app mt m <;> simp
  cases validateFieldContent m s.checkHaveValues s.checkOrder <;> simp [pure, Except.pure]

/-- CheckFieldsHaveValues and CheckFieldsOutOfOrder both off: validateFieldContent passes anything -/
theorem C15_relaxed_content (m : PMsg) : validateFieldContent m false false = .ok () := by
  simp [validateFieldContent]

/-- non-vacuity: a (tiny) dictionary and message satisfying `C15_ConformingFlat`, accepted by `decide`-free evaluation -/
def C15_exDict : VDict :=
  { msg? := fun mt => if mt = [48] then some (newMessageDef [.fld (.mk 112 false [] [])]) else none
    header := some (newMessageDef [.fld (.mk 8 true [] []), .fld (.mk 35 true [] [])])
    trailer := some (newMessageDef [.fld (.mk 10 true [] [])])
    ftype := fun t => if t = 8 ∨ t = 35 ∨ t = 10 ∨ t = 112 then some { proto := some .str, enums := [] } else none }

def C15_exMsg : PMsg :=
  { fields := [⟨8, [70]⟩, ⟨35, [48]⟩, ⟨112, [65]⟩, ⟨10, [48]⟩], hdr := [8, 35], body := [112], trl := [10] }

/-- Bool observer of a verdict (so that closed examples are `decide`d) -/
def C15_verdictIs (v : V Unit) (o : Option Reject) : Bool :=
  match v, o with
  | .ok _, none => true
  | .error (.reject r), some r' => r == r'
  | _, _ => false

example : C15_verdictIs (validate C15_exDict none defaultSettings C15_exMsg) none = true := by decide
example : C15_verdictIs (validate C15_exDict none defaultSettings
    { C15_exMsg with fields := [⟨8, [70]⟩, ⟨35, [48]⟩, ⟨112, []⟩, ⟨10, [48]⟩] }) (some ⟨4, some 112⟩) = true := by decide
example : C15_verdictIs (validate C15_exDict none defaultSettings
    { C15_exMsg with fields := [⟨8, [70]⟩, ⟨35, [48]⟩, ⟨112, [65]⟩, ⟨112, [65]⟩, ⟨10, [48]⟩] }) (some ⟨13, some 112⟩) = true := by decide

/-! ### the unchanged tree: decided witnesses for the three validator defects fixed by `fix:` commits -/

def C15_isOk {α} : V α → Bool | .ok _ => true | _ => false
def C15_isRej {α} (v : V α) (r : Reject) : Bool := match v with | .error (.reject r') => r' == r | _ => false

def C15_wDict : VDict :=
  { msg? := fun _ => none, header := none, trailer := none
    ftype := fun t => if t = 18 then some { proto := some .str, enums := [[73], [84]], multi := true }
                      else if t = 35 then some { proto := some .str, enums := [[48]] } else none }

/-- D13: `18=I T` with `I` and `T` declared — rejected (5, 18) by the original check, accepted by the fixed one -/
theorem C15_multiple_value_orig_witness :
    C15_isRej (validateFieldOrig C15_wDict defaultSettings ⟨18, [73, 32, 84]⟩) ⟨5, some 18⟩ = true ∧
    C15_isOk (validateField C15_wDict defaultSettings ⟨18, [73, 32, 84]⟩) = true ∧
    C15_isRej (validateField C15_wDict defaultSettings ⟨18, [73, 32, 88]⟩) ⟨5, some 18⟩ = true := by decide

/-- MsgType `BR` not in the transport enumeration: rejected (5, 35) by the original per-field stage, skipped by the fixed one -/
theorem C15_msgtype_enum_orig_witness :
    C15_isRej (validateFieldsOrig C15_wDict C15_wDict defaultSettings [⟨35, [66, 82]⟩]) ⟨5, some 35⟩ = true ∧
    C15_isOk (validateFields C15_wDict C15_wDict defaultSettings [⟨35, [66, 82]⟩]) = true := by decide

/-- group 73 with members 11 (delimiter) and 6, both required -/
def C15_wGroup : FDef := .mk 73 false [.mk 11 true [] [], .mk 6 true [] []] [11, 6]

/-- `73=2 | 11=a | 11=b 6=c | 10=x`: member 6 missing at the end of the FIRST entry — accepted by the original walk,
    named (1, 6) by the fixed one -/
theorem C15_group_tail_orig_witness :
    C15_isOk (visitFieldOrig 20 C15_wGroup [⟨73, [50]⟩, ⟨11, [97]⟩, ⟨11, [98]⟩, ⟨6, [99]⟩, ⟨10, [120]⟩]) = true ∧
    C15_isRej (visitField 20 C15_wGroup [⟨73, [50]⟩, ⟨11, [97]⟩, ⟨11, [98]⟩, ⟨6, [99]⟩, ⟨10, [120]⟩]) ⟨1, some 6⟩ = true := by
  decide

/-! ### validateFieldContent: the CheckFieldsHaveValues and CheckFieldsOutOfOrder routes -/

/-- the CheckFieldsHaveValues route names the FIRST empty field (whatever RejectInvalidMessage says) -/
theorem C15_defect_empty_value_content :
    ∀ (m : PMsg) (ord : Bool) (pre post : List TV) (f : TV), m.fields = pre ++ f :: post → Sectioned m.fields →
      AllValues pre → f.value = [] → validateFieldContent m true ord = .error (.reject ⟨4, some f.tag⟩) := by
  intro m ord pre post f hfs hs hval he
  rw [hfs] at hs
  simp only [validateFieldContent, Bool.not_true, Bool.false_and, Bool.false_eq_true, if_false, hfs]
  exact contentLoop_first_empty ord pre post f hs hval he

/-- … and so does the whole pipeline, RejectInvalidMessage on or off -/
theorem C15_defect_empty_value_pipeline (tr app : VDict) (s : Settings) (m : PMsg) (mt : Bytes) (h b t : MDef)
    (pre post : List TV) (f : TV)
    (hdef : tr.header = some h) (bdef : app.msg? mt = some b) (tdef : tr.trailer = some t)
    (reqH : ∀ x ∈ h.reqTags, x ∈ m.hdr) (reqB : ∀ x ∈ b.reqTags, x ∈ m.body) (reqT : ∀ x ∈ t.reqTags, x ∈ m.trl)
    (hfs : m.fields = pre ++ f :: post) (sectioned : Sectioned m.fields) (hval : AllValues pre) (he : f.value = [])
    (hchk : s.checkHaveValues = true) :
    validatePipeline tr app s mt m = .error (.reject ⟨4, some f.tag⟩) ∧
      checks .emptyValue f.tag s = true ∧ expected .emptyValue f.tag ⟨4, some f.tag⟩ = true := by
  have h1 : validateMsgType app mt = .ok () := by simp [validateMsgType, bdef]
  have h2 : validateRequired tr app mt m = .ok () := by
    simp only [validateRequired, hdef, bdef, tdef, bind, Except.bind]
    rw [requiredFieldMap_ok reqH, requiredFieldMap_ok reqB, requiredFieldMap_ok reqT]
  have h3 := C15_defect_empty_value_content m s.checkOrder pre post f hfs sectioned hval he
  refine ⟨?_, by simp [checks, hchk], by simp [expected]⟩
  simp only [validatePipeline, bind, Except.bind, h1, h2, hchk, h3]

/-- a header tag after the body has begun is named: reason 14, that tag (CheckFieldsOutOfOrder on) -/
theorem C15_defect_section_order (m : PMsg) (hv : Bool) (h b₁ rest : List TV) (x : TV)
    (hfs : m.fields = h ++ b₁ ++ [x] ++ rest) (hne : b₁ ≠ [])
    (hh : ∀ f ∈ h, isHeaderTag f.tag = true)
    (hb : ∀ f ∈ b₁, isHeaderTag f.tag = false ∧ isTrailerTag f.tag = false)
    (hx : isHeaderTag x.tag = true) (hval : AllValues (h ++ b₁ ++ [x])) :
    validateFieldContent m hv true = .error (.reject ⟨14, some x.tag⟩) := by
  have e : m.fields = h ++ (b₁ ++ x :: rest) := by rw [hfs]; simp
  have hval' : ValuesOK hv (h ++ (b₁ ++ [x])) := by
    have := hval.valuesOK hv
    simpa using this
  simp only [validateFieldContent, Bool.not_true, Bool.and_false, Bool.false_eq_true, if_false, e]
  exact contentLoop_section_order hv h b₁ rest x hne hval' hh hb hx


/-- a body field behind a trailer field is named: reason 14, that tag (CheckFieldsOutOfOrder on) — also when no body field
    precedes the trailer field (the case the original loop let through, see the witness below) -/
theorem C15_defect_section_order_behind_trailer (m : PMsg) (hv : Bool) (h b t rest : List TV) (t₁ x : TV)
    (hfs : m.fields = h ++ b ++ (t₁ :: t) ++ [x] ++ rest)
    (hh : ∀ f ∈ h, isHeaderTag f.tag = true)
    (hb : ∀ f ∈ b, isHeaderTag f.tag = false ∧ isTrailerTag f.tag = false)
    (ht₁ : isTrailerTag t₁.tag = true) (ht : ∀ f ∈ t, isTrailerTag f.tag = true)
    (hx : isHeaderTag x.tag = false ∧ isTrailerTag x.tag = false) (hval : AllValues (h ++ b ++ (t₁ :: t) ++ [x])) :
    validateFieldContent m hv true = .error (.reject ⟨14, some x.tag⟩) := by
  have e : m.fields = h ++ (b ++ (t₁ :: t ++ x :: rest)) := by rw [hfs]; simp
  have hval' : ValuesOK hv (h ++ (b ++ (t₁ :: t ++ [x]))) := by
    have := hval.valuesOK hv
    simpa using this
  simp only [validateFieldContent, Bool.not_true, Bool.and_false, Bool.false_eq_true, if_false, e]
  exact contentLoop_behind_trailer hv h b t rest t₁ x hval' hh hb ht₁ ht hx

/-- the loop before the `fix:` accepted `8 9 35 | 89 | 36 | 10`: a trailer field directly behind the header did not
    start the trailer, so the body field behind it went unnoticed -/
theorem C15_orig_accepts_body_behind_trailer :
    (fieldContentLoopOrig true true [⟨8, [70]⟩, ⟨9, [49]⟩, ⟨35, [52]⟩, ⟨89, [50]⟩, ⟨36, [51]⟩, ⟨10, [48]⟩] true false).toBool = true
    ∧ (fieldContentLoop true true [⟨8, [70]⟩, ⟨9, [49]⟩, ⟨35, [52]⟩, ⟨89, [50]⟩, ⟨36, [51]⟩, ⟨10, [48]⟩] true false).toBool = false := by
  decide

/-- … and by the whole pipeline when CheckFieldsOutOfOrder is on, RejectInvalidMessage on or off -/
theorem C15_defect_section_order_pipeline (tr app : VDict) (s : Settings) (m : PMsg) (mt : Bytes) (hd b t : MDef)
    (h b₁ rest : List TV) (x : TV)
    (hdef : tr.header = some hd) (bdef : app.msg? mt = some b) (tdef : tr.trailer = some t)
    (reqH : ∀ y ∈ hd.reqTags, y ∈ m.hdr) (reqB : ∀ y ∈ b.reqTags, y ∈ m.body) (reqT : ∀ y ∈ t.reqTags, y ∈ m.trl)
    (hfs : m.fields = h ++ b₁ ++ [x] ++ rest) (hne : b₁ ≠ [])
    (hh : ∀ f ∈ h, isHeaderTag f.tag = true)
    (hb : ∀ f ∈ b₁, isHeaderTag f.tag = false ∧ isTrailerTag f.tag = false)
    (hx : isHeaderTag x.tag = true) (hval : AllValues (h ++ b₁ ++ [x])) (hord : s.checkOrder = true) :
    validatePipeline tr app s mt m = .error (.reject ⟨14, some x.tag⟩) ∧
      checks .sectionOrder x.tag s = true ∧ expected .sectionOrder x.tag ⟨14, some x.tag⟩ = true := by
  have h1 : validateMsgType app mt = .ok () := by simp [validateMsgType, bdef]
  have h2 : validateRequired tr app mt m = .ok () := by
    simp only [validateRequired, hdef, bdef, tdef, bind, Except.bind]
    rw [requiredFieldMap_ok reqH, requiredFieldMap_ok reqB, requiredFieldMap_ok reqT]
  have h3 := C15_defect_section_order m s.checkHaveValues h b₁ rest x hfs hne hh hb hx hval
  refine ⟨?_, by simp [checks, hord], by simp [expected]⟩
  simp only [validatePipeline, bind, Except.bind, h1, h2, hord, h3]

/-! ### validateWalk: a tag the message type does not define -/

/-- the walk names a top-level tag its section's definition does not list: reason 2, that tag -/
theorem C15_defect_not_defined_for_type_walk (tr app : VDict) (s : Settings) (body : MDef) (pre post : List TV) (f : TV)
    (fuel : Nat) (md : MDef) (hf : pre.length + 2 ≤ fuel) (hnd : (pre.map (·.tag)).Nodup)
    (hnew : f.tag ∉ pre.map (·.tag)) (hplain : ∀ g ∈ pre, PlainDefined tr body g)
    (hd : defFor tr body f.tag = some md) (hu : md.field? f.tag = none) (hc : checkFieldNotDefined s f.tag = false) :
    walkLoop tr app s body fuel (pre ++ f :: post) [] = .error (.reject ⟨2, some f.tag⟩) :=
  walkLoop_not_defined tr app s body pre post f fuel md hf hnd hnew hplain hd hu hc

/-- the pipeline: everything before the walk passes, the prefix is plain ⇒ (2, that tag) -/
theorem C15_defect_not_defined_for_type (tr app : VDict) (s : Settings) (m : PMsg) (mt : Bytes) (h b t : MDef)
    (pre post : List TV) (f : TV) (md : MDef)
    (hdef : tr.header = some h) (bdef : app.msg? mt = some b) (tdef : tr.trailer = some t)
    (reqH : ∀ x ∈ h.reqTags, x ∈ m.hdr) (reqB : ∀ x ∈ b.reqTags, x ∈ m.body) (reqT : ∀ x ∈ t.reqTags, x ∈ m.trl)
    (sectioned : Sectioned m.fields) (values : AllValues m.fields)
    (hri : s.rejectInvalid = true) (hfs : m.fields = pre ++ f :: post)
    (typed : ∀ g ∈ m.fields, g.tag ≠ 35 → validateField (if isHeaderTag g.tag || isTrailerTag g.tag then tr else app) s g = .ok ())
    (nodup : (pre.map (·.tag)).Nodup) (hnew : f.tag ∉ pre.map (·.tag)) (plain : ∀ g ∈ pre, PlainDefined tr b g)
    (hd : defFor tr b f.tag = some md) (hu : md.field? f.tag = none) (hc : undefinedTolerated s f.tag = false) :
    validatePipeline tr app s mt m = .error (.reject ⟨2, some f.tag⟩) ∧
      checks .notDefinedForType f.tag s = true ∧ expected .notDefinedForType f.tag ⟨2, some f.tag⟩ = true := by
  have h1 : validateMsgType app mt = .ok () := by simp [validateMsgType, bdef]
  have h2 : validateRequired tr app mt m = .ok () := by
    simp only [validateRequired, hdef, bdef, tdef, bind, Except.bind]
    rw [requiredFieldMap_ok reqH, requiredFieldMap_ok reqB, requiredFieldMap_ok reqT]
  have h3 : validateFieldContent m s.checkHaveValues s.checkOrder = .ok () :=
    validateFieldContent_ok m _ _ sectioned (values.valuesOK _)
  have h4 : validateFields tr app s m.fields = .ok () := validateFields_ok typed
  have h5 : validateWalk tr app s mt m = .error (.reject ⟨2, some f.tag⟩) := by
    simp only [validateWalk, bdef]
    rw [hfs]
    apply walkLoop_not_defined tr app s b pre post f _ md ?_ nodup hnew plain hd hu
        (by simpa [undefinedTolerated, checkFieldNotDefined] using hc)
    have := C15_walk_fuel m
    have hl : m.fields.length = pre.length + (post.length + 1) := by rw [hfs]; simp
    omega
  refine ⟨?_, by simp [checks, hri, hc], by simp [expected]⟩
  simp only [validatePipeline, bind, Except.bind, h1, h2, h3, h4, h5, hri]
  simp

/-- settings that tolerate the undefined tag: the walk records it and goes on as it does after any other field -/
theorem C15_relaxed_not_defined_for_type (tr app : VDict) (s : Settings) (body : MDef) (fuel : Nat) (f : TV)
    (post : List TV) (seen : List Nat) (md : MDef) (hd : defFor tr body f.tag = some md) (hu : md.field? f.tag = none)
    (hns : f.tag ∉ seen) (hc : undefinedTolerated s f.tag = true) :
    walkLoop tr app s body (fuel + 1) (f :: post) seen = walkLoop tr app s body fuel post (f.tag :: seen) := by
  rw [walkLoop_undefined_step tr app s body fuel f post seen md hd hu hns]
  have : checkFieldNotDefined s f.tag = true := by simpa [undefinedTolerated, checkFieldNotDefined] using hc
  simp [this]

/-! ### repeating groups: instance trees (`Inst`), conformance (`InstOK` / `EntryOK`), the walk

  `K` bounds the member lists of the definition tree: `fd.maxWidth + 3 ≤ K`; the walk of an instance needs at most
  (number of its wire fields) × `K` units of fuel (call-chain depth).  validateWalk's budget `walkFuel m` is
  (number of wire fields + 2) × 4000 + 16, hence adequate for every dictionary whose member lists are shorter than 3998. -/

/-- a conforming instance is consumed exactly, under an explicit fuel bound; the field that follows only has to be
    outside the MEMBER tags of the definition (`childTags`; weaker than `∉ allTags`) -/
theorem C15_visit_conforming (K : Nat) (fd : FDef) (i : Inst) (rest : List TV) (fuel : Nat) (hok : InstOK fd i)
    (hw : fd.maxWidth + 3 ≤ K) (hnd : fd.TagsNodup) (hrest : HeadNotIn fd.childTags rest)
    (hf : i.wire.length * K ≤ fuel) : visitField fuel fd (i.wire ++ rest) = .ok rest :=
  visitField_conforming K fd i rest fuel hok hw hnd hrest hf

/-- the same, in the "enough fuel" form -/
theorem C15_visit_conforming_ex (fd : FDef) (i : Inst) (rest : List TV) (hok : InstOK fd i) (hnd : fd.TagsNodup)
    (hrest : rest = [] ∨ ∃ f r, rest = f :: r ∧ f.tag ∉ fd.allTags) :
    ∃ N, ∀ fuel, N ≤ fuel → visitField fuel fd (i.wire ++ rest) = .ok rest := by
  refine ⟨i.wire.length * (fd.maxWidth + 3), fun fuel hf =>
    visitField_conforming (fd.maxWidth + 3) fd i rest fuel hok (Nat.le_refl _) hnd ?_ hf⟩
  intro f r e hm
  rcases hrest with h | ⟨f', r', h, hn⟩
  · rw [h] at e; cases e
  · rw [h] at e
    simp only [List.cons.injEq] at e
    exact hn (by rw [e.1]; exact childTags_sub_allTags fd hm)

/-- the walk of a message made of conforming top-level instances (plain fields and groups, any section) passes -/
theorem C15_walk_conforming (tr app : VDict) (s : Settings) (body : MDef) (K : Nat) (items : List Inst) (fuel : Nat)
    (hok : WalkOK tr body K [] items) (hnd : (items.map Inst.tag).Nodup) (hf : (wireL items).length * K + 1 ≤ fuel) :
    walkLoop tr app s body fuel (wireL items) [] = .ok () :=
  walkLoop_conforming tr app s body K items fuel [] hok hnd (by simp) hf

/-- the stages before the walk pass: the verdict is the walk's (RejectInvalidMessage on) or acceptance (off) -/
theorem C15_pipeline_to_walk (tr app : VDict) (s : Settings) (m : PMsg) (mt : Bytes) (h b t : MDef)
    (hdef : tr.header = some h) (bdef : app.msg? mt = some b) (tdef : tr.trailer = some t)
    (reqH : ∀ x ∈ h.reqTags, x ∈ m.hdr) (reqB : ∀ x ∈ b.reqTags, x ∈ m.body) (reqT : ∀ x ∈ t.reqTags, x ∈ m.trl)
    (sectioned : Sectioned m.fields) (values : AllValues m.fields)
    (typed : ∀ g ∈ m.fields, g.tag ≠ 35 → validateField (if isHeaderTag g.tag || isTrailerTag g.tag then tr else app) s g = .ok ()) :
    validatePipeline tr app s mt m =
      if s.rejectInvalid then walkLoop tr app s b (walkFuel m) m.fields [] else .ok () := by
  have h1 : validateMsgType app mt = .ok () := by simp [validateMsgType, bdef]
  have h2 : validateRequired tr app mt m = .ok () := by
    simp only [validateRequired, hdef, bdef, tdef, bind, Except.bind]
    rw [requiredFieldMap_ok reqH, requiredFieldMap_ok reqB, requiredFieldMap_ok reqT]
  have h3 : validateFieldContent m s.checkHaveValues s.checkOrder = .ok () :=
    validateFieldContent_ok m _ _ sectioned (values.valuesOK _)
  have h4 : validateFields tr app s m.fields = .ok () := validateFields_ok typed
  simp only [validatePipeline, bind, Except.bind, h1, h2, h3, h4, validateWalk, bdef]
  cases s.rejectInvalid <;> simp [pure, Except.pure]

/-- what a conforming message is, repeating groups included: its wire fields are those of top-level instances `items`
    (plain fields and groups of header, body and trailer), each conforming to the definition validateWalk finds -/
structure C15_Conforming (tr app : VDict) (m : PMsg) (mt : Bytes) (h b t : MDef) (items : List Inst) : Prop where
  hdef : tr.header = some h
  bdef : app.msg? mt = some b
  tdef : tr.trailer = some t
  reqH : ∀ x ∈ h.reqTags, x ∈ m.hdr
  reqB : ∀ x ∈ b.reqTags, x ∈ m.body
  reqT : ∀ x ∈ t.reqTags, x ∈ m.trl
  sectioned : Sectioned m.fields
  values : AllValues m.fields
  typed : ∀ f ∈ m.fields, ∃ ft p, (if isHeaderTag f.tag || isTrailerTag f.tag then tr else app).ftype f.tag = some ft ∧
            (ft.enums = [] ∨ f.value ∈ ft.enums) ∧ ft.proto = some p ∧ protoReads p f.value = true
  wire : m.fields = wireL items
  nodup : (items.map Inst.tag).Nodup
  walk : WalkOK tr b 4000 [] items

/-- C15 "accepts conforming", repeating groups included, with validateWalk's own fuel budget -/
theorem C15_accepts (tr app : VDict) (s : Settings) (m : PMsg) (mt : Bytes) (h b t : MDef) (items : List Inst)
    (c : C15_Conforming tr app m mt h b t items) : validatePipeline tr app s mt m = .ok () := by
  rw [C15_pipeline_to_walk tr app s m mt h b t c.hdef c.bdef c.tdef c.reqH c.reqB c.reqT c.sectioned c.values]
  · cases s.rejectInvalid
    · rfl
    · simp only [if_true]
      have hf : (wireL items).length * 4000 + 1 ≤ walkFuel m := by
        unfold walkFuel; rw [c.wire]; omega
      rw [c.wire]
      exact walkLoop_conforming tr app s b 4000 items _ [] c.walk c.nodup (by simp) hf
  · intro f hf _
    obtain ⟨ft, p, hd, he, hp, hr⟩ := c.typed f hf
    have hv : f.value ≠ [] := by
      have := c.values f hf
      intro e; simp [e] at this
    exact validateField_ok _ s f ft p hv hd he hp hr

theorem C15_accepts_fix (d : VDict) (s : Settings) (m : PMsg) (mt : Bytes) (h b t : MDef) (items : List Inst)
    (h35 : 35 ∈ m.hdr) (hmt : m.msgType = some mt) (c : C15_Conforming d d m mt h b t items) :
    validate d none s m = .ok () := by
  simp [validate, h35, hmt, C15_accepts d d s m mt h b t items c]

theorem C15_accepts_fixt (app tr : VDict) (s : Settings) (m : PMsg) (mt : Bytes) (h b t : MDef) (items : List Inst)
    (h35 : 35 ∈ m.hdr) (hmt : m.msgType = some mt) (hadm : isAdminMsgType mt = false)
    (c : C15_Conforming tr app m mt h b t items) :
    validate app (some tr) s m = .ok () := by
  simp [validate, h35, hmt, hadm, C15_accepts tr app s m mt h b t items c]

/-- the same for a message given as plain header fields, body instances, plain trailer fields -/
theorem C15_accepts_sections (tr app : VDict) (s : Settings) (m : PMsg) (mt : Bytes) (h b t : MDef)
    (hdrFields trlFields : List TV) (is : List Inst)
    (hdef : tr.header = some h) (bdef : app.msg? mt = some b) (tdef : tr.trailer = some t)
    (reqH : ∀ x ∈ h.reqTags, x ∈ m.hdr) (reqB : ∀ x ∈ b.reqTags, x ∈ m.body) (reqT : ∀ x ∈ t.reqTags, x ∈ m.trl)
    (sectioned : Sectioned m.fields) (values : AllValues m.fields)
    (typed : ∀ f ∈ m.fields, ∃ ft p, (if isHeaderTag f.tag || isTrailerTag f.tag then tr else app).ftype f.tag = some ft ∧
            (ft.enums = [] ∨ f.value ∈ ft.enums) ∧ ft.proto = some p ∧ protoReads p f.value = true)
    (hfs : m.fields = hdrFields ++ wireL is ++ trlFields)
    (plainH : ∀ f ∈ hdrFields, PlainDefined tr b f) (plainT : ∀ f ∈ trlFields, PlainDefined tr b f)
    (nodup : (hdrFields.map (·.tag) ++ is.map Inst.tag ++ trlFields.map (·.tag)).Nodup)
    (hbody : ∀ pre i post, is = pre ++ i :: post → ∃ md fd, defFor tr b i.tag = some md ∧ md.field? i.tag = some fd ∧
        InstOK fd i ∧ fd.TagsNodup ∧ fd.maxWidth + 3 ≤ 4000 ∧ HeadNotIn fd.childTags (wireL post ++ trlFields)) :
    validatePipeline tr app s mt m = .ok () := by
  have htl : WalkOK tr b 4000 [] (trlFields.map TV.toInst) := by
    have := walkOK_plain_append tr b 4000 (by omega) [] [] WalkOK.nil trlFields plainT
    simpa using this
  have hb : WalkOK tr b 4000 [] (is ++ trlFields.map TV.toInst) := by
    apply walkOK_body tr b 4000 [] _ htl is
    intro pre i post e
    obtain ⟨md, fd, h1, h2, h3, h4, h5, h6⟩ := hbody pre i post e
    exact ⟨md, fd, h1, h2, h3, h4, h5, by simpa [wireL_plain] using h6⟩
  have hall := walkOK_plain_append tr b 4000 (by omega) [] _ hb hdrFields plainH
  apply C15_accepts tr app s m mt h b t (hdrFields.map TV.toInst ++ (is ++ trlFields.map TV.toInst))
  exact
    { hdef := hdef, bdef := bdef, tdef := tdef, reqH := reqH, reqB := reqB, reqT := reqT, sectioned := sectioned
      values := values, typed := typed
      wire := by rw [hfs]; simp [wireL_append, wireL_plain]
      nodup := by
        rw [List.map_append, List.map_append, map_tag_plain, map_tag_plain, ← List.append_assoc]
        exact nodup
      walk := hall }

/-! ### defects inside a repeating group -/

/-- a verdict of the walk on the first non-conforming top-level field is the verdict of the pipeline: the prefix `pre`
    conforms, the definition `fd` of the next field `f` stops with `e` for every fuel ≥ `N`, and validateWalk's budget
    covers the prefix and `N` -/
theorem C15_defect_walk_first (tr app : VDict) (s : Settings) (m : PMsg) (mt : Bytes) (h b t : MDef)
    (pre : List Inst) (f : TV) (rest : List TV) (md : MDef) (fd : FDef) (e : Stop) (N : Nat)
    (hdef : tr.header = some h) (bdef : app.msg? mt = some b) (tdef : tr.trailer = some t)
    (reqH : ∀ x ∈ h.reqTags, x ∈ m.hdr) (reqB : ∀ x ∈ b.reqTags, x ∈ m.body) (reqT : ∀ x ∈ t.reqTags, x ∈ m.trl)
    (sectioned : Sectioned m.fields) (values : AllValues m.fields)
    (typed : ∀ g ∈ m.fields, g.tag ≠ 35 → validateField (if isHeaderTag g.tag || isTrailerTag g.tag then tr else app) s g = .ok ())
    (hri : s.rejectInvalid = true) (hfs : m.fields = wireL pre ++ f :: rest)
    (hok : WalkOK tr b 4000 (f :: rest) pre) (hnd : (pre.map Inst.tag).Nodup) (hnew : f.tag ∉ pre.map Inst.tag)
    (hd : defFor tr b f.tag = some md) (hfd : md.field? f.tag = some fd)
    (hv : ∀ k, N ≤ k → visitField k fd (f :: rest) = .error e)
    (hN : N ≤ (rest.length + 1) * 4000) :
    validatePipeline tr app s mt m = .error e := by
  rw [C15_pipeline_to_walk tr app s m mt h b t hdef bdef tdef reqH reqB reqT sectioned values typed, hri, if_pos rfl, hfs]
  apply walkLoop_first_error tr app s b 4000 pre f rest md fd e N _ hok hnd hnew hd hfd hv
  unfold walkFuel
  rw [hfs]
  simp only [List.length_append, List.length_cons]
  omega

/-- group count mismatch: the counter reads as `n`, the group has another number of (conforming) entries ⇒ reason 16 at
    the counter's tag, for enough fuel -/
theorem C15_defect_group_count (K : Nat) (fd d0 : FDef) (ds : List FDef) (t : Nat) (c : Bytes)
    (es : List (List Inst)) (rest : List TV) (fuel : Nat) (n : Int)
    (hfields : fd.fields = d0 :: ds) (hcount : readCount c = some n) (hn : n ≠ (es.length : Int))
    (hdel : ∀ e ∈ es, ∃ i0 r, e = i0 :: r ∧ i0.tag = d0.tag) (hents : ∀ e ∈ es, EntryOK (d0 :: ds) e)
    (hw : fd.maxWidth + 3 ≤ K) (hnd : fd.TagsNodup) (hrest : HeadNotIn fd.childTags rest)
    (hf : (Inst.grp t c es).wire.length * K ≤ fuel) :
    visitField fuel fd ((Inst.grp t c es).wire ++ rest) = .error (.reject ⟨16, some t⟩) ∧
      expected .groupCount t ⟨16, some t⟩ = true :=
  ⟨visitField_count_mismatch K fd d0 ds t c es rest fuel n hfields hcount hn hdel hents hw hnd hrest hf, by simp [expected]⟩

/-- a counter that does not read as a number ⇒ reason 6 at the counter's tag -/
theorem C15_defect_group_count_unreadable (fd : FDef) (cnt : TV) (st : List TV) (fuel : Nat) (hgrp : fd.isGroup = true)
    (hcount : readCount cnt.value = none) (hf : 2 ≤ fuel) :
    visitField fuel fd (cnt :: st) = .error (.reject ⟨6, some cnt.tag⟩) :=
  visitField_count_unreadable fd cnt st fuel hgrp hcount hf

/-- group count mismatch on a top-level group of a message: the verdict of the pipeline is (16, counter tag) -/
theorem C15_defect_group_count_pipeline (tr app : VDict) (s : Settings) (m : PMsg) (mt : Bytes) (h b t : MDef)
    (pre : List Inst) (md : MDef) (fd d0 : FDef) (ds : List FDef) (gt : Nat) (c : Bytes) (es : List (List Inst))
    (rest : List TV) (n : Int)
    (hdef : tr.header = some h) (bdef : app.msg? mt = some b) (tdef : tr.trailer = some t)
    (reqH : ∀ x ∈ h.reqTags, x ∈ m.hdr) (reqB : ∀ x ∈ b.reqTags, x ∈ m.body) (reqT : ∀ x ∈ t.reqTags, x ∈ m.trl)
    (sectioned : Sectioned m.fields) (values : AllValues m.fields)
    (typed : ∀ g ∈ m.fields, g.tag ≠ 35 → validateField (if isHeaderTag g.tag || isTrailerTag g.tag then tr else app) s g = .ok ())
    (hri : s.rejectInvalid = true) (hfs : m.fields = wireL pre ++ ((Inst.grp gt c es).wire ++ rest))
    (hok : WalkOK tr b 4000 ((Inst.grp gt c es).wire ++ rest) pre) (hnd : (pre.map Inst.tag).Nodup)
    (hnew : gt ∉ pre.map Inst.tag)
    (hd : defFor tr b gt = some md) (hfd : md.field? gt = some fd)
    (hfields : fd.fields = d0 :: ds) (hcount : readCount c = some n) (hn : n ≠ (es.length : Int))
    (hdel : ∀ e ∈ es, ∃ i0 r, e = i0 :: r ∧ i0.tag = d0.tag) (hents : ∀ e ∈ es, EntryOK (d0 :: ds) e)
    (hw : fd.maxWidth + 3 ≤ 4000) (hfnd : fd.TagsNodup) (hrest : HeadNotIn fd.childTags rest) :
    validatePipeline tr app s mt m = .error (.reject ⟨16, some gt⟩) ∧ checks .groupCount gt s = true ∧
      expected .groupCount gt ⟨16, some gt⟩ = true := by
  refine ⟨?_, by simp [checks, hri], by simp [expected]⟩
  have hwire : (Inst.grp gt c es).wire ++ rest = ⟨gt, c⟩ :: (wireLL es ++ rest) := by simp [Inst.wire]
  rw [hwire] at hfs hok
  apply C15_defect_walk_first tr app s m mt h b t pre ⟨gt, c⟩ (wireLL es ++ rest) md fd _ ((wireLL es).length * 4000 + 4000)
    hdef bdef tdef reqH reqB reqT sectioned values typed hri hfs hok hnd hnew hd hfd
  · intro k hk
    rw [← hwire]
    exact visitField_count_mismatch 4000 fd d0 ds gt c es rest k n hfields hcount hn hdel hents hw hfnd hrest
      (by simp only [Inst.wire, List.length_cons]; omega)
  · simp only [List.length_append]; omega

/-- a required member without instance inside a group entry ⇒ reason 1 at that member's tag, for enough fuel:
    `es1` conforming entries, then the entry `e` (`EntryMissing d`: it starts with the delimiter and conforms except that
    the required `d` is absent — mid-entry or at its end), then anything that starts like entries (`es2`) and a field `rest`
    begins with that is no member tag; something must follow (`es2 ≠ [] ∨ rest ≠ []`: the Go loop, like the model, ends
    silently when the fields are exhausted; on a parsed message the trailer always follows) -/
theorem C15_defect_group_required_missing (K : Nat) (fd d0 : FDef) (ds : List FDef) (t : Nat) (c : Bytes)
    (es1 es2 : List (List Inst)) (e : List Inst) (d : FDef) (rest : List TV) (fuel : Nat) (n : Int)
    (hfields : fd.fields = d0 :: ds) (hcount : readCount c = some n)
    (hdel1 : ∀ e' ∈ es1, ∃ i0 r, e' = i0 :: r ∧ i0.tag = d0.tag) (hok1 : ∀ e' ∈ es1, EntryOK (d0 :: ds) e')
    (hdel : ∃ i0 r, e = i0 :: r ∧ i0.tag = d0.tag) (hmiss : EntryMissing d (d0 :: ds) e)
    (hdel2 : ∀ e' ∈ es2, ∃ i0 r, e' = i0 :: r ∧ i0.tag = d0.tag)
    (hrest : HeadNotIn fd.childTags rest) (hne : es2 ≠ [] ∨ rest ≠ [])
    (hw : fd.maxWidth + 3 ≤ K) (hnd : fd.TagsNodup)
    (hf : (Inst.grp t c (es1 ++ e :: es2)).wire.length * K ≤ fuel) :
    visitField fuel fd ((Inst.grp t c (es1 ++ e :: es2)).wire ++ rest) = .error (.reject ⟨1, some d.tag⟩) ∧
      expected (.requiredMissing true) d.tag ⟨1, some d.tag⟩ = true :=
  ⟨visitField_required_missing K fd d0 ds t c es1 es2 e d rest fuel n hfields hcount hdel1 hok1 hdel hmiss hdel2 hrest hne
    hw hnd hf, by simp [expected]⟩

/-- … and on a top-level group of a message the verdict of the pipeline is (1, that member's tag) -/
theorem C15_defect_group_required_missing_pipeline (tr app : VDict) (s : Settings) (m : PMsg) (mt : Bytes) (h b t : MDef)
    (pre : List Inst) (md : MDef) (fd d0 : FDef) (ds : List FDef) (gt : Nat) (c : Bytes)
    (es1 es2 : List (List Inst)) (e : List Inst) (d : FDef) (rest : List TV) (n : Int)
    (hdef : tr.header = some h) (bdef : app.msg? mt = some b) (tdef : tr.trailer = some t)
    (reqH : ∀ x ∈ h.reqTags, x ∈ m.hdr) (reqB : ∀ x ∈ b.reqTags, x ∈ m.body) (reqT : ∀ x ∈ t.reqTags, x ∈ m.trl)
    (sectioned : Sectioned m.fields) (values : AllValues m.fields)
    (typed : ∀ g ∈ m.fields, g.tag ≠ 35 → validateField (if isHeaderTag g.tag || isTrailerTag g.tag then tr else app) s g = .ok ())
    (hri : s.rejectInvalid = true)
    (hfs : m.fields = wireL pre ++ ((Inst.grp gt c (es1 ++ e :: es2)).wire ++ rest))
    (hok : WalkOK tr b 4000 ((Inst.grp gt c (es1 ++ e :: es2)).wire ++ rest) pre) (hnd : (pre.map Inst.tag).Nodup)
    (hnew : gt ∉ pre.map Inst.tag)
    (hd : defFor tr b gt = some md) (hfd : md.field? gt = some fd)
    (hfields : fd.fields = d0 :: ds) (hcount : readCount c = some n)
    (hdel1 : ∀ e' ∈ es1, ∃ i0 r, e' = i0 :: r ∧ i0.tag = d0.tag) (hok1 : ∀ e' ∈ es1, EntryOK (d0 :: ds) e')
    (hdel : ∃ i0 r, e = i0 :: r ∧ i0.tag = d0.tag) (hmiss : EntryMissing d (d0 :: ds) e)
    (hdel2 : ∀ e' ∈ es2, ∃ i0 r, e' = i0 :: r ∧ i0.tag = d0.tag)
    (hrest : HeadNotIn fd.childTags rest) (hne : es2 ≠ [] ∨ rest ≠ [])
    (hw : fd.maxWidth + 3 ≤ 4000) (hfnd : fd.TagsNodup) :
    validatePipeline tr app s mt m = .error (.reject ⟨1, some d.tag⟩) ∧ checks (.requiredMissing true) d.tag s = true ∧
      expected (.requiredMissing true) d.tag ⟨1, some d.tag⟩ = true := by
  refine ⟨?_, by simp [checks, hri], by simp [expected]⟩
  have hwire : (Inst.grp gt c (es1 ++ e :: es2)).wire ++ rest = ⟨gt, c⟩ :: (wireLL (es1 ++ e :: es2) ++ rest) := by
    simp [Inst.wire]
  rw [hwire] at hfs hok
  apply C15_defect_walk_first tr app s m mt h b t pre ⟨gt, c⟩ (wireLL (es1 ++ e :: es2) ++ rest) md fd _
    ((wireLL (es1 ++ e :: es2)).length * 4000 + 4000)
    hdef bdef tdef reqH reqB reqT sectioned values typed hri hfs hok hnd hnew hd hfd
  · intro k hk
    rw [← hwire]
    exact visitField_required_missing 4000 fd d0 ds gt c es1 es2 e d rest k n hfields hcount hdel1 hok1 hdel hmiss hdel2
      hrest hne hw hfnd (by simp only [Inst.wire, List.length_cons]; omega)
  · simp only [List.length_append]; omega

/-- fuel arithmetic (generic in the per-field factor `K`; `walkFuel` is the instance `K = 4000`) -/
theorem C15_fuel_arith (K L W R : Nat) : (L + W) * K + 2 ≤ (L + (W + R) + 2) * K + 16 := by
  simp only [Nat.add_mul]
  omega

/-- member out of order inside an entry of a TOP-LEVEL group: the entry `e` of group `gt` has two adjacent plain members
    swapped (`EntrySwapped a q`, `a` the displaced field; not the delimiter), the entries before it conform, the counter is
    the number of entries; the displaced tag is below 5000, is not defined at top level and unknown fields are not
    tolerated.  Then, with RejectInvalidMessage on, the pipeline rejects with one of the reasons the spec allows for
    this defect — in fact 1 (a required member is found missing), 16 (the group is seen as ended early) or 2 (the
    displaced field is seen as a top-level field the message type does not define). -/
theorem C15_defect_member_order (tr app : VDict) (s : Settings) (m : PMsg) (mt : Bytes) (h b t : MDef)
    (pre : List Inst) (md md' : MDef) (fd d0 : FDef) (ds : List FDef) (gt : Nat) (c : Bytes)
    (es1 es2 : List (List Inst)) (e : List Inst) (a : TV) (q : List Inst) (rest : List TV)
    (hdef : tr.header = some h) (bdef : app.msg? mt = some b) (tdef : tr.trailer = some t)
    (reqH : ∀ x ∈ h.reqTags, x ∈ m.hdr) (reqB : ∀ x ∈ b.reqTags, x ∈ m.body) (reqT : ∀ x ∈ t.reqTags, x ∈ m.trl)
    (sectioned : Sectioned m.fields) (values : AllValues m.fields)
    (typed : ∀ g ∈ m.fields, g.tag ≠ 35 → validateField (if isHeaderTag g.tag || isTrailerTag g.tag then tr else app) s g = .ok ())
    (hri : s.rejectInvalid = true) (hau : s.allowUnknown = false) (halt : a.tag < 5000)
    (hfs : m.fields = wireL pre ++ ((Inst.grp gt c (es1 ++ e :: es2)).wire ++ rest))
    (hok : WalkOK tr b 4000 ((Inst.grp gt c (es1 ++ e :: es2)).wire ++ rest) pre) (hnd : (pre.map Inst.tag).Nodup)
    (hnew : gt ∉ pre.map Inst.tag) (hanew : a.tag ∉ pre.map Inst.tag)
    (hd : defFor tr b gt = some md) (hfd : md.field? gt = some fd)
    (hda : defFor tr b a.tag = some md') (hua : md'.field? a.tag = none)
    (hfields : fd.fields = d0 :: ds) (hcount : readCount c = some ((es1 ++ e :: es2).length : Int))
    (hdel1 : ∀ e' ∈ es1, ∃ i0 r, e' = i0 :: r ∧ i0.tag = d0.tag) (hok1 : ∀ e' ∈ es1, EntryOK (d0 :: ds) e')
    (hdel : ∃ i0 r, e = i0 :: r ∧ i0.tag = d0.tag) (hsw : EntrySwapped a q (d0 :: ds) e)
    (hw : fd.maxWidth + 3 ≤ 4000) (hfnd : fd.TagsNodup) :
    ∃ r : Reject, validatePipeline tr app s mt m = .error (.reject r) ∧ (r.reason = 1 ∨ r.reason = 16 ∨ r.reason = 2) ∧
      expected .memberOrder a.tag r = true ∧ checks .memberOrder a.tag s = true := by
  have hca : checkFieldNotDefined s a.tag = false := by
    simp [checkFieldNotDefined, userDefinedTagMin, halt, hau]
  obtain ⟨r, hr, hwalk⟩ := walkLoop_member_swapped tr app s b 4000 pre md md' fd d0 ds gt c es1 es2 e a q rest hok hnd hnew
    hanew hd hfd hda hua hca hfields hcount hdel1 hok1 hdel hsw hw hfnd
  refine ⟨r, ?_, hr, ?_, by simp [checks, hri, hau]⟩
  · rw [C15_pipeline_to_walk tr app s m mt h b t hdef bdef tdef reqH reqB reqT sectioned values typed, hri, if_pos rfl, hfs]
    apply hwalk
    have hlen : m.fields.length =
        (wireL pre).length + ((Inst.grp gt c (es1 ++ e :: es2)).wire.length + rest.length) := by
      rw [hfs]; simp only [List.length_append]
    unfold walkFuel
    rw [hlen]
    exact C15_fuel_arith 4000 _ _ _
  · simp only [expected]
    rcases hr with h1 | h1 | h1 <;> rw [h1] <;> decide

/-! ### non-vacuity of the group predicates: the witness group `C15_wGroup` (73: 11 delimiter, 6; both required) -/

/-- `73=2 | 11=a 6=c | 11=b 6=d` -/
def C15_exGroupInst : Inst := .grp 73 [50] [[.fld 11 [97], .fld 6 [99]], [.fld 11 [98], .fld 6 [100]]]

theorem C15_exGroup_wellformed : C15_wGroup.TagsNodup ∧ C15_wGroup.maxWidth + 3 ≤ 5 := by
  refine ⟨?_, by decide⟩
  show C15_wGroup.allTags.Nodup
  decide

theorem C15_exGroup_conforms : InstOK C15_wGroup C15_exGroupInst := by
  refine InstOK.grp (d0 := .mk 11 true [] []) (ds := [.mk 6 true [] []]) rfl rfl (by decide) ?_ ?_
  · intro e he
    simp only [List.mem_cons, List.not_mem_nil, or_false] at he
    rcases he with rfl | rfl <;> exact ⟨_, _, rfl, rfl⟩
  · intro e he
    simp only [List.mem_cons, List.not_mem_nil, or_false] at he
    rcases he with rfl | rfl <;>
      exact EntryOK.take (InstOK.fld rfl rfl) (EntryOK.take (InstOK.fld rfl rfl) (EntryOK.nil (by simp)))

/-- the conforming instance followed by the trailer is consumed exactly, by the general theorem … -/
theorem C15_exGroup_accepted (fuel : Nat) (hf : 25 ≤ fuel) :
    visitField fuel C15_wGroup (C15_exGroupInst.wire ++ [⟨10, [120]⟩]) = .ok [⟨10, [120]⟩] := by
  apply C15_visit_conforming 5 C15_wGroup C15_exGroupInst _ fuel C15_exGroup_conforms C15_exGroup_wellformed.2
    C15_exGroup_wellformed.1
  · intro f r e hm
    simp only [List.cons.injEq] at e
    rw [← e.1] at hm
    exact absurd hm (by decide)
  · have : C15_exGroupInst.wire.length = 5 := by decide
    rw [this]; exact hf
/-- … and by evaluation of the model -/
example : C15_isOk (visitField 25 C15_wGroup (C15_exGroupInst.wire ++ [⟨10, [120]⟩])) = true := by decide

/-- the message of `C15_group_tail_orig_witness` (`73=2 | 11=a | 11=b 6=c | 10=x`: member 6 missing at the end of the first
    entry) as an instance of `C15_defect_group_required_missing`: (1, 6) for every fuel ≥ 25 -/
theorem C15_group_tail_by_theorem (fuel : Nat) (hf : 25 ≤ fuel) :
    visitField fuel C15_wGroup [⟨73, [50]⟩, ⟨11, [97]⟩, ⟨11, [98]⟩, ⟨6, [99]⟩, ⟨10, [120]⟩] =
      .error (.reject ⟨1, some 6⟩) := by
  have h := (C15_defect_group_required_missing 5 C15_wGroup (.mk 11 true [] []) [.mk 6 true [] []] 73 [50] []
    [[.fld 11 [98], .fld 6 [99]]] [.fld 11 [97]] (.mk 6 true [] []) [⟨10, [120]⟩] fuel 2 rfl (by decide)
    (by simp) (by simp) ⟨_, _, rfl, rfl⟩
    (EntryMissing.take (InstOK.fld rfl rfl) (EntryMissing.miss rfl (EntryOK.nil (by simp))))
    (by
      intro e he
      simp only [List.mem_cons, List.not_mem_nil, or_false] at he
      subst he
      exact ⟨_, _, rfl, rfl⟩)
    (by
      intro f r e hm
      simp only [List.cons.injEq] at e
      rw [← e.1] at hm
      exact absurd hm (by decide))
    (Or.inl (by simp)) C15_exGroup_wellformed.2 C15_exGroup_wellformed.1
    (by
      have : (Inst.grp 73 [50] ([] ++ [Inst.fld 11 [97]] :: [[Inst.fld 11 [98], Inst.fld 6 [99]]])).wire.length = 4 := by
        decide
      rw [this]; omega)).1
  exact h

/-- closed examples through the whole validator: message type `D` with the repeating group 73 in its body -/
def C15_exDictG : VDict :=
  { msg? := fun mt => if mt = [68] then some (newMessageDef [.fld C15_wGroup]) else none
    header := some (newMessageDef [.fld (.mk 8 true [] []), .fld (.mk 35 true [] [])])
    trailer := some (newMessageDef [.fld (.mk 10 true [] [])])
    ftype := fun t => if t = 73 then some { proto := some .int, enums := [] }
                      else if t = 8 ∨ t = 35 ∨ t = 10 ∨ t = 11 ∨ t = 6 then some { proto := some .str, enums := [] } else none }

def C15_exMsgG (body : List TV) : PMsg :=
  { fields := [⟨8, [70]⟩, ⟨35, [68]⟩] ++ body ++ [⟨10, [48]⟩], hdr := [8, 35], body := [73], trl := [10] }

example : C15_verdictIs (validate C15_exDictG none defaultSettings
    (C15_exMsgG [⟨73, [50]⟩, ⟨11, [97]⟩, ⟨6, [99]⟩, ⟨11, [98]⟩, ⟨6, [100]⟩])) none = true := by decide
example : C15_verdictIs (validate C15_exDictG none defaultSettings
    (C15_exMsgG [⟨73, [51]⟩, ⟨11, [97]⟩, ⟨6, [99]⟩, ⟨11, [98]⟩, ⟨6, [100]⟩])) (some ⟨16, some 73⟩) = true := by decide
example : C15_verdictIs (validate C15_exDictG none defaultSettings
    (C15_exMsgG [⟨73, [50]⟩, ⟨11, [97]⟩, ⟨11, [98]⟩, ⟨6, [100]⟩])) (some ⟨1, some 6⟩) = true := by decide
example : C15_verdictIs (validate C15_exDictG none defaultSettings
    (C15_exMsgG [⟨73, [50]⟩, ⟨11, [97]⟩, ⟨6, [99]⟩, ⟨11, [98]⟩])) (some ⟨1, some 6⟩) = true := by decide
