/- C01 — property theorems over Qfx.Model.Session (placeholder being filled; see checklist at the end) -/
import Qfx.Spec.Session
open Qfx Qfx.Sess Qfx.SessSpec
