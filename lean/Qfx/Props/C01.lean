/-
  C01 — "Inbound application messages reach the application in order, exactly once".
  Property theorems only (helper lemmas: Qfx/Lemmas/SessC01.lean; the monitor: Qfx/Spec/SessionTyped.lean).

  properties.jsonl: "Within one sequence-number epoch (from one reset to the next) the application's inbound callback
  sees application messages in strictly increasing MsgSeqNum order and never sees the same number twice; a message is
  handed over only at the moment its MsgSeqNum equals the session's next expected inbound number, which then advances
  by exactly one. The next expected inbound number never moves backwards except through an explicit reset."
-/
import Qfx.Lemmas.SessC01
open Qfx Qfx.Sess

/-- the monitor state agrees with the session: nothing violated, same expected number, every delivery of the epoch below it -/
def C01Good (g : G1) (s : Sess) : Prop :=
  g.ok = true ∧ g.T = s.store.target ∧ (∀ l, g.last = some l → l < g.T) ∧ g.expectInc = false

theorem C01Good_iff_J0 (g : G1) (s : Sess) (hl : s.log = []) : C01Good g s ↔ J0 g s := by
  unfold C01Good J0 J g1Of
  simp only [hl, List.reverse_nil, List.foldl_nil]
  constructor
  · rintro ⟨a, b, c, d⟩; exact ⟨⟨a, b, fun _ => c, fun h => by rw [d] at h; cases h⟩, d⟩
  · rintro ⟨⟨a, b, c, _⟩, d⟩; exact ⟨a, b, c d, d⟩

/-- one event, any state, any event: the monitor accepts the event's observations and stays in agreement -/
theorem C01_step (s : Sess) (e : Ev) (g : G1) (h : C01Good g s) :
    C01Good ((step s e).2.1.foldl g1Step g) (step s e).1 := by
  have h0 : J0 g s.clearLog := (C01Good_iff_J0 g s.clearLog rfl).1 h
  have h1 := J0_stepCore g s.clearLog e h0
  unfold step
  simp only []
  generalize stepCore s.clearLog e = r at h1
  obtain ⟨s', status⟩ := r
  simp only [] at h1 ⊢
  obtain ⟨⟨a, b, c, _⟩, d⟩ := h1
  exact ⟨a, b, c d, d⟩

/-- the concatenated observations of a history -/
def traceOf (s : Sess) : List Ev → List Obs
  | [] => []
  | e :: es => (step s e).2.1 ++ traceOf (step s e).1 es

def runEvents (s : Sess) : List Ev → Sess
  | [] => s
  | e :: es => runEvents (step s e).1 es

theorem C01_run (s : Sess) (evs : List Ev) (g : G1) (h : C01Good g s) :
    C01Good ((traceOf s evs).foldl g1Step g) (runEvents s evs) := by
  induction evs generalizing s g with
  | nil => exact h
  | cons e es ih =>
    simp only [traceOf, runEvents, List.foldl_append]
    exact ih _ _ (C01_step s e g h)

theorem C01Good_init (cfg : Cfg) (s0 t0 : Int) : C01Good (G1.init t0) (initSess cfg s0 t0) := by
  unfold C01Good
  refine ⟨rfl, rfl, ?_, rfl⟩
  intro l h; simp [G1.init] at h

/-- **C01**, every configuration (role, BeginString, chunk size, reset options, persistence, latency check, heartbeat
    settings), every initial pair of counters, every finite history of events (inbound messages of any kind with any
    header fields, buffered arrivals, timeouts, sends, flushes, connects, disconnects, stops, session-time changes):
    the monitor accepts the whole observation trace, i.e. deliveries are strictly increasing within an epoch, each
    happens exactly at the expected number and is followed by an advance of exactly one, and the expected number never
    moves backwards except through a reset. -/
theorem C01_inorder_exactly_once (cfg : Cfg) (s0 t0 : Int) (evs : List Ev) :
    c01Accepts t0 (traceOf (initSess cfg s0 t0) evs) = true := by
  have hg : C01Good (G1.init t0) (initSess cfg s0 t0) := C01Good_init cfg s0 t0
  obtain ⟨a, _, _, d⟩ := C01_run (initSess cfg s0 t0) evs (G1.init t0) hg
  unfold c01Accepts
  simp only [a, d, Bool.not_false, Bool.and_self]

/-- and the reconstructed expected number is the store's after every history (no untracked change) -/
theorem C01_target_tracked (cfg : Cfg) (s0 t0 : Int) (evs : List Ev) :
    ((traceOf (initSess cfg s0 t0) evs).foldl g1Step (G1.init t0)).T = (runEvents (initSess cfg s0 t0) evs).store.target :=
  (C01_run (initSess cfg s0 t0) evs (G1.init t0) (C01Good_init cfg s0 t0)).2.1

/-! ### the monitor is not vacuous: each clause rejects a trace that violates exactly it (kernel-checked) -/
example : c01Accepts 5 [.fromApp "5" 5, .incT, .fromApp "6" 6, .incT] = true := by decide
example : c01Accepts 5 [.fromApp "5" 5, .incT, .fromApp "5" 5, .incT] = false := by decide          -- delivered twice
example : c01Accepts 5 [.fromApp "6" 5, .incT] = false := by decide                                 -- not the expected number
example : c01Accepts 5 [.fromApp "5" 5, .fromApp "6" 6, .incT] = false := by decide                 -- no advance in between
example : c01Accepts 5 [.fromApp "5" 5, .setT 9] = false := by decide                               -- advance not by one
example : c01Accepts 5 [.setT 3] = false := by decide                                               -- moved backwards
example : c01Accepts 5 [.fromApp "5" 5, .incT, .reset, .fromApp "1" 1, .incT] = true := by decide   -- a reset starts a new epoch

/-- non-vacuity of the theorem: a concrete history really delivers (gap, stash, replay, drain) -/
def demoMsg (seq : Nat) : InMsg :=
  { f := [(8, "FIX.4.2"), (35, "D"), (49, "TGT"), (56, "SND"), (34, toString seq), (52, "@0")] }
def demoLogon : InMsg :=
  { f := [(8, "FIX.4.2"), (35, "A"), (49, "TGT"), (56, "SND"), (34, "1"), (52, "@0"), (98, "0"), (108, "30")] }
-- evaluated by the interpreter at build time (String functions do not reduce in the kernel): the history
-- logon, 3 (too high: stashed), 2 (fills the gap: delivered, then the stash drains) delivers 2 then 3
#guard ((traceOf (initSess {} 1 1) [.connect, .incomingMsg (some demoLogon), .incomingMsg (some (demoMsg 3)),
            .incomingMsg (some (demoMsg 2))]).filter (fun o => match o with | .fromApp _ _ => true | _ => false))
          == [.fromApp "2" 2, .fromApp "3" 3]

/-!
Clause checklist (properties.jsonl C01 → theorems)
* strictly increasing, never the same number twice, per epoch      : C01_inorder_exactly_once (monitor clause `l < n`)
* handed over only when MsgSeqNum = next expected number           : C01_inorder_exactly_once (clauses `n = T`, `t = T`)
* which then advances by exactly one                               : C01_inorder_exactly_once (`expectInc`, `setT` after delivery rejected)
* never moves backwards except through an explicit reset           : C01_inorder_exactly_once (`T ≤ n` on setT) + C01_target_tracked
* quantifier: every reachable state / role / BeginString / chunk   : `∀ cfg s0 t0 evs` (initSess covers both roles; BeginString and chunk are in cfg)
* not modelled: store write failures; EnableNextExpectedMsgSeqNum / EnableLastMsgSeqNumProcessed; data dictionaries in the session
-/
