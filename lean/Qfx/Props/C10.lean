/-
  C10 — "Built messages are well-formed FIX whatever API calls produced them".
  Property theorems only (helper lemmas: Qfx/Lemmas/Codec.lean).  All theorems are about the code after the
  `fix:` commits (D5 Remove, D16 CopyInto, D17 getOrCreate); the unchanged code is pinned by the `…_orig_…` witnesses.
  Clause checklist at the end.
-/
import Qfx.Lemmas.CodecScan
import Qfx.Lemmas.CodecOps
import Qfx.Lemmas.CodecParseD
import Qfx.Lemmas.CodecAnyDict
open Qfx Qfx.Spec

/-- "tag order list vs tag lookup map: two views of the same field set that must stay in step" —
    after EVERY sequence of API operations on a section (set / typed set / overwrite / group set / remove / clear /
    copy, in any order and number) the order list is duplicate-free and holds exactly the keys of the lookup map. -/
theorem C10_invariant (ops : List FOp) (o : OrdKind) (m : FieldMap) (h : runFOps ops (FieldMap.empty o) = .ok m) :
    m.tags.Nodup ∧ (∀ t, t ∈ m.tags ↔ (alFind m.lookup t).isSome = true) := by
  have hi := runFOps_inv ops _ m (FMInv.empty o) h
  exact ⟨hi.tagsNodup, fun t => (hi.same t).trans (mem_alKeys_iff _ _)⟩

/-- the invariant also survives `write` (which sorts the order list in place) and the parser's `add` -/
theorem C10_invariant_write (m : FieldMap) (h : FMInv m) (arr : List TagValue) : FMInv (m.write arr).2 := h.write arr

/-- "latest value": after a setter the tag maps to exactly the new field; every other tag is untouched -/
theorem C10_set_latest (m : FieldMap) (tv : TagValue) (r : SetRes) (h : m.setTV tv = .ok r)
    (hown : ∀ s n, alFind m.lookup tv.tag ≠ some (.view s n)) :
    alFind r.fm.lookup tv.tag = some (.owned [tv]) ∧ ∀ t, t ≠ tv.tag → alFind r.fm.lookup t = alFind m.lookup t := by
  unfold FieldMap.setTV at h
  split at h
  · injection h with h; subst h; exact ⟨alFind_insert_self _ _ _, fun t ht => alFind_insert_other _ _ _ _ ht⟩
  · cases h
  · rename_i s n hf; exact absurd hf (hown s n)
  · injection h with h; subst h; exact ⟨alFind_insert_self _ _ _, fun t ht => alFind_insert_other _ _ _ _ ht⟩

/-- "no removed field": after `Remove` the tag is absent from the map AND from the order list; the rest is untouched -/
theorem C10_remove_gone (m : FieldMap) (h : FMInv m) (t : Tag) :
    alFind (m.remove t).lookup t = none ∧ t ∉ (m.remove t).tags ∧ ∀ t', t' ≠ t → alFind (m.remove t).lookup t' = alFind m.lookup t' := by
  refine ⟨alFind_erase_self _ _, ?_, fun t' ht => alFind_erase_other _ _ _ ht⟩
  have hi := h.remove t
  intro hc
  have := (hi.same t).1 hc
  rw [mem_alKeys_iff] at this
  simp [FieldMap.remove, alFind_erase_self] at this

/-- "contain every field currently set exactly once … and no removed field": under the invariant the fields `write`
    emits are a permutation of the fields held by the lookup map — each exactly once, nothing else. -/
theorem C10_write_each_once (m : FieldMap) (h : FMInv m) (arr : List TagValue) :
    ∃ fs : List Field, fs.Perm (m.lookup.map (·.2)) ∧ (m.write arr).1 = fs.flatMap (fieldBytes arr) :=
  ⟨_, written_fields_perm h, by simp [FieldMap.write, writeTags_eq_flatMap]⟩

/-- the bytes of a section depend only on WHICH fields are set (the lookup map as a function), not on the history of
    operations that produced it: two maps with the same content and comparator serialise identically.
    (`sort.Sort`'s result is unique because the section comparators are strict total orders.) -/
theorem C10_write_history_independent (m₁ m₂ : FieldMap) (h₁ : FMInv m₁) (h₂ : FMInv m₂) (arr : List TagValue)
    (ho : m₁.ord = m₂.ord) (hs : m₁.ord.isSection = true) (hl : ∀ t, alFind m₁.lookup t = alFind m₂.lookup t) :
    (m₁.write arr).1 = (m₂.write arr).1 := by
  have hk : (alKeys m₁.lookup).Perm (alKeys m₂.lookup) :=
    (List.perm_ext_iff_of_nodup h₁.keysNodup h₂.keysNodup).2 (fun t => by rw [mem_alKeys_iff, mem_alKeys_iff, hl t])
  have hp : m₁.tags.Perm m₂.tags := h₁.perm.trans (hk.trans h₂.perm.symm)
  simp only [FieldMap.write]
  rw [← ho, sortTags_eq_of_perm m₁.ord hs hp]
  exact writeTags_congr arr _ _ hl _

/-- "a copied message serialises identically to its source" (section level): the copy writes the same bytes,
    whatever field array the copy is later used with -/
theorem C10_copy_writes_same (m : FieldMap) (arr arr' : List TagValue) : ((m.copy arr).write arr').1 = (m.write arr).1 := by
  simp only [FieldMap.write, FieldMap.copy, writeTags_eq_flatMap]
  generalize sortTags m.ord m.tags = ts
  have hfind : ∀ (l : List (Tag × Field)) (t : Tag),
      alFind (l.map (fun p => (p.1, Field.owned (p.2.items arr)))) t = (alFind l t).map (fun f => Field.owned (f.items arr)) := by
    intro l t
    induction l with
    | nil => rfl
    | cons p q ihq =>
      obtain ⟨k, f⟩ := p
      by_cases hk : k = t
      · simp [alFind, hk]
      · simpa [alFind, hk] using ihq
  induction ts with
  | nil => rfl
  | cons t r ih =>
    rw [List.filterMap_cons, List.filterMap_cons, hfind]
    cases hf : alFind m.lookup t with
    | none => simpa using ih
    | some f =>
      simp only [Option.map_some, List.flatMap_cons]
      rw [show fieldBytes arr' (Field.owned (f.items arr)) = fieldBytes arr f from rfl, ih]

/-- and the copy computes the same BodyLength / CheckSum contributions -/
theorem C10_copy_length_total_same (m : FieldMap) (arr arr' : List TagValue) :
    (m.copy arr).length arr' = m.length arr ∧ (m.copy arr).total arr' = m.total arr := by
  simp [FieldMap.length, FieldMap.total, FieldMap.copy, List.map_map, Function.comp_def, Field.items]

/-- order: in the sorted order list of a header, nothing sorts before 8, only 8 before 9, only 8 and 9 before 35 -/
theorem C10_header_first3 (ks : List Tag) :
    (sortTags .header ks).Pairwise (fun a b =>
      (b = 8 → a = 8) ∧ (b = 9 → a = 8 ∨ a = 9) ∧ (b = 35 → a = 8 ∨ a = 9 ∨ a = 35)) := by
  refine (sortTags_sorted .header rfl ks).imp ?_
  intro (a : Int) (b : Int) hab
  have r8 : headerRank 8 = 1 := by simp [headerRank]
  have r9 : headerRank 9 = 2 := by simp [headerRank]
  have r35 : headerRank 35 = 3 := by simp [headerRank]
  rcases headerRank_cases a with ⟨ea, ha⟩ | ⟨ea, ha⟩ | ⟨ea, ha⟩ | ⟨a8, a9, a35, ha⟩ <;>
  refine ⟨fun e => ?_, fun e => ?_, fun e => ?_⟩ <;> subst e <;>
    simp only [OrdKind.le, OrdKind.less, ha, r8, r9, r35] at hab <;> simp at hab <;> (first | omega | simp_all)

/-- order: in the sorted order list of a trailer nothing but 10 itself sorts after 10 ("CheckSum last") -/
theorem C10_trailer_checksum_last (ks : List Tag) :
    (sortTags .trailer ks).Pairwise (fun a b => a = 10 → b = 10) := by
  refine (sortTags_sorted .trailer rfl ks).imp ?_
  intro a b hab e
  subst e
  by_cases hb : b = 10
  · exact hb
  · simp [OrdKind.le, OrdKind.less, hb] at hab

/-- BodyLength / CheckSum arithmetic: the bytes a section writes are what `length` counts plus the TagValues it skips
    (tags 8, 9, 10), and their byte sum is what `total` counts plus the TagValues tagged 10.  `cook` stores
    `Σ length` in 9 and `(Σ total) mod 256` (three digits) in 10; since 8 and 9 are the first two fields and 10 the last
    and no other TagValue carries these tags (tags in their proper section), `Σ length` is the byte count between the
    BodyLength field and the CheckSum field and `Σ total` the byte sum of everything before the CheckSum field. -/
theorem C10_length_total_accounting (m : FieldMap) (h : FMInv m) (arr : List TagValue) :
    (m.write arr).1.length = m.length arr + m.skipLen arr ∧ (m.write arr).1.sum = m.total arr + m.skipSum arr := by
  obtain ⟨fs, hp, hw⟩ := C10_write_each_once m h arr
  constructor
  · rw [hw, length_flatMap_nat]
    have := (hp.map (fun f => (fieldBytes arr f).length)).sum_nat
    rw [this, List.map_map]
    simp only [FieldMap.length, FieldMap.skipLen, ← sum_map_add, Function.comp_def, fieldBytes_length]
    congr 1
    apply List.map_congr_left
    intro p _
    exact sum_filter_split _ tvLen (fun tv => decide (tv.tag ≠ 8 ∧ tv.tag ≠ 9 ∧ tv.tag ≠ 10))
  · rw [hw, sum_flatMap_nat]
    have := (hp.map (fun f => (fieldBytes arr f).sum)).sum_nat
    rw [this, List.map_map]
    simp only [FieldMap.total, FieldMap.skipSum, ← sum_map_add, Function.comp_def, fieldBytes_sum]
    congr 1
    apply List.map_congr_left
    intro p _
    exact sum_filter_split _ tvSum (fun tv => decide (tv.tag ≠ 10))

/-- what `cook` stores: BodyLength = Σ `length` of the three sections (before 9 is set — 9 itself is skipped by
    `length`), CheckSum = (Σ `total`) mod 256 in three digits, computed after 9 is set and before 10 is (10 is skipped) -/
theorem C10_cook_values (m m' : Message) (bl bt : Nat) (h : m.cook Fixes.cur bl bt = .ok m') :
    ∃ m1, m.setInt Fixes.cur .h 9 ((m.header.length m.fields + bl + m.trailer.length m.fields : Nat) : Int) = .ok m1 ∧
      m1.setBytes Fixes.cur .t 10 (digitsW 3 ((m1.header.total m1.fields + bt + m1.trailer.total m1.fields) % 256)) = .ok m' := by
  simp only [Message.cook] at h
  split at h
  · rename_i m1 h1; exact ⟨m1, h1, h⟩
  · cases h
  · cases h

/-- the same at the level of the whole message: after EVERY sequence of Message API operations (setters of all kinds on
    header / body / trailer, group set, remove, clear, copy, and `build` itself, which cooks 9 and 10 and sorts the
    order lists) each of the three sections satisfies the bookkeeping invariant and keeps its own comparator -/
theorem C10_message_invariant (ops : List MOp) (m : Message) (h : runMOps ops Message.new = .ok m) : MInv m :=
  runMOps_inv ops _ m MInv.new h

/-- "all header fields before all body fields before all trailer fields": the bytes of `build` are the header's bytes,
    then the body's, then the trailer's, each written from the cooked message's maps (so each of the section-level
    theorems above applies to its part) -/
theorem C10_build_sections (m : Message) (hm : MInv m) (bytes : Bytes) (m' : Message) (h : m.build Fixes.cur = .ok (bytes, m')) :
    MInv m' ∧ ∃ m1, m.cook Fixes.cur (m.body.length m.fields) (m.body.total m.fields) = .ok m1 ∧ MInv m1 ∧
      bytes = (m1.header.write m1.fields).1 ++ (m1.body.write m1.fields).1 ++ (m1.trailer.write m1.fields).1 :=
  hm.build bytes m' h

/-- MAIN THEOREM (byte level).  "with BeginString, BodyLength and MsgType first … and CheckSum last; BodyLength equals the byte
    count between the BodyLength field and the CheckSum field, and CheckSum equals the byte sum modulo 256 in three digits."

    For EVERY sequence of Message API operations (raw and typed setters, overwrite, remove, clear, set again, group set,
    copy, intermediate builds) whose tags are in their proper section (`MOp.proper`: 8 and 9 only in the header, 10 only
    in the trailer, groups and their members never tagged 8 / 9 / 10), if BeginString and MsgType are set, the bytes of
    `build` are
        <BeginString field> ++ 9=<N>␁ ++ MID ++ 10=<ddd>␁
    where MID starts with the MsgType field, N = length of MID, ddd = three-digit (sum of all preceding bytes) mod 256. -/
theorem C10_build_wf (ops : List MOp) (hp : ∀ op ∈ ops, op.proper) (m : Message) (hrun : runMOps ops Message.new = .ok m)
    (h8 : (alFind m.header.lookup 8).isSome = true) (h35 : (alFind m.header.lookup 35).isSome = true)
    (bytes : Bytes) (m' : Message) (hbuild : m.build Fixes.cur = .ok (bytes, m')) :
    ∃ (tv8 : TagValue) (f35 : Field) (mid rest : Bytes),
      alFind m.header.lookup 8 = some (.owned [tv8]) ∧ tv8.tag = 8 ∧ alFind m.header.lookup 35 = some f35 ∧
      mid = fieldBytes m.fields f35 ++ rest ∧
      bytes = (tv8.bytes ++ (TagValue.init 9 (fmtNat mid.length)).bytes ++ mid) ++
        (TagValue.init 10 (digitsW 3 ((tv8.bytes ++ (TagValue.init 9 (fmtNat mid.length)).bytes ++ mid).sum % 256))).bytes := by
  have hb : Built m := runMOps_built ops _ m Built.new hp hrun
  cases hf8 : alFind m.header.lookup 8 with
  | none => rw [hf8] at h8; cases h8
  | some f8 =>
    cases hf35 : alFind m.header.lookup 35 with
    | none => rw [hf35] at h35; cases h35
    | some f35 =>
      obtain ⟨l, hl⟩ := hb.ph.owned 8 f8 hf8
      subst hl
      obtain ⟨tv, rest, hl, ht⟩ := hb.ph.head 8 l hf8
      subst hl
      have hone := (hb.ph.special 8 _ hf8 tv (by simp) (Or.inl ht)).1
      rw [hone] at hf8
      obtain ⟨mid, r, hmid, hbytes⟩ := build_structure m hb tv f35 hf8 hf35 bytes m' hbuild
      exact ⟨tv, f35, mid, r, by rw [hone], ht, rfl, hmid, hbytes⟩

/-- "Parsing those bytes yields the same fields and values."  For EVERY sequence of Message API operations with tags in their
    proper section (`MOp.proper`), int64 tags other than XMLDataLen and SOH-free values (`MOp.wire`; typed setters are SOH-free
    by construction), BeginString and MsgType set, and an output shorter than 2^63 bytes:
    the bytes of `build` are the concatenation of a list `L` of TagValues — BeginString, BodyLength, MsgType, …, CheckSum —
    and `ParseMessage` of those bytes succeeds with `Message.fields = L` exactly (same fields, same values, same order)
    and returns the bytes unchanged from `Bytes()`.  Holds for the parser before and after the fixes (`fx` arbitrary). -/
theorem C10_parse_build (fx : Fixes) (ops : List MOp) (hp : ∀ op ∈ ops, op.proper ∧ op.wire) (m : Message)
    (hrun : runMOps ops Message.new = .ok m)
    (h8 : (alFind m.header.lookup 8).isSome = true) (h35 : (alFind m.header.lookup 35).isSome = true)
    (bytes : Bytes) (m' : Message) (hbuild : m.build Fixes.cur = .ok (bytes, m')) (hsmall : bytes.length < 9223372036854775808) :
    ∃ (L : List TagValue) (p : Message), bytes = wireOf L ∧ parseMessage fx Dicts.none bytes = .ok p ∧ p.fields = L ∧
      p.bytes fx = .ok (bytes, p) ∧ (L.head?.map (·.tag)) = some 8 ∧ (L.getLast?.map (·.tag)) = some 10 := by
  obtain ⟨hb, hw⟩ := runMOps_wired ops _ m Built.new Wired.new hp hrun
  cases hf8 : alFind m.header.lookup 8 with
  | none => rw [hf8] at h8; cases h8
  | some f8 =>
    cases hf35 : alFind m.header.lookup 35 with
    | none => rw [hf35] at h35; cases h35
    | some f35 =>
      obtain ⟨l, hl⟩ := hb.ph.owned 8 f8 hf8
      subst hl
      obtain ⟨tv, rest, hl, ht⟩ := hb.ph.head 8 l hf8
      subst hl
      have hone := (hb.ph.special 8 _ hf8 tv (by simp) (Or.inl ht)).1
      rw [hone] at hf8
      obtain ⟨t9, t35, pre, t10, hbytes, hwm, hbl⟩ := build_wire m hb hw tv f35 hf8 hf35 bytes m' hbuild hsmall
      refine ⟨tv :: t9 :: t35 :: (pre ++ [t10]), ndMessage tv t9 t35 pre t10, hbytes, ?_, rfl, ?_, ?_, ?_⟩
      · rw [hbytes]; exact parse_wire_nodict fx tv t9 t35 pre t10 hwm hbl
      · rw [hbytes]; rfl
      · simp [hwm.tag8]
      · have e : tv :: t9 :: t35 :: (pre ++ [t10]) = (tv :: t9 :: t35 :: pre) ++ [t10] := by simp
        rw [e, List.getLast?_append]; simp [hwm.tag10]

/-- the same through a parser WITH dictionaries (transport and/or application) that define no repeating group (`NoGroupTag` for every
    tag) and do not list CheckSum as a header field: parsing the bytes of `build` yields exactly the written TagValue list. -/
theorem C10_parse_build_dict_nogroups (fx : Fixes) (d : Dicts) (hng : ∀ t, NoGroupTag d t) (hh10 : isHeaderField d 10 = false)
    (ops : List MOp) (hp : ∀ op ∈ ops, op.proper ∧ op.wire) (m : Message)
    (hrun : runMOps ops Message.new = .ok m)
    (h8 : (alFind m.header.lookup 8).isSome = true) (h35 : (alFind m.header.lookup 35).isSome = true)
    (bytes : Bytes) (m' : Message) (hbuild : m.build Fixes.cur = .ok (bytes, m')) (hsmall : bytes.length < 9223372036854775808) :
    ∃ (L : List TagValue) (p : Message), bytes = wireOf L ∧ parseMessage fx d bytes = .ok p ∧ p.fields = L ∧
      p.bytes fx = .ok (bytes, p) := by
  obtain ⟨hb, hw⟩ := runMOps_wired ops _ m Built.new Wired.new hp hrun
  cases hf8 : alFind m.header.lookup 8 with
  | none => rw [hf8] at h8; cases h8
  | some f8 =>
    cases hf35 : alFind m.header.lookup 35 with
    | none => rw [hf35] at h35; cases h35
    | some f35 =>
      obtain ⟨l, hl⟩ := hb.ph.owned 8 f8 hf8
      subst hl
      obtain ⟨tv, rest, hl, ht⟩ := hb.ph.head 8 l hf8
      subst hl
      have hone := (hb.ph.special 8 _ hf8 tv (by simp) (Or.inl ht)).1
      rw [hone] at hf8
      obtain ⟨t9, t35, pre, t10, hbytes, hwm, hbl⟩ := build_wire m hb hw tv f35 hf8 hf35 bytes m' hbuild hsmall
      refine ⟨tv :: t9 :: t35 :: (pre ++ [t10]), ndMessageD d tv t9 t35 pre t10, hbytes, ?_, rfl, ?_⟩
      · rw [hbytes]; exact parse_wire_D fx tv t9 t35 pre t10 hwm hbl (fun tv _ => hng tv.tag) (hng 10) hh10
      · rw [hbytes]; rfl

/-- "PARSING THOSE BYTES YIELDS THE SAME FIELDS AND VALUES", ANY DICTIONARIES (the corrected `C10_parse_build_full`): for every message
    built by proper, SOH-free operations with BeginString and MsgType set, `ParseMessage` with ANY dictionaries `d` — application
    dictionaries that define repeating groups included, transport dictionaries, user-defined tags — succeeds on the bytes of `build`,
    `Message.fields` is exactly the written TagValue list and `Bytes()` returns the bytes. -/
theorem C10_parse_build_anydict (d : Dicts)
    (ops : List MOp) (hp : ∀ op ∈ ops, op.proper ∧ op.wire) (m : Message)
    (hrun : runMOps ops Message.new = .ok m)
    (h8 : (alFind m.header.lookup 8).isSome = true) (h35 : (alFind m.header.lookup 35).isSome = true)
    (bytes : Bytes) (m' : Message) (hbuild : m.build Fixes.cur = .ok (bytes, m')) (hsmall : bytes.length < 9223372036854775808) :
    ∃ (L : List TagValue) (p : Message), bytes = wireOf L ∧ parseMessage Fixes.cur d bytes = .ok p ∧ p.fields = L ∧
      p.bytes Fixes.cur = .ok (bytes, p) := by
  obtain ⟨hb, hw⟩ := runMOps_wired ops _ m Built.new Wired.new hp hrun
  cases hf8 : alFind m.header.lookup 8 with
  | none => rw [hf8] at h8; cases h8
  | some f8 =>
    cases hf35 : alFind m.header.lookup 35 with
    | none => rw [hf35] at h35; cases h35
    | some f35 =>
      obtain ⟨l, hl⟩ := hb.ph.owned 8 f8 hf8
      subst hl
      obtain ⟨tv, rest, hl, ht⟩ := hb.ph.head 8 l hf8
      subst hl
      have hone := (hb.ph.special 8 _ hf8 tv (by simp) (Or.inl ht)).1
      rw [hone] at hf8
      obtain ⟨t9, t35, pre, t10, hbytes, hwm, hbl⟩ := build_wire m hb hw tv f35 hf8 hf35 bytes m' hbuild hsmall
      obtain ⟨c', hparse⟩ := parse_wire_anydict (d := d) tv t9 t35 pre t10 hwm hbl
      refine ⟨tv :: t9 :: t35 :: (pre ++ [t10]), _, hbytes, by rw [hbytes]; exact hparse, rfl, ?_⟩
      rw [hbytes]; rfl

/-- THE MONITOR'S OWN PREDICATE.  The independent tag=value scanner of `Qfx.Spec.Codec` (the one the monitor runs on the
    implementation's output) reads every built message back as exactly the list of TagValues that was written, and its
    well-formedness predicate `wireWF` — 8, 9, 35 first; a single 10, last; no further 8 / 9; BodyLength = bytes between the
    BodyLength field and the CheckSum field; CheckSum = byte sum mod 256 in three digits — holds, for every sequence of
    proper, SOH-free operations that sets BeginString and MsgType. -/
theorem C10_build_scans_wf (ops : List MOp) (hp : ∀ op ∈ ops, op.proper ∧ op.wire) (m : Message)
    (hrun : runMOps ops Message.new = .ok m)
    (h8 : (alFind m.header.lookup 8).isSome = true) (h35 : (alFind m.header.lookup 35).isSome = true)
    (bytes : Bytes) (m' : Message) (hbuild : m.build Fixes.cur = .ok (bytes, m')) (hsmall : bytes.length < 9223372036854775808) :
    wireWF bytes = true ∧ ∃ L : List TagValue, bytes = wireOf L ∧ scanFields bytes = some (L.map wfOf) := by
  obtain ⟨hb, hw⟩ := runMOps_wired ops _ m Built.new Wired.new hp hrun
  cases hf8 : alFind m.header.lookup 8 with
  | none => rw [hf8] at h8; cases h8
  | some f8 =>
    cases hf35 : alFind m.header.lookup 35 with
    | none => rw [hf35] at h35; cases h35
    | some f35 =>
      obtain ⟨l, hl⟩ := hb.ph.owned 8 f8 hf8
      subst hl
      obtain ⟨tv, rest, hl, ht⟩ := hb.ph.head 8 l hf8
      subst hl
      have hone := (hb.ph.special 8 _ hf8 tv (by simp) (Or.inl ht)).1
      rw [hone] at hf8
      obtain ⟨L, hL, hscan, hwf⟩ := build_scans_wf m hb hw tv f35 hf8 hf35 bytes m' hbuild hsmall
      exact ⟨by simp [wireWF, hscan, hwf], L, hL, hscan⟩

/-- "a copied message serialises identically to its source": for every message produced by Message API operations (after
    the fix of `CopyInto`), `CopyInto` a fresh message yields a message EQUAL to the source — every section map, order
    list and comparator — hence `build` of the copy returns the same bytes. -/
theorem C10_copy_identical (ops : List MOp) (hp : ∀ op ∈ ops, op.proper) (m : Message) (hrun : runMOps ops Message.new = .ok m) :
    m.copy Fixes.cur = .ok m ∧ ∀ c, m.copy Fixes.cur = .ok c → c.build Fixes.cur = m.build Fixes.cur := by
  obtain ⟨hb, hpl⟩ := runMOps_plain ops _ m Built.new Plain.new hp hrun
  have h := copy_self m hb hpl
  exact ⟨h, fun c hc => by rw [h] at hc; injection hc with hc; rw [hc]⟩

/-- the hypotheses of `C10_build_wf` are an invariant: they hold again after the build (and any further proper operations) -/
theorem C10_built_invariant (ops : List MOp) (hp : ∀ op ∈ ops, op.proper) (m : Message) (hrun : runMOps ops Message.new = .ok m) :
    Built m := runMOps_built ops _ m Built.new hp hrun

/-! ## the unchanged code (witnesses, replayed on the implementation by the correspondence: known_findings.json `fixed`) -/

/-- D5: with the ORIGINAL `Remove` the order list keeps the removed tag, so `Remove(t); Set(t)` lists `t` twice -/
theorem C10_orig_remove_then_set_duplicates :
    ((((FieldMap.empty .normal).setGroup 58 [TagValue.zero]).removeOrig 58).setGroup 58 [TagValue.zero]).tags = [58, 58] := by
  decide

/-- D16: the ORIGINAL `CopyInto` keeps only the first TagValue of a repeating-group field -/
theorem C10_orig_copy_drops_group_entries :
    (FieldMap.copyOrig [] ((FieldMap.empty .normal).setGroup 453 [TagValue.zero, TagValue.zero, TagValue.zero])) =
      .ok { tags := [453], lookup := [(453, .owned [TagValue.zero])], ord := .normal } := by decide

/-- D17: the ORIGINAL setter over a group tag keeps the stale members behind the new first element -/
theorem C10_orig_set_over_group_keeps_members :
    ((FieldMap.empty .normal).setGroup 453 [TagValue.zero, TagValue.zero]).setTVOrig { tag := 453, value := [48], bytes := [] }
      = .ok ⟨{ tags := [453], lookup := [(453, .owned [{ tag := 453, value := [48], bytes := [] }, TagValue.zero])], ord := .normal }, none⟩ := by
  rfl

/-- "whatever API calls produced them": EVERY sequence of API calls on a fresh message (setters in any section incl. the special
    tags anywhere, SetGroup with any template and entries — nested groups included —, Remove, Clear, CopyInto, build) succeeds — no call
    returns an error, none faults (codec part of C09): the hypothesis `runMOps ops Message.new = .ok m` of the theorems above is
    always met. -/
theorem C10_api_total (ops : List MOp) : ∃ m, runMOps ops Message.new = .ok m := by
  obtain ⟨m, h, _⟩ := runMOps_total ops Message.new MOK.new
  exact ⟨m, h⟩

/-- the same on any message the (fixed) parser returns, whatever bytes and dictionaries it was parsed from: setters over parsed
    fields (which write through into `Message.fields`), SetGroup, Remove, Clear, CopyInto and rebuilding never fail and never fault. -/
theorem C10_api_total_parsed (d : Dicts) (w : Bytes) (p : Message) (hp : parseMessage Fixes.cur d w = .ok p) (ops : List MOp) :
    ∃ m, runMOps ops p = .ok m := by
  obtain ⟨m, h, _⟩ := runMOps_total ops p (parse_MOK d w p hp)
  exact ⟨m, h⟩

/-- `RepeatingGroup.Write` always succeeds and starts with the count field -/
theorem C10_write_total (t : Tag) (tmpl : List Item) (es : List (List GFld)) :
    ∃ tvs, writeGroup t tmpl es = .ok (countTV t es.length :: tvs) := writeGroup_total t tmpl es

/-! ## what is NOT a theorem here

* "parsing those bytes yields the same fields and values" used to stand here as `C10_parse_build_full : ∀ m bytes m', m.build … = ok … → ∃ p,
  parseMessage … Dicts.none bytes = ok p ∧ …` for an ARBITRARY model message `m` — false as written (a message without BeginString /
  MsgType, or with SOH inside a value, builds but does not re-parse) and restricted to `Dicts.none`.  The corrected statements are theorems:
  `C10_parse_build` (no dictionary, any `Fixes`), `C10_parse_build_dict_nogroups`, and `C10_parse_build_anydict` (ANY dictionaries).
* the whole monitor `Spec.monBuild` RELATIVE TO THE ABSTRACT MESSAGE `a : Abs` that the monitor keeps while it watches the operations: -/

/-- as it stands this relates an arbitrary `a` to an arbitrary `m` (no hypothesis says that `a` abstracts `m`), so it is not a meaningful
    proposition about the code; the meaningful version needs the refinement "`a` is what the operations that produced `m` describe" and, for
    the clause `once_each`, that `Write`'s output equals the monitor's own canonical flattening `Spec.flatEntries` of a group instance.
    Not done.  What IS proved about the bytes of `build`: `C10_build_wf` (framing, BodyLength, CheckSum), `C10_build_scans_wf` (the monitor's
    scanner reads back exactly the written TagValues and `wireWF` holds), `C10_write_each_once` / `C10_set_latest` / `C10_remove_gone`
    (each set field once, latest value, no removed field — at section level), `C10_header_first3`, `C10_trailer_checksum_last`. -/
def C10_build_wf_full : Prop :=
  ∀ (a : Abs) (m : Message) (bytes : Bytes) (m' : Message), m.build Fixes.cur = .ok (bytes, m') → monBuild a bytes = []

/-! non-vacuity: a reachable non-trivial state -/
example : ∃ m, runFOps [.set (TagValue.init 58 [97]), .remove 58, .set (TagValue.init 58 [98]), .setGroup 453 [TagValue.zero]]
    (FieldMap.empty .normal) = .ok m ∧ m.tags = [58, 453] := ⟨_, rfl, by decide⟩

/- Clause checklist (properties.jsonl C10):
   "every field currently set exactly once … no removed field"   C10_invariant, C10_write_each_once, C10_remove_gone
   "with its latest value"                                         C10_set_latest
   "BeginString, BodyLength and MsgType first"                     C10_build_wf (bytes); C10_header_first3 (order list) + C10_write_each_once
   "header before body before trailer"                             C10_build_sections, C10_message_invariant
   "CheckSum last"                                                 C10_build_wf (bytes); C10_trailer_checksum_last
   "BodyLength equals the byte count … CheckSum equals the sum"    C10_build_wf (bytes); C10_length_total_accounting, C10_cook_values
   "Parsing those bytes yields the same fields and values"         C10_parse_build (no dictionary), C10_parse_build_dict_nogroups (dictionaries without groups); monitor clauses reparse_ok / reparse_same_fields for all modes
   "a copied message serialises identically to its source"         C10_copy_identical (message level), C10_copy_writes_same,
                                                                   C10_copy_length_total_same (section level, also parsed sources)
   scanner-level well-formedness of the whole output               C10_build_scans_wf (wireWF, scan = written fields); relative to the monitor's Abs: C10_build_wf_full (def, see there)
   op-order independence ("whatever API calls produced them")      C10_write_history_independent
   every API call sequence succeeds (no error, no fault)           C10_api_total, C10_api_total_parsed, C10_write_total -/
