import Qfx.Spec.Codec
open Qfx Qfx.Spec
theorem C10_placeholder : True := trivial
