/-
  Obligations that pin the hand-written session model to the facts REGENERATED from the repository's sources on every run
  (Qfx/Gen/Facts.lean, written by `qfxh extract`) — the ones of property C20 only, so that a fact that moved breaks the
  checks of the properties that rest on it and no others.  `./check C20` builds and audits this module.
-/
import Qfx.Gen.Facts
import Qfx.Model.Session
open Qfx Qfx.Sess

/-- every place that arms the peer timer multiplies HeartBtInt by the literal 1.2 (the model arms 1200 ms per second of HeartBtInt) -/
theorem C20_gen_peer_factor : Qfx.Gen.peerTimerFactors.all (· == "1.2") = true ∧ Qfx.Gen.peerTimerFactors.length = 3 := by decide
