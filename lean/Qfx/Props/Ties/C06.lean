/-
  Obligations that pin the hand-written session model to the facts REGENERATED from the repository's sources on every run
  (Qfx/Gen/Facts.lean, written by `qfxh extract`) — the ones of property C06 only, so that a fact that moved breaks the
  checks of the properties that rest on it and no others.  `./check C06` builds and audits this module.
-/
import Qfx.Gen.Facts
import Qfx.Model.Session
open Qfx Qfx.Sess

/-- session.go verifySelect runs its checks in the order the model's `verifySelect` does -/
theorem C06_gen_verify_order :
    Qfx.Gen.verifyOrder = ["checkBeginString", "checkCompID", "currentResendState", "checkSendingTime",
                           "checkTargetTooLow", "checkTargetTooHigh", "verifyMsgAgainstAppImpl"] := by decide

/-- errors.go: the reject reasons the model's reactions use -/
theorem C06_gen_reject_reasons :
    Qfx.Gen.rejectReasons.lookup "CompIDProblem" = some 9 ∧ Qfx.Gen.rejectReasons.lookup "SendingTimeAccuracyProblem" = some 10
    ∧ Qfx.Gen.rejectReasons.lookup "RequiredTagMissing" = some 1 ∧ Qfx.Gen.rejectReasons.lookup "TagSpecifiedWithoutAValue" = some 4
    ∧ Qfx.Gen.rejectReasons.lookup "IncorrectDataFormatForValue" = some 6 ∧ Qfx.Gen.rejectReasons.lookup "ValueIsIncorrect" = some 5
    ∧ Qfx.Gen.rejectReasons.lookup "ConditionallyRequiredFieldMissing" = some 8 ∧ Qfx.Gen.rejectReasons.lookup "InvalidMsgType" = some 11 := by
  decide
