/-
  Obligations that pin the hand-written session model to the facts REGENERATED from the repository's sources on every run
  (Qfx/Gen/Facts.lean, written by `qfxh extract`) — the ones of property C08 only, so that a fact that moved breaks the
  checks of the properties that rest on it and no others.  `./check C08` builds and audits this module.
-/
import Qfx.Gen.Facts
import Qfx.Model.Session
import Qfx.Props.Ties.C01
open Qfx Qfx.Sess

theorem C08_gen_admin_kinds (k : String) : isAdminKind k = Qfx.Gen.adminMsgTypes.contains k := C01_gen_admin_kinds k
