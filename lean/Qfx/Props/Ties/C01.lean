/-
  Obligations that pin the hand-written session model to the facts REGENERATED from the repository's sources on every run
  (Qfx/Gen/Facts.lean, written by `qfxh extract`) — the ones of property C01 only, so that a fact that moved breaks the
  checks of the properties that rest on it and no others.  `./check C01` builds and audits this module.
-/
import Qfx.Gen.Facts
import Qfx.Model.Session
open Qfx Qfx.Sess

/-- msg_type.go isAdminMessageType is exactly the model's `isAdminKind` (which decides FromAdmin vs FromApp, gap fill vs replay) -/
theorem C01_gen_admin_kinds (k : String) : isAdminKind k = Qfx.Gen.adminMsgTypes.contains k := by
  simp only [isAdminKind, Qfx.Gen.adminMsgTypes, List.contains, List.elem_cons, List.elem_nil]
  cases (k == "0") <;> cases (k == "1") <;> cases (k == "2") <;> cases (k == "3") <;>
    cases (k == "4") <;> cases (k == "5") <;> cases (k == "A") <;> rfl
