import Qfx.Drv.All
open Qfx.Drv

def stripEol (s : String) : String :=
  String.ofList (s.toList.reverse.dropWhile (fun c => c = '\n' || c = '\r')).reverse

partial def loop (fam : Family) (hin : IO.FS.Stream) (hout : IO.FS.Stream) (s : fam.σ) : IO Unit := do
  let line ← hin.getLine
  if line.isEmpty then return ()
  let w := words (stripEol line)
  match w with
  | [] => hout.putStrLn ""; loop fam hin hout s
  | "#" :: "case" :: _ => hout.putStrLn (stripEol line); loop fam hin hout fam.init   -- new case: fresh model state
  | "#" :: _ => hout.putStrLn (stripEol line); loop fam hin hout s
  | _ =>
    let (s', out) := fam.step s w
    hout.putStrLn out
    loop fam hin hout s'

def main (args : List String) : IO UInt32 := do
  match args with
  | [name] =>
    match families.lookup name with
    | some fam =>
      let hin ← IO.getStdin
      let hout ← IO.getStdout
      loop fam hin hout fam.init
      return 0
    | none => IO.eprintln s!"unknown family {name}"; return 2
  | _ => IO.eprintln "usage: qfxdriver <family> < ops > out"; return 2
