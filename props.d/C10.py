def _c10_relevant(op):
    return op.split(" ")[0] in ("new", "set", "sets", "setf", "setw", "seti", "setb", "rm", "clear", "setgrp", "copy", "fork", "sidebuild", "build",
                                "bytes", "copybuild", "reparse", "has", "get", "geti", "tags", "static")

def _c10_project(op, line):
    # C10 observes the fields of the re-parsed message, not bodyBytes / section key sets (C11, C03)
    w = line.split(" ")
    if op.startswith("reparse") and len(w) >= 3 and w[0] == "ok":
        return " ".join(w[:3])
    return line

PROPS["C10"] = {
    "families": {"codec": {"quick": 6000, "thorough": 120000}},
    "relevant": _c10_relevant,
    "project": _c10_project,
    "mon_clauses": ["once_each", "first3", "sections", "checksum_last", "bodylength", "checksum", "copy_identical", "reparse_ok",
                    "reparse_same_fields", "api_latest", "unscannable", "build_failed", "setter_failed",
                    "no_panic{op=setter}", "no_panic{op=build}", "no_panic{op=copybuild}", "no_panic{op=copy}", "no_panic{op=reparse}"],
    "claim": "Theorems (Lean kernel) about the model of field_map.go / message.go build+cook: the bookkeeping invariant (order list duplicate-free and "
             "equal as a set to the keys of the lookup map) holds after every API operation; under it the written bytes are one field per key of the lookup map, "
             "in the unique order of the section comparator (8,9,35 first, 10 last), independent of the operation order; BodyLength/CheckSum arithmetic; "
             "a copy is equal to its source. Scanner round trip and parse-of-build are monitor + correspondence.",
    "note": "Lean kernel + propext/Classical.choice/Quot.sound; model tied to the Go code by running both on generated op programs each run; "
            "sort.Sort modelled as mergeSort (unique result for the three section comparators)",
    "rule": "seeded op programs of length 1-40 over header/body/trailer (raw and typed setters, overwrite, remove, clear, set again, group set, plain set over a "
            "group tag, copy), observed by build / copybuild / reparse / has / get / tags; distinct = distinct op-kind sequences",
    "assumptions": ["tags in their proper section, SOH-free values, no XMLDataLen in built messages (re-parse clause only)",
                    "group entries use template tags only (Go's comparator ties all other tags)"],
}
