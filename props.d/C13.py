def _c13_relevant(op):
    return op.split(" ")[0] in ("new", "set", "setgrp", "getgrp", "reparse", "build", "has", "get", "ddef")

def _c13_project(op, line):
    w = line.split(" ")
    if op.startswith("reparse") and len(w) == 11 and w[0] == "ok":
        return " ".join(w[:3] + w[5:])
    return line

PROPS["C13"] = {
    "families": {"codec": {"quick": 8000, "thorough": 160000}},
    "relevant": _c13_relevant,
    "project": _c13_project,
    "mon_clauses": ["group_roundtrip", "followers_found", "no_panic{op=getgrp}", "no_panic{op=reparse}", "ddef_mismatch"],
    "claim": "Theorems (Lean kernel) about the model of repeating_group.go: see Props/C13.lean; the round trip through build + parse + GetGroup, without "
             "and with the defining dictionary, is monitor + correspondence over generated templates (depth <= 4) and a seeded sample of the shipped dictionaries' groups.",
    "note": "Lean kernel + propext/Classical.choice/Quot.sound; Group.Read modelled with a fuel counter that is never exhausted (2*len+4)",
    "rule": "templates of depth <= 4 with optional members, counts 0-3, six body positions, read back without dictionary; groups of the nine shipped "
            "dictionaries (seeded sample) read back with app / transport+app dictionary; the shipped dictionaries' groups WITH nested groups, densely nested "
            "(nested members present with probability 4/5 and never empty, plain members 1/6: sibling nested groups back to back, 1-2 entries per level); "
            "distinct = (position, template, count) / (dict, msgType, group, count)",
    "assumptions": ["entries start with the delimiter and use template tags only; template tags distinct; no following field carries a template tag"],
}
