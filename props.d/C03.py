from sessproj import PROJ

_C03_CODEC_OPS = ("parse", "rebuild", "ddef", "static", "set", "seti", "rm", "clear", "setgrp", "copy", "build", "bytes", "copybuild",
                  "reparse", "has", "get", "geti", "tags", "getgrp", "new", "!label")

def _c03_project(op, line):
    # family codec: C03 observes what a resend transmits — bodyBytes of a parsed message (`B <hex>` of a parse observation) and
    # the message rebuilt from them (`rebuild`); everything else of that family belongs to C10/C11/C13
    k = op.split(" ")[0]
    if k in ("round", "srcfacts"):
        # family conc (stress rounds on the real run loop): C03 takes only the monitor's clause "a first-time message is written
        # between the replayed messages of one ResendRequest answer" (the reply is ONE run); the rest of a round is C02's
        return ""
    if k in _C03_CODEC_OPS:
        w = line.split(" ")
        if k == "parse":
            return " ".join(w[3:5]) if (len(w) == 11 and w[0] == "ok") else w[0]
        if k == "rebuild":
            return line
        return ""
    return PROJ["C03"](op, line)

PROPS["C03"] = {
    "families": {"sess": {"quick": 250, "thorough": 6000}, "codec": {"quick": 6000, "thorough": 60000},
                 "conc": {"quick": 300, "thorough": 2500}},
    "mon_clauses": ["C03.", "C09.panic", "c03_rebuild", "C02.replay_exclusive"],
    "project": _c03_project,
    "claim": 'ResendRequest replies: contiguous PossDup cover from BeginSeqNo to min(EndSeqNo,last)+1, gap fills only over administrative / refused numbers, replays equal to what was stored; range logic of the model proved in Props/C03.lean; the byte layer of a replay — bodyBytes of a stored message as parsed (with no / application / transport+application dictionaries, incl. repeating groups at any depth) and the message rebuilt from them: well-formed (`c03_rebuild_wf`) and with a body byte-identical to the one parsed (`c03_rebuild_body`) — is checked by the codec family against the Lean codec model (correspondence on `parse … B <hex>` and `rebuild`) and these two monitor clauses.',
    "note": 'Lean kernel + propext/Classical.choice/Quot.sound; the session model (Qfx/Model/Session.lean, ~600 lines mirroring session.go, session_state.go, in_session.go, resend_state.go, logon_state.go, logout_state.go, pending_timeout.go) is tied to the code by driving a real session built by the real factory synchronously on generated event histories and comparing, per event, callbacks, wire writes, store mutations, timer arms, counters and state; inbound bytes are built by the harness from the same field list the model reads; not modelled: store I/O errors; the session runs with the validator the factory builds (five settings; data dictionaries written by the harness in two cases of five)',
    "rule": 'seeded state-aware histories of 40-120 events (thorough 60-220): acceptor/initiator, FIX.4.0-4.4 + FIXT.1.1, chunk 0/1/2/3/5, reset flags, persistence on/off, latency check on/off, EnableLastMsgSeqNumProcessed (tag 369) in a quarter of the cases, EnableNextExpectedMsgSeqNum in a quarter (inbound Logons then carry tag 789 equal to / below / one above / above our next outbound number, absent or garbled); inbound kinds app/0/1/2/3/4/5/A with sequence numbers drawn relative to the expected one (-3..+12), PossDup/OrigSendingTime variants, header defects, scripted callback verdicts, buffered arrivals, all four timer events, sends, flushes, disconnects, stops, reconnects, session-time changes, ResetSeqTime configured in a quarter of the cases with CheckResetTime calls steered onto / across / around the reset instant (also before any connection, as first call, with the clock stepping back or jumping days) followed by the echo Logon of the peer, a non-echo Logon or application traffic; distinct = distinct configurations; conc (C03 takes one clause of C02\'s stress rounds on the real run loop - concurrent senders, ResendRequests injected at pseudo-random points): no first-time message between the first and the last message of one ResendRequest answer, closing gap fill included (replay_exclusive)',
    "assumptions": ["memory store semantics for the session's store", "the clock enters only as relations (SendingTime offsets far from the 120 s window edge)"],
}
