PROPS["C16"] = {
        "families": {"store": {"quick": 600, "thorough": 30000}},
        "claim": "Theorems (Lean kernel): C16_memory_full, C16_file_full, C16_sql_full — for EVERY operation history (ascending saves per epoch; file: numbers within Go int) the memory, byte-exact file and two-table SQL store models return exactly the observations of the abstract store, including refresh and close-and-reopen; C16_sql_sides_commute — in the SQL store a target-side operation (event loop) and a sender-side operation (sending goroutine) commute, which is what the `sqlinter` operation demands of the real store at statement granularity; plus text-format round trips, durability of counters, isolation of sessions sharing one backing.",
        "note": "Lean kernel + propext/Classical.choice/Quot.sound; models of memory_store.go, store/file/file_store.go (byte-exact files, Fscanf loop), "
                "store/sql/sql_store.go (two tables) tied to the code by differential runs on generated histories incl. the file images after every op; "
                "file system and SQLite are executed, not modelled; Mongo store not covered (no server)",
        "rule": "seeded histories of 20-200 store ops (set/incr/save/save-and-incr/get/iterate with aborting callback/refresh/reset/reopen), ascending save numbers per epoch, "
                "arbitrary bytes incl. SOH/newline/comma/NUL, ranges incl. empty/inverted/beyond, 1-3 sessions sharing a directory / a SQLite file, "
                "kinds mem/file(sync)/file(nosync)/sql; distinct = distinct (kind, first 12 op names)",
        "assumptions": ["session ids drawn from [A-Z0-9]+ (createFilenamePrefix is not injective with '_'/'-', DESIGN §9 D14)",
                        "I/O errors of the file system / database are not generated in C16"],
    }
