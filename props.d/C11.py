def _c11_relevant(op):
    return op.split(" ")[0] in ("parse", "ddef", "static", "has", "get", "geti", "bytes", "build")

def _c11_project(op, line):
    # C11 does not observe bodyBytes (C03): drop `B <hex>` from a parse observation
    w = line.split(" ")
    if op.startswith("parse") and len(w) == 11 and w[0] == "ok":
        return " ".join(w[:3] + w[5:])
    return line

PROPS["C11"] = {
    "families": {"codec": {"quick": 6000, "thorough": 120000}},
    "relevant": _c11_relevant,
    "project": _c11_project,
    "mon_clauses": ["rejects_order", "rejects_length", "accepts_wf", "fields_faithful", "parsed_sections", "retrievable", "raw_unchanged",
                    "no_panic{op=parse}", "no_panic{op=get}", "no_panic{op=has}", "no_panic{op=geti}", "ddef_mismatch"],
    "claim": "Theorems (Lean kernel) about the model of tag_value.go / message.go doParsing: a message whose leading fields are not 8,9,35 is rejected; "
             "extractField returns exactly the bytes up to the first SOH with the tag/value split at the first '='. Fidelity of the whole parse loop, "
             "section slicing under dictionaries and the length rejection are monitor + correspondence (generated wire messages, three dictionary modes).",
    "note": "Lean kernel + propext/Classical.choice/Quot.sound; dictionaries are inputs of the model (key sets of Header/Trailer, Fields tree per message type), "
            "exported per case from the dictionaries loaded by the real datadictionary.Parse",
    "rule": "wire messages from the FIX grammar over arbitrary tags and SOH-free values incl. 212/213, none/app/transport+app dictionaries (also a transport "
            "dictionary != application dictionary that defines user-defined header/trailer tags 10030/5050), every single-field "
            "corruption of BodyLength and of the leading order; wire messages carrying groups of the shipped dictionaries (sampled / densely nested, "
            "sibling nested groups back to back) as built and with a standard or user-defined header/trailer tag directly behind the group's last member; "
            "distinct = (mode, msgType, section sizes) / (dict, msgType, group, count)",
    "assumptions": ["a fresh Message is the parse target (no reuse of a previous fields array)", "tag texts of at most 18 digits (longer ones wrap in atoi, see C14)"],
}
