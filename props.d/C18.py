PROPS["C18"] = {
    "families": {"sched": {"quick": 300, "thorough": 6000}},
    "claim": "Theorems (Lean kernel) over the model of internal/time_range.go in fixed-offset zones: in-range = membership in one of the "
             "declaratively enumerated windows (daily incl. overnight and weekday restriction by opening day; weekly), for every configuration and instant; "
             "same-range clauses as listed in Props/C18.lean. DST zones: outside the Lean model (no zone database), Go-side oracle only.",
    "note": "Lean kernel + standard axioms; model tied to the code by differential runs through the schedule the real session factory builds from settings "
            "(StartTime/EndTime/TimeZone/Weekdays/StartDay/EndDay) on calendar grids incl. +-3 s around every edge; time.Time civil arithmetic in fixed-offset zones is modelled as integer arithmetic",
    "rule": "seeded configurations (daily / daily+weekdays / weekly; start<end, overnight, start=end; 5 fixed-offset zones) x 60 instants + 40 pairs over 5 weeks incl. window edges; distinct = distinct configurations",
    "assumptions": ["whole-second instants", "DST zones not modelled"],
}
