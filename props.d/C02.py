from sessproj import make, is_store, is_wire

_sess = make(lambda i: is_store(i, "save", "incS", "setS", "reset") or is_wire(i), ["ctrS"])

def _proj(op, line):
    w = op.split()
    if w and w[0] == "round":
        # stress round (family conc): the model predicts the final store from the parameters alone (numbers are
        # consecutive whatever the schedule); the event list itself is judged by the monitor, not compared.
        o = line.split()
        if not o or o[0] != "ok":
            return line
        kv = dict(x.split("=", 1) for x in w[1:] if "=" in x)
        if kv.get("early") == "1" and kv.get("reset") != "0":
            return "ok ? ? " + o[3]      # sends racing with a Logon-triggered reset: count of the last epoch is schedule dependent
        return " ".join(o[:4])
    return _sess(op, line)

PROPS["C02"] = {
    "families": {"sess": {"quick": 250, "thorough": 6000}, "conc": {"quick": 150, "thorough": 1500}},
    "mon_clauses": ["C02.", "C09.panic"],
    "project": _proj,
    "claim": 'placeholder',
    "note": 'placeholder',
    "rule": 'placeholder',
    "assumptions": [],
}
