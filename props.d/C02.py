from sessproj import make, is_store, is_wire

_sess = make(lambda i: is_store(i, "save", "incS", "setS", "reset") or is_wire(i), ["ctrS"])

_C02_STORE_OPS = ("open", "setS", "setT", "incS", "incT", "save", "saveIncr", "get", "iter", "refresh", "reset", "reopen", "sqlinter")

def _c02_relevant(op):
    # family store: C02 takes the SQL store's interleavings only (`sqlinter`: the event loop's target-side update against a sending
    # goroutine's save-and-increment, at statement granularity): the next outbound number a fresh store reads back must be the one
    # the live store handed out.  Everything else of that family belongs to C16.
    k = op.split(" ")[0]
    return k == "sqlinter" or k not in _C02_STORE_OPS

def _proj(op, line):
    w = op.split()
    if w and w[0] == "sqlinter":
        return line
    if w and w[0] == "round":
        # stress round (family conc): the model predicts the final store from the parameters alone (numbers are
        # consecutive whatever the schedule); the event list itself is judged by the monitor, not compared.
        o = line.split()
        if not o or o[0] != "ok":
            return line
        kv = dict(x.split("=", 1) for x in w[1:] if "=" in x)
        if kv.get("op", "0") != "0":
            return "ok ? ? " + o[3]      # an operator's ResetSession: the last epoch starts at a schedule dependent moment
        if kv.get("early") == "1" and kv.get("reset") != "0":
            return "ok ? ? " + o[3]      # sends racing with a Logon-triggered reset: count of the last epoch is schedule dependent
        return " ".join(o[:4])
    return _sess(op, line)

PROPS["C02"] = {
    "families": {"sess": {"quick": 250, "thorough": 6000}, "conc": {"quick": 300, "thorough": 2500},
                 "store": {"quick": 150, "thorough": 1500}},
    "mon_clauses": ["C02.", "C09.panic", "counters_differ"],
    "relevant": _c02_relevant,
    "project": _proj,
    "claim": ('THEOREMS (Lean kernel, no sorry): (A) C02_all_schedules - in the lock-level model Qfx.Conc (thread 0 = session goroutine running any list of '
              'sendInReplyTo / dropAndSendInReplyTo / SendAppMessages / dropAndReset / EnqueueBytesAndSend / resendMessages calls with any flush outcomes, any number of '
              'foreign goroutines each running any sequence of SendToTarget (queueForSend) and ResetSession (ShutdownNow\'s Logout through sendInReplyTo on the caller\'s goroutine, then dropAndReset) calls, every entry point a program of atomic steps with readSeq and persist as SEPARATE steps, '
              'sync.Mutex / sync.RWMutex enabledness) the monitor MonitorC02 accepts the event trace of EVERY schedule of any length: numbers handed out consecutive with no gap or '
              'repeat and store.next = last+1, first-time messages on the wire in increasing order per epoch, with persistence every first-time write of n after the store saved n, '
              'no first-time write between the replayed messages of one ResendRequest answer; C02_final_store - the store equals what the trace says after every schedule; '
              'four kernel-decided witnesses that the statement is FALSE without sendMutex, without resendMutex.RLock in queueForSend, without it in sendInReplyTo (operator calling ResetSession during a replay), and with persist after the flush; '
              'the programs are pinned to the regenerated lock skeletons of the source (C02_skel_*, C02_send_path_functions). (B) C02_seq - in the sequential session model '
              '(the one the correspondence check compares with the real session event by event) for ALL configurations and ALL event histories: every save happens at the tracked next '
              'outbound number which then advances by one, reset => 1, the tracked number is the store\'s at the end, and with persistence every first-time write (admin or application) '
              'of number n / MsgType k comes after the store saved (n,k); C02_seq_epoch - for histories in which the application does not itself submit a reset Logon, first-time writes are strictly increasing per epoch and happen only after a save since the last reset; C02_seq_flush_transmits_all - one flush of a logged-on connected session writes the whole queue. SAMPLED, not proved: schedules of the real engine (family conc: real session.run() goroutine, 4-32 concurrent '
              'senders, scripted peer with ResendRequests / TestRequests / Heartbeats, memory and file store; MonitorC02 + final store + "every number handed out while logged on is '
              'transmitted" evaluated on the observed events). Liveness is only sampled. SQL store not run (no driver offline). Byte identity of stored vs sent message belongs to C10/C11.'),
    "note": ('Lean kernel + propext/Classical.choice/Quot.sound. ASSUMED: the Go memory model and sync.Mutex / sync.RWMutex semantics as modelled (lockS enabled iff no holder, rlockR iff no writer, '
             'lockR iff no writer and no readers - a superset of Go\'s schedules); atomicity at the granularity of lock operations and protected actions (the steps of Qfx.Conc.Step); '
             'store operations succeed; the application does not submit a Logon with ResetSeqNumFlag through SendToTarget; only the session goroutine calls the session-side entry points '
             '(ResetSession from another goroutine is IN the model; its unsynchronised reads of session.State are not). TIE: harness/extract.go regenerates the source-order lock/protected-action skeleton of every send-path function '
             'on every run; Props/C02.lean proves each equals the model program (removing or reordering a lock breaks a named obligation => VIOLATION, after the stress family has searched '
             'for a failing round); the sequential model is tied by the sess correspondence (store mutations, wire writes, sender counter per event). Defect fixed on the way: '
             'handleLogon / Connect reset the store outside sendMutex and without dropping the queue (repo commit "fix: Logon-triggered sequence resets drop the send queue under the send lock").'),
    "rule": ('sess: see C01 (projection: store save/incS/setS/reset items, wire writes, sender counter). conc: one case = one stress round of the real engine: store mem|file (1/8), '
             'persistence on (4/5), 4/8/16/32 sender goroutines, 120-360 sends (thorough 300-1500), senders started before the Logon in 1/4 of the rounds, session is the initiator in 1/4, an operator goroutine calls the public quickfix.ResetSession in 3/10 (1/10 at a pseudo-random point of the script, 2/10 from inside a multi-message replay: started by the ToApp callback of the second replayed message), Logon-triggered reset '
             '(peer 141=Y or ResetOnLogon) in 1/3, 0-3 ResendRequests over ranges already seen, 0-3 TestRequests, 0-2 Heartbeats at pseudo-random points, outbound channel capacity 0/1/4/64, '
             'Gosched / microsecond sleeps from the case PRNG; rounds run in a worker process so that an engine that corrupts memory is an observation (crashed), not a harness failure; '
             'a corpus of 12 rounds (parameter sets on which the unchanged tree or the sanity mutants failed) runs first; distinct = distinct (store, persist, early, reset, senders, replay seen) shapes'),
    "assumptions": ["Go memory model, sync.Mutex / sync.RWMutex semantics, step granularity (see note)",
                    "schedules of the real engine are sampled by the stress family, never enumerated; a stress round is not replayable as a schedule - the recorded observation line is what the monitor judges",
                    "memory store semantics for the sequential model's store; file store exercised in 1/8 of the stress rounds; SQL store not exercised by the stress rounds; its statement-level interleavings (event loop's target-side update against a sending goroutine's save-and-increment) are driven deterministically by the store family's `sqlinter` op"],
    "trusted": ["harness/fam_conc.go event reconstruction: store events are recorded under the logging store's own lock in the order they happen, wire events in the order the peer reads the connection channel, "
                "ResendRequest answers are delimited as the run of PossDup=Y messages covering the requested range"],
}
