from sessproj import make, is_store, is_wire
PROPS["C02"] = {
    "families": {"sess": {"quick": 250, "thorough": 6000}},
    "mon_clauses": ["C02.", "C09.panic"],
    # what C02 observes of a synchronous session event: store mutations of the outbound side, wire writes, the counter
    "project": make(lambda i: is_store(i, "save", "incS", "setS", "reset") or is_wire(i), ["ctrS"]),
    "claim": 'placeholder',
    "note": 'placeholder',
    "rule": 'placeholder',
    "assumptions": [],
}
