def _proj(op, line):
    w = line.split()
    if w and w[0] in ("ok", "err"):
        return "nopanic"
    if op.startswith("v ") or op.startswith("ddict "):
        # family valid (dictionary-directed messages covering every field type of the shipped dictionaries): only a panic counts here
        return "panic" if (w and w[0] == "panic") else "nopanic"
    if op.startswith("round ") and w and w[0] == "obs":
        return "nopanic"      # family sockj: the round is judged by the monitor (no panic, still serving)
    return line

PROPS["C09"] = {
    "families": {"robust": {"quick": 120, "thorough": 6000}, "sockj": {"quick": 4, "thorough": 100}, "valid": {"quick": 8, "thorough": 16}},
    "mon_clauses": ["C09.", "no_panic"],
    "project": _proj,
    "independent_ops": True,
    "claim": "Theorems (Lean kernel) `… ≠ fault` / `isFault = false` about the panic-explicit models: the stream framer for every reader (C09_framer_total, C09_framer_no_fault), "
             "the message parser for every byte string and dictionaries (C09_parse_total), the typed getters (C11_getters_total), atoi (C09_atoi_total), the section-pointer automaton "
             "of ParseSettings (C09_settings_total), with decided witnesses that the pinned originals did fault (empty integer, BodyLength overflow, missing CheckSum, XMLDataLen, setting outside a section). "
             "Every entry point of the REAL code (parse with none/app/transport+app dictionaries + every typed getter, validate against shipped dictionaries, ParseSettings, "
             "datadictionary.ParseSrc, a session in six states fed raw bytes and then probed with a TestRequest) is run on hostile bytes under recover + timeout. "
             "The dictionary-directed messages of the `valid` family (every message type and every field type of the nine shipped dictionaries, conforming and with single defects) are validated too: a panic of the validator is a C09 violation (`no_panic`). "
             "Partial: only the modelled index arithmetic is proved safe; nil-map / library panics elsewhere are reachable only by the generated runs. "
             "SAMPLED socket layer (family `sockj`): a real quickfix.NewAcceptor (two configured sessions) with a real initiator connected through the harness's TCP proxy receives raw hostile connections "
             "before and while the counterparty is connected: random bytes, truncated Logons, messages for unknown sessions (with and without sub/location IDs), huge / negative / empty / overflowing BodyLength, "
             "framed first messages without CompIDs, a second Logon for the connected session, non-Logon first messages, and a second session that logs on for real and then sends framed and unframed rubbish. "
             "Decided by the monitor: no recovered panic in a connection handler (acceptor log), no crashed worker process, the real counterparty still logs on and every application message of both directions "
             "is delivered (`C09.sock_not_serving{who=real}`), and after all of it the acceptor answers the second session's Logon and TestRequest on a new connection (`{who=J}`).",
    "note": "Lean kernel + standard axioms; models tied to the code by the frame / codec / val / dict families; regexp, encoding/xml, AddSession validation and the dictionary validator are executed, not proved total",
    "rule": "seeded hostile inputs: random bytes over the FIX alphabet, grammar-built messages with 1-2 mutations (truncate, drop CheckSum, bad/huge/negative/empty BodyLength, flipped byte, duplicated field, "
            "empty value, XMLData with wrong length, no SOH, broken tag, huge group count); settings texts and dictionary XML assembled from fragments; distinct = distinct byte strings; "
            "sockj: one seeded round per case with 2-8 hostile connections of 9 kinds next to a live initiator/acceptor pair, each round in its own worker process",
    "assumptions": ["a hang is a 5-10 s timeout of one call", "sockj: scheduler and TCP timing are outside the model; bounded waits that ran out are repeated up to twice before they are reported", "a fatal runtime error (stack overflow) would kill the harness and is reported as a broken run"],
}
