def _c12_project(op, line):
    # C12 observes the frames and the terminal error class, nothing else
    if op.startswith("round "):
        # family sockj (real acceptor over TCP): C12 takes one clause of the monitor — a TestRequest written together with the
        # Logon is answered like one sent apart (the handshake parser's buffered bytes are not lost); the rest is C09's / C05's
        return ""
    w = line.split()
    return " ".join(w[:4])

PROPS["C12"] = {
        "families": {"frame": {"quick": 2000, "thorough": 15000}, "sockj": {"quick": 2, "thorough": 24}},
        "project": _c12_project,
        # c12_*: chunk independence / whole-stream spec / exactness;  c09_framer_*: the framer part of C09 (panic, hang)
        "mon_clauses": ["c12_", "c09_framer_", "C12."],
        "claim": "Theorems (Lean kernel, all chunk lists incl. empty reads, both EOF conventions of io.Reader): the frames and the terminal error "
                 "the model of parser.go extracts from a reader serving chunks cs equal framesWhole(cs.flatten), a function of the stream alone "
                 "(C12_chunk_independent); for junk/message interleavings with well-formed frames and junk without '8=' the frames are exactly the "
                 "messages and the stream ends with EOF (C12_exact); the parser never indexes out of range and never issues a zero-length read "
                 "(C12_no_fault), termination is by construction (well-founded recursion on unread bytes).",
        "note": "Lean kernel + propext/Classical.choice/Quot.sound; Qfx.Model.Framer mirrors parser.go (buffer window, bigBuffer, shift/grow, re-scan after refill) "
                "and is tied to the code each run by reading the same streams through the real parser under ~7 partitions each; "
                "the monitor (whole-stream spec, cross-partition equality, exactness for verified decompositions) runs on the implementation's own frames",
        "rule": "seeded generation: 50% well-formed messages (correct BodyLength/CheckSum, arbitrary bodies incl. embedded markers) interleaved with junk without '8='; "
                "35% grammar-mutated (bad/huge/negative/empty/overflowing lengths, missing 9=/10=/SOH, headless, truncated); 15% marker soup/random bytes; "
                "each stream read whole, one byte at a time, random chunks, cut at every position inside 8=/SOH9=/digits/SOH10=, at one marker position, "
                "buffer-sized chunks (2048..8192) for long streams, every single cut position of some short streams, with io.EOF delivered with or after the last bytes, and through readLoop; "
                "bodies up to 17k (quick) / 40k (thorough) so the buffer shifts and grows; distinct = (stream kind, frames, end, partition kind, size bucket)",
        "assumptions": ["the reader honours io.Reader: at most len(p) bytes per call, and its data are finite (a stream that never ends is not a terminating case)",
                        "bytes.Index and copy are the Go library's (modelled as first occurrence / memmove)"],
    }
