def _proj_c05(op, line):
    # family sock: the model does not predict the schedule of a round behind real sockets, only the verdict (`ok`);
    # the observation line is judged by the monitor alone
    if op.startswith("round ") and line.startswith("obs "):
        return "ok"
    return line

PROPS["C05"] = {
    "families": {"link": {"quick": 120, "thorough": 4000}, "sock": {"quick": 7, "thorough": 154}},
    "mon_clauses": ["C05.", "C09.panic"],
    "project": _proj_c05,
    "claim": "Two REAL engines (initiator + acceptor, memory or file stores) are driven through generated fault histories (sends on both sides also while disconnected, "
             "deliveries, cuts losing everything in flight, reconnects, restarts on the file store, heartbeats) and compared event by event with the Lean two-engine model; "
             "the prefix monitor (delivered is a prefix of submitted, both directions) is evaluated after every operation and equality after settling. "
             "Theorems: `C05_safety` — for ALL configurations (persistence on, resets off, EnableNextExpectedMsgSeqNum off, mirrored CompIDs, same BeginString; everything else free) and ALL fault histories "
             "with non-empty payload ids and sequence numbers within Go's int, delivered is a prefix of submitted in both directions (in order, exactly once, nothing unsent); "
             "`C05_invariant` (delivered = payloads of the peer's stored application messages below the expected number); meaning of the prefix clause and of the monitor's silence "
             "(`C05_monitor_silent_iff_safe`, `C05_monitor_settled_silent_iff`), faithfulness of the links, "
             "number round trip, per-engine delivery (C01). The statement without side conditions (`def C05_safety_full`) is FALSE of the model: an empty payload value is "
             "refused as malformed by the peer and consumed (#guard counterexample + theorem `C05_empty_payload_is_consumed`); the generator never produces one. With EnableNextExpectedMsgSeqNum on, `C05_safety` says nothing (hypotheses hnxa hnxb; the link generator never sets the option; observation in Props/C05.lean: the first logon attempt of two fresh engines with the option fails). Liveness: `C05_liveness_reconnect` — after EVERY fault history (ResendRequestChunkSize 0, roles fixed, ApplVerID under FIXT, head-room for the numbers) the schedule "
             "cut, connect, both Logons, one flush per side, deliveries ends with delivered = submitted in both directions, nothing in flight, both engines InSession "
             "(all gap cases); `C05_liveness_nogap` (no gap: delivering what is in flight suffices). The chunked case is NOT proved (`def C05_liveness_full`); it is sampled. "
             "Deliveries + heartbeats alone can leave a link stuck (needs the peer/logon/logout timeouts or a reconnect): #guard + corpus/C05/stuck-without-timeouts.ops, same on the real engines. "
             "SAMPLED socket layer (family `sock`): a real quickfix.NewAcceptor and a real quickfix.NewInitiator (generated Settings: FIX.4.2/4.4/FIXT.1.1, memory or file store, "
             "ResendRequestChunkSize 0-3, ReconnectInterval 0.2-1 s, HeartBtInt 1-2 s) talk through a TCP proxy of the harness on loopback that passes, splits, holds and releases bytes, "
             "cuts the connection (losing what it holds), refuses connections, and — one round in seven, so at least one per quick run, which one and in which direction is a function of the seed — watches the bytes and resets the connection when the first replayed message (43=Y) of a 2000-3000 message backlog passes, i.e. in the middle of the burst of blocking sends answering a ResendRequest; both sides submit with SendToTarget also while the link is down; engines are stopped and recreated on the file store. "
             "The Lean side predicts NO interleaving for these rounds, only the verdict the theorems give for every schedule; the same prefix monitor (`Qfx.Link.monLink`) decides each round: "
             "at every delivery the delivered list is a prefix of what the other side had submitted, after settling (both logged on, everything delivered or three quiet heartbeat intervals, bound 10 s) "
             "delivered = submitted in both directions, every OnLogon is closed by one OnLogout, no panic and no crashed process. This ties acceptor.go / initiator.go / connection.go / the run loop of session.go "
             "to `C05_safety` ONLY through the monitor on the sampled rounds.",
    "note": "Lean kernel + standard axioms for the listed theorems; the Link model composes two copies of the session model that is tied to the code by the sess family; "
            "sockets, goroutine scheduling, reconnect timers and bufio are outside the model (partial): the family `sock` runs them for real but only SAMPLES schedules (the Go scheduler and TCP timing are not controlled, "
            "a round is one schedule); liveness rests on the correspondence runs only",
    "rule": "seeded fault histories of 30-80 events + settling rounds; BeginString 4.0-4.4/FIXT, chunk sizes 0-4 per side, memory/file store; distinct = distinct (configuration, case); "
            "sock: one seeded round per case (1-4 link faults: cut, hold+cut, hold+release, outage, engine restart; 10-60 submissions; every 7th round: backlog of 2000-3000 submitted while down + reset on the first replayed message), each in its own worker process, 3 (quick) / 6 (thorough) rounds in flight",
    "assumptions": ["sequence resets disabled; ToApp always accepts", "a cut loses everything still in flight (partial loss = deliveries followed by a cut)",
                    "sock: scheduler and TCP timing are outside the model; a round whose bounded waits ran out (not settled within 10 s, Stop not back within 8 s, SendToTarget not back within 3 s, worker silent) is repeated up to twice "
                    "(at most 8 repeats per run) and only then reported as C05.sock_not_settled; a lost, duplicated or reordered message, a panic or a crash is never repeated"],
}
