PROPS["C05"] = {
    "families": {"link": {"quick": 120, "thorough": 4000}},
    "mon_clauses": ["C05.", "C09.panic"],
    "claim": "Two REAL engines (initiator + acceptor, memory or file stores) are driven through generated fault histories (sends on both sides also while disconnected, "
             "deliveries, cuts losing everything in flight, reconnects, restarts on the file store, heartbeats) and compared event by event with the Lean two-engine model; "
             "the prefix monitor (delivered is a prefix of submitted, both directions) is evaluated after every operation and equality after settling. "
             "Theorems: `C05_safety` — for ALL configurations (persistence on, resets off, mirrored CompIDs, same BeginString; everything else free) and ALL fault histories "
             "with non-empty payload ids and sequence numbers within Go's int, delivered is a prefix of submitted in both directions (in order, exactly once, nothing unsent); "
             "`C05_invariant` (delivered = payloads of the peer's stored application messages below the expected number); meaning of the prefix clause, faithfulness of the links, "
             "number round trip, per-engine delivery (C01). The statement without side conditions (`def C05_safety_full`) is FALSE of the model: an empty payload value is "
             "refused as malformed by the peer and consumed (#guard counterexample + theorem `C05_empty_payload_is_consumed`); the generator never produces one. "
             "Liveness: `C05_liveness_reconnect` — after EVERY fault history (ResendRequestChunkSize 0, roles fixed, ApplVerID under FIXT, head-room for the numbers) the schedule "
             "cut, connect, both Logons, one flush per side, deliveries ends with delivered = submitted in both directions, nothing in flight, both engines InSession "
             "(all gap cases); `C05_liveness_nogap` (no gap: delivering what is in flight suffices). The chunked case is NOT proved (`def C05_liveness_full`); it is sampled. "
             "Deliveries + heartbeats alone can leave a link stuck (needs the peer/logon/logout timeouts or a reconnect): #guard + corpus/C05/stuck-without-timeouts.ops, same on the real engines.",
    "note": "Lean kernel + standard axioms for the listed theorems; the Link model composes two copies of the session model that is tied to the code by the sess family; "
            "sockets, goroutine scheduling, reconnect timers and bufio are outside the model (partial); liveness rests on the correspondence runs only",
    "rule": "seeded fault histories of 30-80 events + settling rounds; BeginString 4.0-4.4/FIXT, chunk sizes 0-4 per side, memory/file store; distinct = distinct (configuration, case)",
    "assumptions": ["sequence resets disabled; ToApp always accepts", "a cut loses everything still in flight (partial loss = deliveries followed by a cut)"],
}
