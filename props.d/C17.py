PROPS["C17"] = {
        "families": {"crash": {"quick": 60, "thorough": 2000}},
        "claim": "Theorems (Lean kernel) over the byte-exact file-store model with crash semantics and the two-table SQL model: C17_partial — for every history, operation, crash point, cut and mode "
                 "except a process crash inside the in-place rewrite of a 19-byte counter file, a fresh store recovers a view satisfying the whole conclusion (completed saves intact, counters before-or-after, "
                 "used => retrievable); C17_synced_between_ops; C17_sql_atomic; the full statement C17_full is refuted by C17_full_false (torn counter, known finding).",
        "note": "Lean kernel + propext/Classical.choice/Quot.sound; crash semantics are the property's own file-system model (ordered writes, a cut write keeps a prefix, "
                "sync is durable, directory operations durable at once); every crash image of the generated histories is built from the real store's writes "
                "(hook in store/file, tag verif), compared byte for byte with the model's image, and a fresh real store is opened on it; real kernels may be worse",
        "rule": "seeded histories of 6-30 ops on file stores (sync on; 1/8 sync off), after about every second mutating op every crash point of that op: each primitive boundary in process-crash "
                "and power-loss mode, every byte cut of short writes (index lines, session), tail cuts of the 19-byte counters, 7 sampled cuts of long writes; one third of the explorations "
                "continue the history on a crash image (reopen + further ops, the interrupted save repeated); SQL: the k-th statement of save-and-increment/save/incr/set fails",
        "assumptions": ["file-system semantics as stated in the note (DESIGN §5 C17 'Partial')",
                        "recovery probes are opened with FileStoreSync=N (same code paths, no fsync)"],
    }
