PROPS["C19"] = {
        "families": {"dict": {"quick": 309, "thorough": 4009}},
        "claim": "Theorems (Lean kernel), for every specification AST with unique names and every recursion budget: what the builder model "
                 "returns for a message/header/trailer is the declaration-order expansion of its members with components expanded in place "
                 "(C19_group_order), its tag set is exactly the reachable tags (C19_fields), its required set is exactly the directly "
                 "required fields plus recursively those of required components (C19_required, also per group), field types and enums are the "
                 "declared ones (C19_types_enums), a file with an undefined reference is never loaded (C19_refuses_dangling); "
                 "the pre-fix NewMessageDef violates C19_required on a decided witness. All clauses are also proved for the builder with the circular-reference check "
                 "(buildS, the current tree): it agrees with the unchecked builder on success, loads every well-formed acyclic file, refuses a file with unique names and no "
                 "dangling reference exactly when its component graph is cyclic (C19_cycle_iff), and never exhausts its recursion budget (C19_no_overflow).",
        "note": "Lean kernel + propext/Classical.choice/Quot.sound; the builder model (Qfx/Model/Dict.lean) is tied to datadictionary/{build,datadictionary}.go by "
                "running both on the nine shipped files in full and on generated specifications each run; the monitor compares the real loader's dump with the "
                "specification computed from an independently read AST; XML decoding itself (encoding/xml) is executed, not modelled",
        "rule": "case 0-8: the nine shipped specification files in full (every message, header, trailer, field types); then seeded generated specifications: "
                "3-14 fields, 0-6 layered components declared in random order, 1-4 messages, nesting depth <= 5, required probability 0.2/0.5/0.8, "
                "10% dangling field, 10% dangling component, 10% cyclic components (loaded in a child process so that an unfixed tree cannot take the harness down); distinct = distinct ASTs / messages",
        "mon_clauses": ["fields", "required", "group_order", "group_required", "fields_map", "types_enums", "refuses_dangling",
                        "loads_wellformed", "messages"],
        "assumptions": ["the independent XML reader (harness/fam_dict.go, token walk) and encoding/xml are trusted to deliver the file's element tree",
                        "root attributes and XML well-formedness errors are not modelled (kept valid by the generator)"],
    }
