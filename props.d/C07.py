from sessproj import PROJ
PROPS["C07"] = {
    "families": {"sess": {"quick": 250, "thorough": 6000}},
    "mon_clauses": ["C07.", "C09.panic"],
    "project": PROJ["C07"],
    "claim": 'Resets only when configured/negotiated, reset-Logon numbering and echo, forward-only SequenceReset; theorems in Props/C07.lean.',
    "note": 'Lean kernel + propext/Classical.choice/Quot.sound; the session model (Qfx/Model/Session.lean, ~600 lines mirroring session.go, session_state.go, in_session.go, resend_state.go, logon_state.go, logout_state.go, pending_timeout.go) is tied to the code by driving a real session built by the real factory synchronously on generated event histories and comparing, per event, callbacks, wire writes, store mutations, timer arms, counters and state; inbound bytes are built by the harness from the same field list the model reads; not modelled: EnableNextExpectedMsgSeqNum, store I/O errors, data dictionaries in the session',
    "rule": 'seeded state-aware histories of 40-120 events (thorough 60-220): acceptor/initiator, FIX.4.0-4.4 + FIXT.1.1, chunk 0/1/2/3/5, reset flags, persistence on/off, latency check on/off, EnableLastMsgSeqNumProcessed (tag 369) in a quarter of the cases; inbound kinds app/0/1/2/3/4/5/A with sequence numbers drawn relative to the expected one (-3..+12), PossDup/OrigSendingTime variants, header defects, scripted callback verdicts, buffered arrivals, all four timer events, sends, flushes, disconnects, stops, reconnects, session-time changes, ResetSeqTime configured in a quarter of the cases with CheckResetTime calls steered onto / across / around the reset instant (also before any connection, as first call, with the clock stepping back or jumping days) followed by the echo Logon of the peer, a non-echo Logon or application traffic; distinct = distinct configurations',
    "assumptions": ["memory store semantics for the session's store", "the clock enters only as relations (SendingTime offsets far from the 120 s window edge)"],
}
