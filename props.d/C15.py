PROPS["C15"] = {
        "families": {"valid": {"quick": 8, "thorough": 48}},
        "claim": "Theorems (Lean kernel) about the validator model for every dictionary view, message and all 2^5 settings: C15_accepts — a conforming instance tree WITH "
                 "repeating groups (nested, optional members, any number of entries) is accepted, with validateWalk's own fuel budget proved adequate for definitions whose member "
                 "lists are shorter than 3997 and whose tags are pairwise distinct (both evaluated on every shipped dictionary by the monitor: clause dict_wf); one theorem per "
                 "defect kind naming reason and tag: unknown MsgType (11), required missing at top level (1) and inside a group entry incl. the end of an entry (1), tag not "
                 "defined for the type (2), tag not in dictionary (0), empty value (4, both routes), bad enum (5), bad format (6), group count mismatch (16), member out of "
                 "order for a top-level group (1/2/16 in the allowed set), header/body/trailer order (14), duplicate tag (13); and which settings switch which rule off. "
                 "Decided witnesses show the three validator defects of the unchanged tree that were fixed (multiple-value enums, group tail, MsgType vs transport enum). "
                 "Monitor only: member order in NESTED groups or involving the delimiter.",
        "note": "Lean kernel + propext/Classical.choice/Quot.sound; the validator model (Qfx/Model/Validate.lean) is tied to validation.go by running both on ~6000 "
                "generated messages per run over all shipped dictionaries and all 2^5 settings; dictionaries reach the model through the C19 builder model from the "
                "independently read specification; the header/body/trailer sectioning is taken from the real parser (codec family); value types via the C14 model",
        "rule": "one case per dictionary configuration (FIX40..FIX44; FIXT11+FIX50/SP1/SP2), message types cycled in seeded order; instance = walk of MessageDef.Parts "
                "(required always, optional with p in {0.1,0.5,0.9}, groups 0-3 entries starting with the delimiter, values from the type grammar, declared enum values, "
                "body units in declaration / ascending / random order); 40% conforming, 60% one planted defect of 11 kinds at a random eligible position; "
                "each message under the default settings and two random settings; distinct = (dictionary, msgtype, kind, tag)",
        "assumptions": ["sectioning (Header/Body/Trailer membership) is an input taken from the real parser; XMLData (212/213) is never generated",
                        "when several required tags of one section are missing, implementation (map order) and model are both canonicalised to the smallest tag"],
    }
