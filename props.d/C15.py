PROPS["C15"] = {
        "families": {"valid": {"quick": 8, "thorough": 48}},
        "claim": "Theorems (Lean kernel) about the validator model for every dictionary, message and settings: rule pipeline order and which settings switch "
                 "which rule off, unknown MsgType / missing required tag / empty value / duplicate tag / undefined tag are named with the FIX reason and tag "
                 "(see Props/C15.lean for the exact list); acceptance of every conforming instance tree and the group-walk defects are stated as "
                 "`def C15_..._full : Prop` and covered by the monitor on generated instances only.",
        "note": "Lean kernel + propext/Classical.choice/Quot.sound; the validator model (Qfx/Model/Validate.lean) is tied to validation.go by running both on ~6000 "
                "generated messages per run over all shipped dictionaries and all 2^5 settings; dictionaries reach the model through the C19 builder model from the "
                "independently read specification; the header/body/trailer sectioning is taken from the real parser (codec family); value types via the C14 model",
        "rule": "one case per dictionary configuration (FIX40..FIX44; FIXT11+FIX50/SP1/SP2), message types cycled in seeded order; instance = walk of MessageDef.Parts "
                "(required always, optional with p in {0.1,0.5,0.9}, groups 0-3 entries starting with the delimiter, values from the type grammar, declared enum values, "
                "body units in declaration / ascending / random order); 40% conforming, 60% one planted defect of 11 kinds at a random eligible position; "
                "each message under the default settings and two random settings; distinct = (dictionary, msgtype, kind, tag)",
        "assumptions": ["sectioning (Header/Body/Trailer membership) is an input taken from the real parser; XMLData (212/213) is never generated",
                        "when several required tags of one section are missing, implementation (map order) and model are both canonicalised to the smallest tag"],
    }
