PROPS["C14"] = {
        "families": {"val": {"quick": 150, "thorough": 6000}},
        "independent_ops": True,
        "claim": "Theorems (Lean kernel): int write/read round trip for every 64-bit value, int acceptance = FIX grammar, exact value up to 18 digits, "
                 "boolean both directions + grammar, float acceptance = grammar and below the overflow threshold, "
                 "float VALUE: binary64 modelled as exact integer arithmetic; every accepted text is read as the nearest double (ties to even) of the rational it denotes, "
                 "sign kept also on zero, for every byte string (C14_float_read_nearest, C14_float_ok_iff); the declarative nearest-even reading determines the bits "
                 "(C14_float_nearest_unique), hence any written text whose declarative reading is the value reads back as exactly that value (C14_float_write_read_model); "
                 "the model's writer (shortest digits that read back, closest, ties to even, printed positionally) round-trips for every finite 64-bit pattern "
                 "(C14_float_write_read) and its outputs are reproduced by read-then-write (C14_float_read_write); "
                 "timestamp write/read at four precisions for every valid civil instant of years 0-9999, "
                 "timestamp read/write and acceptance = the strict UTCTimestamp grammar, string identity, decimal write/read (written text reads back as the value "
                 "rounded half away from zero to the field's scale; unsigned decimals cut toward zero) and canonical decimal read/write. "
                 "Monitor on the implementation, every run: float read returns the declaratively nearest bits; float write yields a text of the grammar in %f-canonical form "
                 "that reads back (declaratively) to the same bits, and no text with one significant digit fewer, nor a closer one of the same length, does. "
                 "Correspondence only: that strconv's digits equal the model writer's (that the model writer's text is the shortest possible is stated, "
                 "C14_float_write_shortest_full, not proved), decimal exponent notation, udecimal's 19-digit limit.",
        "note": "Lean kernel + propext/Classical.choice/Quot.sound; the model of fix_int.go/fix_boolean.go/fix_float.go(syntax, value read as 64-bit pattern, text written)/fix_utc_timestamp.go is tied to the code by "
                "running both on the same generated texts each run; strconv.ParseFloat/FormatFloat are modelled by their contract (correct rounding; shortest round-tripping digits), time.Parse/shopspring internals are executed, not modelled",
        "rule": "seeded generation per value type: short strings over the type's alphabet plus near-miss characters, canonical texts, "
                "boundary values, calendar grid with single defects, random bytes; floats: whole numbers of 15-25 digits around 2^53, 2^63, 2^64, 10^19, 10^22, "
                "fractions of up to 30 digits, exact halfway points between adjacent doubles and one unit to either side, positional texts at the overflow and subnormal limits, "
                "signed zeros; float write: random finite bit patterns, whole-valued doubles, powers of two and ten, subnormals, each written text read back; "
                "distinct = distinct (op,input) pairs",
        "assumptions": ["float: FIXFloat is a Go float64 = IEEE-754 binary64 and math.Float64bits exposes its pattern; strconv's digit generation is tied to the model's "
                        "shortest-closest writer by correspondence, not by proof; NaN/Inf are never written (Read cannot produce them)",
                        "decimal arithmetic of shopspring/udecimal is modelled for non-positive exponents only (no 1e5 notation) and tied by correspondence",
                        "time.Parse/Format modelled for the four FIX layouts only"],
    }
