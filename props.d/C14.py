PROPS["C14"] = {
        "families": {"val": {"quick": 150, "thorough": 6000}},
        "independent_ops": True,
        "claim": "Theorems (Lean kernel): int write/read round trip for every 64-bit value, int acceptance = FIX grammar, exact value up to 18 digits, "
                 "boolean both directions + grammar, float acceptance = grammar, timestamp write/read at four precisions for every valid civil instant of years 0-9999, "
                 "timestamp read/write and acceptance = the strict UTCTimestamp grammar, string identity, decimal write/read (written text reads back as the value "
                 "rounded half away from zero to the field's scale; unsigned decimals cut toward zero) and canonical decimal read/write. "
                 "Correspondence only: float values (strconv), decimal exponent notation, udecimal's 19-digit limit.",
        "note": "Lean kernel + propext/Classical.choice/Quot.sound; the model of fix_int.go/fix_boolean.go/fix_float.go(acceptance)/fix_utc_timestamp.go is tied to the code by "
                "running both on the same generated texts each run; strconv/time.Parse/shopspring internals are executed, not modelled",
        "rule": "seeded generation per value type: short strings over the type's alphabet plus near-miss characters, canonical texts, "
                "boundary values, calendar grid with single defects, random bytes; distinct = distinct (op,input) pairs",
        "assumptions": ["float values and shortest representation are strconv's; decimal arithmetic of shopspring/udecimal is modelled for non-positive exponents only (no 1e5 notation) and tied by correspondence",
                        "time.Parse/Format modelled for the four FIX layouts only"],
    }
