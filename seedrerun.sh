#!/bin/bash
# seedrerun.sh <name> <property...> : re-run the checks against an already confirmed seeded change (seeded/<name>/patch.diff)
# in a fresh scratch worktree of /repo (never in /repo itself); prints the VIOLATION lines; removes the worktree.
set -u
name=$1; shift
export GOFLAGS=-mod=mod GOPROXY=off GOSUMDB=off GOTOOLCHAIN=local
wt=/root/scratch/sr_$name
git -C /repo worktree remove --force $wt 2>/dev/null; rm -rf $wt
git -C /repo worktree add -q --detach $wt HEAD || exit 2
(cd $wt && git apply /verif/seeded/$name/patch.diff) || { echo "PATCH DOES NOT APPLY"; git -C /repo worktree remove --force $wt; exit 2; }
cd /verif
for p in "$@"; do
  echo "== ./check $p against seeded/$name"
  VERIF_REPO=$wt timeout 2400 ./check $p 2>&1 | grep -E "VIOLATION" | head -5
done
git -C /repo worktree remove --force $wt; rm -rf $wt
git -C /verif checkout lean/Qfx/Gen/Facts.lean 2>/dev/null
